"""C13 - HashClient failover: decision tables of the per-server gate (partial: local decision structure only)."""
import ast
import itertools
from collections import namedtuple

from .model import AnalysisError, node_src, is_self_attr, call_name, fold, NotConst
from .spec import CLOCKS
from .paths import Interp, Domain, Env, TOP, NONE, Const, TupleV, Exc, ORD, ASYNC, fmt_trace, Opaque, Ctx
from .report import walk_no_nested

LEVEL = "other"
LEVEL_TEXT = (
    "The guarantees of C13 are statements over time and histories. R1-R6 decide the local decision structure, each "
    "clause a necessary condition of one of the bounds: the per-server gate of both runner twins as a "
    "decision table over (failing?, attempts vs retry_attempts, elapsed vs retry_timeout, outcome of the call, ignore_exc), "
    "the retry budget derived symbolically from the counter protocol (initial value, increment, gate threshold), the "
    "failure-accounting table, the coupled eviction/revival updates, and that only the caught error is re-raised. "
    "Histories are R7: HashClient interpreted with exact collections on a concrete two-server cluster (three in the "
    "thorough tier), scripted clock and server health, under every sequence of operations, clock steps (below "
    "retry_timeout, between, above dead_timeout) and failures / recoveries up to depth 7 with state de-duplication "
    "(times relative to now): contact counts per sliding window, no eviction by one failure, rerouting, no bypass of "
    "healthy servers, only the server's own error escapes, placement restored after recovery. Bounded in depth, servers "
    "and keys; the hasher is summarised as the set-like rotation C11.R4 shows it to be."
)
TRUSTED = ["CPython ast", "pmcsa/paths.py", "linear normal forms and table evaluation in pmcsa/rules_C13.py"]

Lin = namedtuple("Lin", "coef")
ErrVal = namedtuple("ErrVal", "cls")
Meta = namedtuple("Meta", "of")


OUTCOME_CLASS = {"oserror": "OSError", "timeout": "TimeoutError", "other": "MemcacheError", "closed": "MemcacheUnexpectedCloseError", "value": "ValueError"}


def lin(sym, c=1):
    return Lin(frozenset({(sym, c)}))


def lconst(c):
    return Lin(frozenset({("1", c)})) if c else Lin(frozenset())


def lin_add(a, b, sign=1):
    d = dict(a.coef)
    for s, c in b.coef:
        d[s] = d.get(s, 0) + sign * c
    return Lin(frozenset((s, c) for s, c in d.items() if c != 0))


def as_lin(v):
    if isinstance(v, Lin):
        return v
    if isinstance(v, Const) and isinstance(v.v, (int, float)) and not isinstance(v.v, bool):
        return lconst(v.v)
    return None


class GateDomain(Domain):
    async_enabled = False
    subscript_may_raise = False
    unpack_may_raise = False

    def __init__(self, prog, fn, cfg):
        super().__init__(prog, fn)
        self.cfg = cfg
        self.events = []
        self.problems = []
        self.gate_forms = []
        self.time_forms = []

    # ---- values ---------------------------------------------------------------------
    def attr_load(self, objval, node, state):
        if is_self_attr(node):
            a = node.attr
            if a == "retry_attempts":
                return lin("R")
            if a == "retry_timeout":
                return lin("retry_timeout")
            if a == "dead_timeout":
                return lin("dead_timeout")
            if a == "ignore_exc":
                return Const(self.cfg.get("ignore_exc", False))
            if a in ("_failed_clients", "_dead_clients", "hasher", "clients", "_last_dead_check_time"):
                if a == "_last_dead_check_time":
                    return lin("last_check")
                return Opaque("self." + a)
            return TOP
        if isinstance(node.value, ast.Name) and node.value.id == "client" and node.attr == "server":
            return Opaque("client.server")
        if isinstance(objval, Opaque) and objval.tag.startswith("self."):
            return Opaque(objval.tag + "." + node.attr)
        return TOP

    def subscript_load(self, objval, idxval, node, state):
        if objval == Opaque("self._failed_clients"):
            return Meta(idxval), False
        if isinstance(objval, Meta) and isinstance(idxval, Const):
            if idxval.v == "attempts":
                return lin("attempts"), False
            if idxval.v == "failed_time":
                return lin("failed_time"), False
        return TOP, False

    def subscript_store(self, objval, idxval, value, node, state):
        if isinstance(objval, Meta) and isinstance(idxval, Const):
            self.events.append(("meta-store", idxval.v, value, node))
            return state.set("#ev", state.get("#ev", ()) + (("meta-store", idxval.v, _vkey(value)),))
        if objval == Opaque("self._failed_clients"):
            self.events.append(("failed-store", idxval, value, node))
            return state.set("#ev", state.get("#ev", ()) + (("failed-store", _vkey(idxval), _vkey(value)),))
        if objval == Opaque("self._dead_clients"):
            self.events.append(("dead-store", idxval, value, node))
            return state.set("#ev", state.get("#ev", ()) + (("dead-store", _vkey(idxval), _vkey(value)),))
        return state

    def make_dict(self, keys, values, node, state):
        d = {}
        for k, v in zip(keys, values):
            if isinstance(k, Const):
                d[k.v] = v
        return ("dict", tuple(sorted((k, _vkey(v)) for k, v in d.items())))

    def binop(self, node, l, r, state):
        a, b = as_lin(l), as_lin(r)
        if a is not None and b is not None and isinstance(node.op, (ast.Add, ast.Sub)):
            return lin_add(a, b, 1 if isinstance(node.op, ast.Add) else -1)
        return super().binop(node, l, r, state)

    def compare(self, node, op, l, r, state):
        if isinstance(op, (ast.In, ast.NotIn)) and r == Opaque("self._failed_clients"):
            v = self.cfg["in_failed"]
            return Const(v if isinstance(op, ast.In) else not v)
        a, b = as_lin(l), as_lin(r)
        if a is not None and b is not None and isinstance(op, (ast.Lt, ast.LtE, ast.Gt, ast.GtE)):
            d = lin_add(a, b, -1)
            coef = dict(d.coef)
            syms = set(coef) - {"1"}
            if syms == {"attempts", "R"} and coef["attempts"] == -coef["R"] and abs(coef["attempts"]) == 1:
                # normalise to: attempts - R + c (op) 0
                s = coef["attempts"]
                c = coef.get("1", 0) * s
                o = type(op)
                if s < 0:
                    o = {ast.Lt: ast.Gt, ast.LtE: ast.GtE, ast.Gt: ast.Lt, ast.GtE: ast.LtE}[o]
                self.gate_forms.append((o, c, node))
                # decide under the configured relation attempts = R + delta, delta in the cfg
                delta = self.cfg["delta"]
                val = delta + c
                return Const({ast.Lt: val < 0, ast.LtE: val <= 0, ast.Gt: val > 0, ast.GtE: val >= 0}[o])
            for tname, t_sym, ref in (("retry", "retry_timeout", "failed_time"), ("dead", "dead_timeout", "dead_time"), ("deadcheck", "dead_timeout", "last_check")):
                pat = {"now": 1, ref: -1, t_sym: -1}
                neg = {k: -v for k, v in pat.items()}
                if coef == pat or coef == neg:
                    gt = isinstance(op, (ast.Gt, ast.GtE))
                    if coef == neg:
                        gt = not gt
                    self.time_forms.append((tname, gt, node))
                    elapsed = self.cfg.get("elapsed_" + tname, self.cfg.get("elapsed", False))
                    # `now - ref > T` is true iff elapsed; a reversed comparison is true iff not elapsed
                    return Const(elapsed if gt else not elapsed)
            if syms == {"R"} and abs(coef["R"]) == 1:
                # retry_attempts (op) const
                s = coef["R"]
                c = coef.get("1", 0) * s
                o = type(op)
                if s < 0:
                    o = {ast.Lt: ast.Gt, ast.LtE: ast.GtE, ast.Gt: ast.Lt, ast.GtE: ast.LtE}[o]
                rv = self.cfg.get("R_value", 1)
                val = rv + c
                return Const({ast.Lt: val < 0, ast.LtE: val <= 0, ast.Gt: val > 0, ast.GtE: val >= 0}[o])
            self.problems.append(("comparison-shape", "comparison `%s` is not one of the modelled forms (attempts vs retry_attempts, elapsed time vs timeout)" % node_src(node), node))
            return TOP
        for x, y in ((l, r), (r, l)):
            if isinstance(x, Meta) and y == NONE and isinstance(op, (ast.Is, ast.IsNot, ast.Eq, ast.NotEq)):
                return Const(isinstance(op, (ast.IsNot, ast.NotEq)))  # a record is a dict, never None
            if isinstance(x, ErrVal) and y == NONE:
                return Const(False) if isinstance(op, (ast.Is, ast.Eq)) else Const(True)
        return super().compare(node, op, l, r, state)

    def truth(self, v, state=None):
        if isinstance(v, (ErrVal, Meta)):
            return True  # (a failure record always has its two entries)
        if isinstance(v, Opaque) and v.tag == "self._dead_clients":
            return None
        return super().truth(v, state)

    def exc_of_value(self, node, value, state, ctx):
        if isinstance(value, ErrVal):
            return Exc(ORD, value.cls, node.lineno)
        return None

    def _ev(self, state, *ev):
        cur = state.get("#ev", ())
        if len(cur) >= 2 and cur[-1] == tuple(ev) and cur[-2] == tuple(ev):
            return state  # saturate: a loop that repeats one event has "two or more" of it (the fixpoint must end)
        return state.set("#ev", cur + (tuple(ev),))

    def call(self, node, fval, args, kwargs, state):
        name = call_name(node)
        out = self.cfg.get("outcome", "ok")
        if name == "func" or name == "client.set_many":
            # the one place where the server is contacted (`_set_many`, whatever it returns or re-raises, is inlined)
            st = self._ev(state, "contact")
            self.events.append(("contact", node))
            if out == "ok":
                return [("ok", Opaque("result" if name == "func" else "failed"), st)]
            return [("exc", Exc(ORD, OUTCOME_CLASS[out], node.lineno), st)]
        if name in CLOCKS:
            return [("ok", lin("now"), state)]
        if name == "self._mark_failed_server":
            return [("ok", NONE, self._ev(state, "mark", _vkey(args[0]) if args else None))]
        if name == "self.remove_server":
            return [("ok", NONE, self._ev(state, "evict", _vkey(args[0]) if args else None))]
        if name == "self.add_server":
            return [("ok", NONE, self._ev(state, "revive", _vkey(args[0]) if args else None))]
        if name == "self._failed_clients.get" and 1 <= len(args) <= 2:
            # one lookup instead of `in` + `[]`: the record while the server is failing, the default otherwise
            if self.cfg["in_failed"]:
                return [("ok", Meta(args[0]), state)]
            return [("ok", args[1] if len(args) == 2 else NONE, state)]
        if name == "self._failed_clients.pop":
            return [("ok", TOP, self._ev(state, "forget", _vkey(args[0]) if args else None))]
        if name in ("self.hasher.remove_node", "self.hasher.add_node"):
            return [("ok", NONE, self._ev(state, name.split(".")[-1], _vkey(args[0]) if args else None))]
        if name == "self._make_client_key":
            return [("ok", Opaque("node-name"), state)]
        if name in ("values.keys",):
            return [("ok", Opaque("all-keys"), state)]
        if name == "set":
            return [("ok", ("set", _vkey(args[0]) if args else None), state)]
        if name == "list":
            return [("ok", ("list", _vkey(args[0]) if args else None), state)]
        if name.startswith("logger."):
            return [("ok", NONE, state)]
        if name == "isinstance":
            return [("ok", TOP, state)]
        if isinstance(node.func, ast.Name) and self.fn is not None and node.func.id in self.fn.module.functions:
            res = self.inline(node, self.fn.module.functions[node.func.id], args, kwargs, state)
            if res is not None:
                return res
        if name.startswith("self._") and name.count(".") == 1 and self.prog is not None:
            # other private helpers of the class (e.g. an extracted legacy (server, port) normaliser) are inlined
            m = self.prog.method("HashClient", name[5:], required=False)
            if m is not None:
                res = self.inline(node, m, args, kwargs, state)
                if res is not None:
                    return res
        return [("ok", TOP, state)]

    global_keys = ("#ev", "#rearmed", "#deleted", "#scanned")

    def for_next(self, node, itval, state):
        return [(TOP, state)]


def _vkey(v):
    try:
        hash(v)
        return v
    except TypeError:
        return repr(v)


class _Muted:
    """A rule whose verdicts are not taken: the symbolic tables of R1-R4 read the failure record in one representation
    (a dict with the fields 'attempts' and 'failed_time' per failing server).  When the code keeps that record in another
    form (a small class, parallel dicts, a deadline instead of a time stamp) the tables do not apply; what they stand
    for is then decided by the histories of R7, which interpret whatever representation there is."""

    def __init__(self, rule):
        self.__dict__["_r"] = rule

    def __getattr__(self, n):
        return getattr(self._r, n)

    def fail(self, construct, msg, **kw):
        return None

    def expect(self, cond, what, construct, msg, **kw):
        if cond:
            self._r.ok(what)

    def undecided(self, construct, msg):
        return None

    def floor(self, name, n, minimum):
        self._r.count(name, n)


def _canonical_record(prog, hc):
    """Is the failure record kept as `self._failed_clients[server] = {"failed_time": ..., "attempts": ...}`?"""
    mk = prog.method(hc, "_mark_failed_server", required=False)
    if mk is None:
        return False
    for n in ast.walk(mk.node):
        if isinstance(n, ast.Dict) and {k.value for k in n.keys if isinstance(k, ast.Constant)} >= {"attempts", "failed_time"}:
            return True
    return False


def run(chk):
    prog = chk.prog
    hc = prog.cls("HashClient")
    canonical = _canonical_record(prog, hc)
    # ------------------------------------------------------------------ R1 gate table, both twins
    r1 = chk.rule("C13.R1", "gate decision table of _safely_run_func and _safely_run_set_many over (failing, attempts vs retry_attempts, elapsed, outcome, ignore_exc)")
    # the times that are compared (failure time, dead time, last dead check, now) must be readings of one clock: the
    # analyses below read every clock as "now"
    clocks = {}
    for f_ in [m_ for m_ in prog.all_functions() if m_.module is hc.module]:
        for n_ in ast.walk(f_.node):
            if isinstance(n_, ast.Call) and call_name(n_) in CLOCKS:
                clocks.setdefault(call_name(n_), (f_, n_))
    if len(clocks) > 1:
        names_ = sorted(clocks)
        f_, n_ = clocks[names_[1]]
        r1.fail("HashClient:mixed-clocks", "%s reads the time from %s: readings of different clocks are subtracted from each other (e.g. a failure time from one, `now` from the other), so retry_timeout / dead_timeout are measured against an arbitrary offset" % (hc.module.rel, " and ".join(names_)), fn=f_, node=n_)
    else:
        r1.ok("one clock (%s) is read throughout %s" % (", ".join(clocks) or "none", hc.module.rel))
    r5 = chk.rule("C13.R5", "only the server's own error escapes: nothing is raised with ignore_exc, otherwise the caught exception itself")
    r5_real = r5
    if not canonical:
        for r_ in (r1, r5):
            r_.note("the failure record is not a {'failed_time', 'attempts'} dict per server: the symbolic gate tables do not apply to this representation; decided by the histories of R7")
        r1, r5 = _Muted(r1), _Muted(r5)
    gate_forms = {}
    n_rows = 0
    for mname in ("_safely_run_func", "_safely_run_set_many"):
        f = prog.method(hc, mname)
        bad = {}
        for in_failed, delta, elapsed, outcome, ign in itertools.product((False, True), (-1, 0, 1), (False, True), ("ok", "oserror", "timeout", "other", "closed", "value"), (False, True)):
            if not in_failed and (delta != -1 or elapsed):
                continue
            cfg = dict(in_failed=in_failed, delta=delta, elapsed=elapsed, outcome=outcome, ignore_exc=ign)
            dom = GateDomain(prog, f, cfg)
            outs = Interp(dom, f.node, prog).run(Env({"#ev": (), "default_val": Opaque("default_val")}))
            n_rows += 1
            for construct, msg, node in dom.problems:
                r1.fail("HashClient.%s:%s" % (mname, construct), msg, fn=f, node=node)
            for o, c, node in dom.gate_forms:
                gate_forms.setdefault(mname, set()).add((o, c))
            exits = [("ret", s, v, t) for s, v, t in outs.of("ret")] + [("exc", s, v, t) for s, v, t in outs.of("exc")]
            if len(exits) != 1:
                bad.setdefault("not-deterministic", (cfg, "%d exits" % len(exits)))
                continue
            kind, s, v, t = exits[0]
            ev = [e for e in s.get("#ev", ())]
            names = [e[0] for e in ev]
            gate = None
            if in_failed:
                # the gate's verdict under this relation, as the code computes it
                gate = all(_gate_true(o, c, delta) for o, c in gate_forms.get(mname, set())) if gate_forms.get(mname) else None
            # ---- expected behaviour
            problems = []
            contacted = names.count("contact")
            if not in_failed:
                want_contact = 1
            elif gate is None:
                want_contact = None
            elif gate:
                want_contact = 1 if elapsed else 0
            else:
                want_contact = 1
            if want_contact is not None and contacted != want_contact:
                problems.append("contacts the server %d time(s), expected %d" % (contacted, want_contact))
            if in_failed and gate is False and "evict" not in names:
                problems.append("does not take the server out of rotation although its retry budget is used up")
            if in_failed and gate and "evict" in names:
                problems.append("evicts the server although retry budget is left")
            if not in_failed and "evict" in names:
                problems.append("evicts a server that is not failing")
            for e in ev:
                if e[0] in ("evict", "mark", "forget") and e[1] != Opaque("client.server"):
                    problems.append("%s is applied to %s instead of client.server" % (e[0], e[1]))
            if contacted:
                if outcome == "ok":
                    if kind != "ret":
                        problems.append("raises although the call succeeded")
                    if in_failed and gate and elapsed and "forget" not in names:
                        problems.append("a successful retry does not remove the server from the failing set")
                    if "mark" in names:
                        problems.append("marks the server failed although the call succeeded")
                    if mname == "_safely_run_func" and kind == "ret" and v != Opaque("result"):
                        problems.append("returns %s instead of the call's result" % (v,))
                    if mname == "_safely_run_set_many" and kind == "ret" and v != Opaque("failed"):
                        problems.append("returns %s instead of the keys that failed" % (v,))
                elif outcome in ("oserror", "timeout"):
                    if names.count("mark") != 1:
                        problems.append("an OSError marks the server failed %d times (exactly once expected)" % names.count("mark"))
                else:
                    if "mark" in names:
                        problems.append("an exception that is not an OSError (%s) marks the server as failed: a server that did not fail is bypassed afterwards" % OUTCOME_CLASS[outcome])
                if outcome != "ok":
                    if ign and kind != "ret":
                        r5.fail("HashClient.%s:raises-with-ignore_exc" % mname, "with ignore_exc an exception (%s) escapes %s" % (v, mname), fn=f, witness=fmt_trace(t))
                    if not ign:
                        if kind != "exc":
                            problems.append("swallows the error although ignore_exc is off")
                        else:
                            want_cls = OUTCOME_CLASS[outcome]
                            if v.cls != want_cls:
                                r5.fail("HashClient.%s:raises-other-exception" % mname, "%s raises %s where the server's %s was caught" % (mname, v, want_cls), fn=f, witness=fmt_trace(t))
                    if ign and kind == "ret":
                        if mname == "_safely_run_func" and v != Opaque("default_val"):
                            problems.append("returns %s instead of default_val on an ignored error" % (v,))
            else:
                if kind != "ret":
                    problems.append("raises %s without having contacted the server" % (v,))
                elif mname == "_safely_run_func" and v != Opaque("default_val"):
                    problems.append("returns %s instead of default_val when the server is skipped" % (v,))
                elif mname == "_safely_run_set_many" and v != Opaque("all-keys"):
                    problems.append("returns %s instead of all keys (as failed) when the server is skipped" % (v,))
                if "mark" in names:
                    problems.append("marks without contact")
            for p in problems:
                bad.setdefault(p, (cfg, fmt_trace(t)))
        for p, (cfg, wit) in bad.items():
            r1.fail("HashClient.%s:gate:%s" % (mname, _slug(p)), "%s %s (e.g. row %s)" % (mname, p, _fmt(cfg)), fn=f, node=f.node, witness=wit if isinstance(wit, str) else None)
        if not bad:
            r1.ok("%s: all rows of the gate table behave as specified" % mname)
    r1.count("rows evaluated", n_rows)
    r1.floor("rows", n_rows, 50)
    if not r5.findings:
        r5.ok("both runners: nothing escapes with ignore_exc; otherwise the caught exception is re-raised")
    # twins agree on the gate
    r1.expect(gate_forms.get("_safely_run_func") == gate_forms.get("_safely_run_set_many") and gate_forms.get("_safely_run_func"), "both runners use the same gate comparison", "HashClient:gate-twins-differ", "the two runners compare attempts with retry_attempts differently: %s vs %s" % (sorted((o.__name__, c) for o, c in gate_forms.get("_safely_run_func", [])), sorted((o.__name__, c) for o, c in gate_forms.get("_safely_run_set_many", []))), fn=prog.method(hc, "_safely_run_func"))
    # time comparison direction (strictness free)
    # ------------------------------------------------------------------ R3 failure accounting + R2 budget
    r3 = chk.rule("C13.R3", "failure accounting table of _mark_failed_server over (already failing, retry_attempts > 0)")
    if not canonical:
        r3.note("not applicable to this representation of the failure record; decided by the histories of R7")
        r3 = _Muted(r3)
    mf = prog.method(hc, "_mark_failed_server")
    c0 = None
    inc = None
    for in_failed, rpos in itertools.product((False, True), (False, True)):
        cfg = dict(in_failed=in_failed, R_value=1 if rpos else 0, delta=0)
        dom = GateDomain(prog, mf, cfg)
        dom.attr_load_orig = dom.attr_load
        outs = Interp(dom, mf.node, prog).run(Env({"#ev": (), mf.pos_params()[0].name: Opaque("server")}))
        exits = outs.of("ret") + [(s, v, t) for s, v, t in outs.of("exc")]
        if len(exits) != 1 or outs.of("exc"):
            r3.fail("HashClient._mark_failed_server:row:%s:%s" % (in_failed, rpos), "_mark_failed_server does not complete normally for (failing=%s, retries configured=%s)" % (in_failed, rpos), fn=mf)
            continue
        s = exits[0][0]
        ev = list(s.get("#ev", ()))
        names = [e[0] for e in ev]
        problems = []
        if not in_failed:
            stores = [e for e in ev if e[0] == "failed-store"]
            if len(stores) != 1 or stores[0][1] != Opaque("server"):
                problems.append("a first failure is not recorded under the server")
            else:
                d = dict(stores[0][2][1]) if isinstance(stores[0][2], tuple) and stores[0][2][0] == "dict" else {}
                if d.get("failed_time") != lin("now"):
                    problems.append("the failure time of a first failure is not time.time()")
                a0 = d.get("attempts")
                if isinstance(a0, Const) and isinstance(a0.v, int):
                    c0 = a0.v
                else:
                    problems.append("the attempt counter is not initialised to a constant")
            if rpos and "evict" in names:
                problems.append("a single failure evicts the server although retries are configured")
            if not rpos and names.count("evict") != 1:
                problems.append("with no retries configured the first failure must evict the server exactly once (evictions: %d)" % names.count("evict"))
            if not rpos and "evict" in names and [e for e in ev if e[0] == "evict"][0][1] != Opaque("server"):
                problems.append("evicts another server")
        else:
            ms = [e for e in ev if e[0] == "meta-store"]
            incs = [e for e in ms if e[1] == "attempts"]
            times = [e for e in ms if e[1] == "failed_time"]
            if len(incs) != 1 or not (isinstance(incs[0][2], Lin) and dict(incs[0][2].coef).get("attempts") == 1 and len(incs[0][2].coef) == 2):
                problems.append("a repeated failure does not increment the attempt counter exactly once")
            else:
                inc = dict(incs[0][2].coef).get("1", 0)
            if len(times) != 1 or times[0][2] != lin("now"):
                problems.append("a repeated failure does not refresh the failure time: after the first retry every later call is let through at once, so the failing server is contacted more than twice per retry_timeout window")
            if "evict" in names:
                problems.append("a repeated failure evicts directly")
        for p in problems:
            r3.fail("HashClient._mark_failed_server:%s" % _slug(p), "_mark_failed_server (failing=%s, retries configured=%s): %s" % (in_failed, rpos, p), fn=mf, node=mf.node)
        if not problems:
            r3.ok("_mark_failed_server(failing=%s, retries configured=%s) behaves as specified" % (in_failed, rpos))
    r2 = chk.rule("C13.R2", "retry budget: the counter protocol (initial value, +1 per repeated failure) and the gate threshold permit exactly retry_attempts retries before eviction")
    if not canonical:
        r2.note("not applicable to this representation of the failure record; decided by the histories of R7")
        r2 = _Muted(r2)
    gf = gate_forms.get("_safely_run_func") or set()
    if len(gf) != 1 or c0 is None or inc is None:
        r2.fail("HashClient:retry-budget-underivable", "cannot derive the retry budget (gate forms %s, initial counter %s, increment %s)" % (sorted((o.__name__, c) for o, c in gf), c0, inc), fn=mf)
    else:
        o, c = next(iter(gf))
        # gate: attempts - R + c (o) 0 ; retry allowed while true; attempts takes c0, c0+inc, ...
        # largest d such that gate(attempts = R + d) holds
        ds = [d for d in range(-6, 7) if _gate_true(o, c, d)]
        if not ds or o in (ast.Gt, ast.GtE) or inc != 1:
            r2.fail("HashClient:retry-budget-shape", "the gate `attempts %s retry_attempts %+d` with increment %s is not a decreasing budget" % (o.__name__, -c, inc), fn=mf)
        else:
            dmax = max(ds)
            n_extra = dmax - c0 + 1  # N(R) = R + n_extra
            r2.expect(n_extra == 0, "N(retry_attempts) = retry_attempts (counter from %d, gate true up to attempts = retry_attempts%+d)" % (c0, dmax), "HashClient:retry-budget", "the counter starts at %d, grows by 1 per failed retry and the gate lets a retry through while attempts <= retry_attempts%+d: that permits retry_attempts%+d retries before eviction (%s)" % (c0, dmax, n_extra, "a failing server is contacted more than retry_attempts+2 times per death" if n_extra > 0 else "with retry_attempts=1 a single failure already evicts the server"), fn=prog.method(hc, "_safely_run_func"))

    # ------------------------------------------------------------------ R4 coupled eviction / revival
    r4 = chk.rule("C13.R4", "eviction and revival update hasher, dead set and failing set together; the dead scan runs, re-adds and re-arms only when dead_timeout has elapsed")
    if not canonical:
        r4.note("not applicable to this representation of the failure record; decided by the histories of R7")
        r4 = _Muted(r4)
    rs = prog.method(hc, "remove_server")
    dom = GateDomain(prog, rs, dict(in_failed=True, delta=0))
    outs = Interp(dom, rs.node, prog).run(Env({"#ev": (), rs.pos_params()[0].name: Opaque("server"), "port": NONE}))
    for s, v, t in outs.of("ret"):
        names = [e[0] for e in s.get("#ev", ())]
        ok = names.count("remove_node") == 1 and names.count("dead-store") == 1 and names.count("forget") == 1
        r4.expect(ok, "remove_server: hasher.remove_node + _dead_clients[server] = now + _failed_clients.pop(server)", "HashClient.remove_server:coupled-update", "remove_server performs %s: the node must leave the hasher, enter the dead set and leave the failing set together" % names, fn=rs, witness=fmt_trace(t))
        ds = [e for e in s.get("#ev", ()) if e[0] == "dead-store"]
        if ds:
            r4.expect(ds[0][1] == Opaque("server") and ds[0][2] == lin("now"), "dead time is time.time() under the server", "HashClient.remove_server:dead-time", "the eviction time recorded is %s under %s" % (ds[0][2], ds[0][1]), fn=rs)
    rd = prog.method(hc, "_retry_dead")
    for outer, inner in itertools.product((False, True), (False, True)):
        cfg = dict(in_failed=False, delta=0, elapsed_deadcheck=outer, elapsed_dead=inner)
        dom = _RetryDeadDomain(prog, rd, cfg)
        outs = Interp(dom, rd.node, prog).run(Env({"#ev": ()}))
        for construct, msg, node in dom.problems:
            r4.fail("HashClient._retry_dead:%s" % construct, msg, fn=rd, node=node)
        for s, v, t in outs.of("ret"):
            ev = list(s.get("#ev", ()))
            names = [e[0] for e in ev]
            rearm = s.get("#rearmed", False)
            if not outer:
                r4.expect(not names and not rearm, "_retry_dead: nothing happens before dead_timeout has elapsed since the last scan", "HashClient._retry_dead:acts-before-timeout", "before dead_timeout has elapsed since the last scan _retry_dead already %s: %s" % ("re-arms _last_dead_check_time" if rearm else "acts", "the scan is postponed on every call, so with steady traffic an evicted server that has recovered is never brought back" if rearm else names), fn=rd, witness=fmt_trace(t))
            else:
                r4.expect(rearm, "_retry_dead re-arms the scan time after a scan", "HashClient._retry_dead:no-rearm", "after a scan _last_dead_check_time is not updated", fn=rd)
                if not s.get("#scanned", False):
                    r4.fail("HashClient._retry_dead:no-scan", "after dead_timeout has elapsed the dead set is not scanned", fn=rd, witness=fmt_trace(t))
                    continue
                if inner:
                    ok = names.count("revive") >= 1 and s.get("#deleted", 0) >= 1
                    r4.expect(ok, "_retry_dead: a server dead for longer than dead_timeout is re-added and leaves the dead set", "HashClient._retry_dead:revival", "a server whose dead_timeout has elapsed is not (re-added and removed from the dead set): %s, deletions %s" % (names, s.get("#deleted", 0)), fn=rd, witness=fmt_trace(t))
                else:
                    # the inner loop may run 0 times or the test fails: no revival allowed
                    r4.expect("revive" not in names, "_retry_dead: a server dead for less than dead_timeout stays out", "HashClient._retry_dead:early-revival", "a server is re-added before its dead_timeout has elapsed", fn=rd, witness=fmt_trace(t))
    # who writes the failover state
    allowed = {"_failed_clients": {"HashClient.__init__", "HashClient._mark_failed_server", "HashClient.remove_server", "HashClient._safely_run_func", "HashClient._safely_run_set_many", "AWSElastiCacheHashClient.__init__", "AWSElastiCacheHashClient.reconfigure_nodes"}, "_dead_clients": {"HashClient.__init__", "HashClient.remove_server", "HashClient._retry_dead", "AWSElastiCacheHashClient.__init__", "AWSElastiCacheHashClient.reconfigure_nodes"}}
    # a private helper all of whose call sites are inside the state machine belongs to it (bookkeeping moved into
    # _enter_rotation / _leave_rotation style helpers)
    callers = {}
    for f in prog.all_functions():
        for n in walk_no_nested(f.node):
            if isinstance(n, ast.Call) and isinstance(n.func, ast.Attribute) and isinstance(n.func.value, ast.Name) and n.func.value.id == "self" and n.func.attr.startswith("_") and not n.func.attr.startswith("__"):
                callers.setdefault(n.func.attr, set()).add(f.qualname)
    for attr_ in allowed:
        changed = True
        while changed:
            changed = False
            for cname_ in ("HashClient", "AWSElastiCacheHashClient"):
                for mname_, m_ in prog.cls(cname_).methods.items():
                    q_ = m_.qualname
                    if q_ not in allowed[attr_] and mname_ in callers and callers[mname_] <= allowed[attr_]:
                        allowed[attr_].add(q_)
                        changed = True
    for f in prog.all_functions():
        for n in walk_no_nested(f.node):
            attr = None
            if isinstance(n, (ast.Assign, ast.AugAssign, ast.Delete)):
                for t in (n.targets if not isinstance(n, ast.AugAssign) else [n.target]):
                    for x in ast.walk(t):
                        if isinstance(x, ast.Attribute) and x.attr in allowed:
                            attr = x.attr
            if isinstance(n, ast.Call) and isinstance(n.func, ast.Attribute) and n.func.attr in ("pop", "clear", "update", "setdefault", "popitem") and isinstance(n.func.value, ast.Attribute) and n.func.value.attr in allowed:
                attr = n.func.value.attr
            if attr and f.qualname not in allowed[attr]:
                r4.fail("%s:writes-%s" % (f.qualname, attr), "%s modifies %s outside the failover state machine" % (f.qualname, attr), fn=f, node=n)
    r4.ok("failing/dead sets are written only by the failover methods")
    # ------------------------------------------------------------------ R6 rerouting follows the rotation
    r6 = chk.rule("C13.R6", "rerouting and recovery take effect at once: every call asks the hasher afresh (no placement is remembered across eviction / revival)")
    from . import rules_C12, report

    report.include_rules(chk, r6, rules_C12, ("C12.R1", "C12.R2"), "while a server is out its keys go to the remaining servers and return to it after revival only if placement is recomputed from the servers currently in rotation on every call")
    report.include_rules(chk, r6, rules_C12, ("C12.R3",), "a multi-key call contacts each server once, so one call counts as one attempt against the retry budget and a server is evicted at most once")
    # the failover logic only works on failures it gets to see: the per-server clients must not swallow them
    from . import pooled as pooled_an

    for cname in ("HashClient", "AWSElastiCacheHashClient"):
        cls_ = prog.cls(cname)
        init_ = prog.method(cls_, "__init__")
        if init_.cls is not cls_:
            continue
        r5 = r5_real
        hinit, hadd, hcreated = pooled_an.created_client_options(prog, cname, "add_server")
        if not hcreated:
            raise AnalysisError("C13.R5: no construction of a per-server client is reached through %s.__init__ + add_server" % cname)
        for pos, kw in hcreated:
            v = kw.get("ignore_exc", None)
            if type(v).__name__ == "MaybeV" and v.v == Const(False):
                v = v.v  # passed as False or left to Client's default False: the same
            if v is None and "**" in kw:
                r5.undecided("%s:ignore_exc-forwarded" % cname, "the per-server clients are constructed with a `**mapping` whose content the analysis lost")
                continue
            r5.expect(v is None or v == Const(False), "%s: per-server clients are created with ignore_exc off" % cname, "%s:ignore_exc-forwarded" % cname, "%s constructs its per-server clients with ignore_exc=%s: their reads then swallow connection errors themselves, the failover logic never sees a failure, and a dead server is contacted by every call (no marking, no back-off, no eviction, no rerouting)" % (cname, "its own `ignore_exc` option" if isinstance(v, pooled_an.P) else v), fn=hinit, node=hinit.node)
    # ------------------------------------------------------------------ R7 histories
    r7 = chk.rule("C13.R7", "histories: HashClient interpreted on a concrete two-server cluster under every sequence of operations, clock steps (below retry_timeout, between, above dead_timeout) and failures / recoveries up to depth 7, for retry_attempts 0..2, ignore_exc on/off, socket and non-socket errors: bounded probing, no eviction by one failure, rerouting, no bypass of healthy servers, only the server's own error escapes, placement restored after recovery")
    from . import failhist

    inc = getattr(chk, "included_for", None)
    if inc is not None and "C13.R7" not in inc and not canonical:
        # an including check asked for the tables, which do not apply here: run the histories in their place
        failhist.failover_histories(prog, r1._r if isinstance(r1, _Muted) else r1, chk.tier)
    if inc is not None and "C13.R7" not in inc:
        r7.note("not run inside another property's check (C13.R1-R6 are what is included there)")
        r7.ok("skipped in an included run")
    else:
        failhist.failover_histories(prog, r7, chk.tier)
    chk.assume("retry_timeout < dead_timeout, as in the property")
    chk.assume("time.time() is monotone between the calls of one operation")


class _ServerParam:
    """Wraps a GateDomain so that the `server` parameter of helper methods is a named opaque value."""

    def __init__(self, dom):
        self.__dict__["d"] = dom

    def __getattr__(self, name):
        return getattr(self.__dict__["d"], name)

    def __setattr__(self, name, value):
        setattr(self.__dict__["d"], name, value)


class _RetryDeadDomain(GateDomain):
    """_retry_dead: one dead server in the dead set; local lists are tracked as empty / non-empty."""

    EMPTY, NONEMPTY = Opaque("empty-list"), Opaque("nonempty-list")

    def attr_store(self, objval, node, value, state):
        if is_self_attr(node, "_last_dead_check_time"):
            return state.set("#rearmed", True)
        return state

    def make_list(self, items, node, state):
        return self.NONEMPTY if items else self.EMPTY

    def comprehension(self, node, elem_values, state):
        return self.NONEMPTY if elem_values else self.EMPTY

    def call(self, node, fval, args, kwargs, state):
        name = call_name(node)
        if name == "self._dead_clients.items":
            return [("ok", Opaque("dead-items"), state)]
        if name in ("list", "tuple") and args and args[0] == Opaque("dead-items"):
            return [("ok", Opaque("dead-items"), state)]
        if isinstance(node.func, ast.Attribute) and node.func.attr == "append" and isinstance(node.func.value, ast.Name):
            nm = node.func.value.id
            return [("ok", NONE, state.set(nm, self.NONEMPTY))]
        return super().call(node, fval, args, kwargs, state)

    def _key(self, node):
        return ("visited", getattr(node, "lineno", None) or node.iter.lineno, type(node).__name__)

    def for_next(self, node, itval, state):
        k = self._key(node)
        if itval == Opaque("dead-items"):
            if state.get(k, False):
                return []
            return [(TupleV((Opaque("dead-server"), lin("dead_time"))), state.set(k, True).set("#scanned", True))]
        if itval == self.NONEMPTY:
            if state.get(k, False):
                return []
            return [(Opaque("dead-server"), state.set(k, True))]
        if itval == self.EMPTY:
            return []
        return super().for_next(node, itval, state)

    def for_exhausted(self, node, itval, state):
        if itval in (Opaque("dead-items"), self.NONEMPTY) and not state.get(self._key(node), False):
            return None  # one element is present: the loop body runs before the loop can end
        return state

    def truth(self, v, state=None):
        if v == self.NONEMPTY:
            return True
        if v == self.EMPTY:
            return False
        return super().truth(v, state)

    def subscript_store(self, objval, idxval, value, node, state):
        if objval == Opaque("self._dead_clients") and value is None:
            return state.set("#deleted", state.get("#deleted", 0) + 1)
        return super().subscript_store(objval, idxval, value, node, state)


def _gate_true(o, c, delta):
    val = delta + c
    return {ast.Lt: val < 0, ast.LtE: val <= 0, ast.Gt: val > 0, ast.GtE: val >= 0}[o]


def _slug(p):
    import re

    return re.sub(r"[^a-z0-9]+", "-", p.lower())[:70].strip("-")


def _fmt(cfg):
    return ", ".join("%s=%s" % kv for kv in cfg.items())
