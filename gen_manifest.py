#!/venv/bin/python
"""Regenerates MANIFEST.json from pmcsa/registry.py (single source of truth)."""
import json, sys, os
sys.path.insert(0, os.path.dirname(os.path.abspath(__file__)))
from pmcsa import registry
json.dump(registry.manifest(), open(os.path.join(os.path.dirname(os.path.abspath(__file__)), "MANIFEST.json"), "w"), indent=1)
print("MANIFEST.json written:", len(registry.manifest()["checks"]), "checks")
