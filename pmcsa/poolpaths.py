"""Path analyses of pymemcache/pool.py shared by C08, C09 and C10."""
import ast
from collections import namedtuple

from .model import AnalysisError, node_src, is_self_attr, call_name
from .paths import Interp, Domain, Env, TOP, Const, Neq, NONE, Opaque, Exc, ORD, ASYNC, fmt_trace
from .report import walk_no_nested

POOL = "pymemcache/pool.py"
Truthiness = namedtuple("Truthiness", "b")
POOLED = Opaque("pooled-object")


class BracketDomain(Domain):
    """get_and_release: count release/destroy calls on the object obtained from get()."""

    def __init__(self, prog, fn):
        super().__init__(prog, fn)
        self.bad_args = []

    def truth(self, v, state=None):
        if isinstance(v, Truthiness):
            return v.b
        return super().truth(v, state)

    def attr_load(self, objval, node, state):
        if is_self_attr(node) and node.attr in ("get", "release", "destroy"):
            return Opaque("bound:self." + node.attr)  # a bound method of the pool, possibly kept in a variable
        return super().attr_load(objval, node, state)

    def call(self, node, fval, args, kwargs, state):
        name = call_name(node)
        if isinstance(fval, Opaque) and fval.tag.startswith("bound:"):
            name = fval.tag[6:]
        if name == "self.get":
            s2 = state.set("#got", 1)
            return [("ok", POOLED, s2)] + self.call_raises(node, state)
        if name in ("self.release", "self.destroy"):
            if not args or args[0] != POOLED:
                self.bad_args.append(node)
            s2 = state.set("#rel", min(2, state.get("#rel", 0) + 1)).set("#how", name.split(".")[1])
            # summarised as atomic for slot accounting: the object leaves _used_objs before anything else can fail
            # (C08.R3 checks that ordering inside release/destroy)
            return [("ok", NONE, s2)]
        return [("ok", TOP, state)] + self.call_raises(node, state)


def bracket_exits(prog):
    """-> (fn, list of dict(kind, colour, rel, how, dof, trace))."""
    pool = prog.cls("ObjectPool")
    fn = prog.method(pool, "get_and_release")
    if not any("contextmanager" in d for d in fn.decorators):
        raise AnalysisError("ObjectPool.get_and_release is no longer a contextlib.contextmanager generator")
    if fn.param("destroy_on_fail") is None:
        raise AnalysisError("ObjectPool.get_and_release lost its destroy_on_fail parameter")
    n_yield = sum(1 for n in walk_no_nested(fn.node) if isinstance(n, ast.Yield))
    if n_yield != 1:
        raise AnalysisError("get_and_release has %d yield expressions (a context manager generator needs exactly 1)" % n_yield)
    recs = []
    for dof in (True, False):
        dom = BracketDomain(prog, fn)
        st = Env({"#rel": 0, "#how": None, "#got": 0, "destroy_on_fail": Truthiness(dof)})
        outs = Interp(dom, fn.node, prog).run(st)
        for s, exc, t in outs.of("exc"):
            recs.append(dict(kind="exc", colour=exc.colour, exc=exc, rel=s.get("#rel"), how=s.get("#how"), got=s.get("#got"), dof=dof, trace=t))
        for s, v, t in outs.of("ret"):
            thrown = [x for x in t if isinstance(x, str) and x.startswith("except@")]
            recs.append(dict(kind="ret", colour=None, exc=None, rel=s.get("#rel"), how=s.get("#how"), got=s.get("#got"), dof=dof, trace=t, swallowed=bool(thrown)))
        if dom.bad_args:
            recs.append(dict(kind="badarg", node=dom.bad_args[0], dof=dof, rel=None, how=None, got=1, colour=None, trace=()))
    return fn, recs


CONTAINER_CTORS = {"collections.deque": "deque", "deque": "deque", "set": "set", "list": "list"}


def _container_kind(val):
    if isinstance(val, ast.Call) and call_name(val) in CONTAINER_CTORS and not val.args:
        return CONTAINER_CTORS[call_name(val)]
    if isinstance(val, ast.List) and not val.elts:
        return "list"
    return None


def field_kinds(prog):
    """guarded field -> 'deque' | 'set' | 'list' (what __init__ creates it as)."""
    pool = prog.cls("ObjectPool")
    init = prog.method(pool, "__init__")
    kinds = {}
    for n in walk_no_nested(init.node):
        tgt, val = None, None
        if isinstance(n, ast.Assign) and len(n.targets) == 1:
            tgt, val = n.targets[0], n.value
        elif isinstance(n, ast.AnnAssign) and n.value is not None:
            tgt, val = n.target, n.value
        if tgt is not None and is_self_attr(tgt) and _container_kind(val) is not None:
            kinds[tgt.attr] = _container_kind(val)
    return kinds


def guarded_fields(prog):
    """Attributes of ObjectPool initialised to an empty collection (deque, set, list) in __init__, and the lock
    attribute."""
    pool = prog.cls("ObjectPool")
    init = prog.method(pool, "__init__")
    fields = list(field_kinds(prog))
    locks = set()
    for f in pool.methods.values():
        for n in walk_no_nested(f.node):
            if isinstance(n, ast.With):
                for it in n.items:
                    if is_self_attr(it.context_expr):
                        locks.add(it.context_expr.attr)
    return sorted(set(fields)), sorted(locks)


# =====================================================================================
# Lock / ownership domain for the methods of ObjectPool
# =====================================================================================
Lin = namedtuple("Lin", "coef")  # linear combination of symbols: frozenset of (symbol, coefficient)
class Obj(namedtuple("Obj", "origin fresh")):
    """A pooled object: origin = 'created' | 'popped:<field>' | 'param' | 'snapshot' | ...; fresh = outcome of the idle
    test applied to *this* object (True passed / False expired / None not tested) - it travels with the value."""

    def __new__(cls, origin, fresh=None):
        return super().__new__(cls, origin, fresh)

READ_OPS = {"__len__", "__bool__", "__iter__", "copy", "count", "index"}
RW_OPS = {"popleft", "pop", "remove", "discard"}
WRITE_OPS = {"append", "appendleft", "add", "update", "clear", "extend", "extendleft", "insert", "rotate", "reverse", "sort"}


def lin(sym, c=1):
    return Lin(frozenset({(sym, c)}))


def lin_add(a, b, sign=1):
    d = dict(a.coef)
    for s, c in b.coef:
        d[s] = d.get(s, 0) + sign * c
    return Lin(frozenset((s, c) for s, c in d.items() if c != 0))


class Snapshot(namedtuple("Snapshot", "fields objs")):
    """A local list: copies of guarded deques ((field, epoch), ...) plus objects appended one by one."""

    def __new__(cls, fields=(), objs=()):
        return super().__new__(cls, tuple(fields), tuple(objs))


class LockDomain(Domain):
    """Tracks, along each path of an ObjectPool method: lock held?, the current hold's epoch, which guarded-field
    operations happened in which hold, ownership of objects (removed from a deque by this thread).  Private helper
    methods of the pool are inlined, so a helper that is only called with the lock held is analysed in that context."""

    async_enabled = False
    global_keys = ("#lock", "#epoch", "#touched", "#closed", "#free_empty", "#fresh", "silent")

    def __init__(self, prog, fn, fields, lock, silent=None):
        super().__init__(prog, fn)
        self.fields = set(fields)
        self.kinds = field_kinds(prog) if prog is not None else {}
        self.lock = lock
        self.accesses = []  # (field, kind, node, state)   kind in read / rw / write
        self.unlocked = []
        self.calls_held = []  # calls made while holding the lock
        self.problems = []  # (construct, message, node)
        self.silent = silent

    def init_state(self, fn_node):
        st = {"#lock": 0, "#epoch": 0, "#touched": (), "#closed": ()}
        for p in fn_node.args.args:
            if p.arg == "obj":
                st["obj"] = Obj("param")
        if self.silent is not None:
            st["silent"] = Truthiness(self.silent)
        return Env(st)

    def truth(self, v, state=None):
        if isinstance(v, Truthiness):
            return v.b
        if isinstance(v, Obj):
            return True
        if isinstance(v, Opaque) and v.tag.startswith("field:"):
            # a guarded collection may be empty or not: both branches, refined in assume() (the free list found empty)
            if state is not None and "free" in v.tag and state.get("#free_empty") is True:
                return False
            return None
        return super().truth(v, state)

    def assume_name(self, key, value, branch, state):
        if value is TOP and key.startswith("self."):
            return state.set(key, Truthiness(branch))
        return super().assume_name(key, value, branch, state)

    # ---- guarded field access -------------------------------------------------------------
    def _touch(self, field, kind, node, state):
        self.accesses.append((field, kind, node, state))
        if not state.get("#lock"):
            self.unlocked.append((field, kind, node))
        ep = state.get("#epoch")
        touched = state.get("#touched")
        # R2: a write in a later hold than the first guarded access must be preceded by a guarded read in its own hold
        if kind == "write":
            earlier = [t for t in touched if t[0] < ep]
            own_read = [t for t in touched if t[0] == ep and t[2] in ("read", "rw")]
            if earlier and not own_read and state.get("#lock"):
                self.problems.append(("check-then-act-split:%s" % field, "`%s` writes %s in a lock hold that did not re-read any guarded field, although an earlier hold on the same path inspected %s: the check and the act are not atomic" % (node_src(node), field, "/".join(sorted({t[1] for t in earlier}))), node))
        return state.set("#touched", touched + ((ep, field, kind),) if (ep, field, kind) not in touched else touched)

    def attr_load(self, objval, node, state):
        if is_self_attr(node) and node.attr in self.fields:
            return Opaque("field:" + node.attr)
        if is_self_attr(node):
            if node.attr in ("idle_timeout",):
                return lin("timeout")
            return state.get("self." + node.attr, TOP)
        if isinstance(objval, Obj) and node.attr == "_last_used":
            return lin("last_used")
        if isinstance(objval, Opaque) and objval.tag.startswith("field:"):
            return Opaque("meth:%s:%s" % (objval.tag[6:], node.attr))
        return TOP

    def attr_store(self, objval, node, value, state):
        if isinstance(node.value, ast.Name) and node.attr == "_last_used":
            return state.set(("stamp", node.value.id), "idle_clock" if value == lin("now") else ("now-var" if value == Opaque("nowvar") else "other")).set(("stamp_epoch", node.value.id), state.get("#epoch") if state.get("#lock") else -1)
        if is_self_attr(node) and node.attr in self.fields:
            self.problems.append(("field-rebound:%s" % node.attr, "guarded field self.%s is rebound" % node.attr, node))
        return super().attr_store(objval, node, value, state)


    def compare(self, node, op, l, r, state):
        if isinstance(op, (ast.Is, ast.IsNot)):
            sent = lambda v: isinstance(v, Opaque) and v.tag.startswith("sentinel:")
            if (sent(l) or sent(r)) and all(sent(v) or isinstance(v, Obj) or v == NONE for v in (l, r)):
                same = l == r
                return Const(same if isinstance(op, ast.Is) else not same)
        if isinstance(l, Lin) and isinstance(r, Lin) and isinstance(op, (ast.Lt, ast.LtE, ast.Gt, ast.GtE)):
            return TOP
        return super().compare(node, op, l, r, state)

    def refine_compare(self, node, op, lexpr, l, rexpr, r, branch, state):
        if isinstance(op, (ast.In, ast.NotIn)) and isinstance(r, Opaque) and r.tag.startswith("field:"):
            # `obj in self._x`: a guarded read; what it found holds for the rest of this lock hold
            field = r.tag[6:]
            st = self._touch(field, "read", node, state)
            if isinstance(lexpr, ast.Name):
                present = branch if isinstance(op, ast.In) else not branch
                st = st.set(("member", lexpr.id), (field, st.get("#epoch") if st.get("#lock") else -1, present))
            return st
        if isinstance(l, Lin) and isinstance(r, Lin) and isinstance(op, (ast.Lt, ast.LtE, ast.Gt, ast.GtE)):
            d = lin_add(l, r, -1)  # l - r  (op) 0
            le = isinstance(op, (ast.Lt, ast.LtE))
            if not branch:
                le = not le
            coef = dict(d.coef)
            age_minus_t = {"now": 1, "last_used": -1, "timeout": -1}
            neg = {k: -v for k, v in age_minus_t.items()}
            if coef == age_minus_t:
                fresh = le  # age - T <= 0  => fresh
            elif coef == neg:
                fresh = not le
            else:
                self.problems.append(("idle-comparison-shape", "comparison `%s` is not of the form (now - last_used) vs idle_timeout" % node_src(node), node))
                return state
            # the verdict belongs to the object whose _last_used was read
            st = state
            for e in (lexpr, rexpr):
                for n in ast.walk(e):
                    if isinstance(n, ast.Attribute) and n.attr == "_last_used" and isinstance(n.value, ast.Name) and isinstance(st.get(n.value.id, None), Obj):
                        st = st.set(n.value.id, Obj(st.get(n.value.id).origin, fresh))
            return st
        return super().refine_compare(node, op, lexpr, l, rexpr, r, branch, state)

    def with_enter(self, item, value, state):
        if is_self_attr(item.context_expr, self.lock):
            if state.get("#lock"):
                self.problems.append(("lock-reacquired", "the non-reentrant lock is acquired while already held", item.context_expr))
            return [("ok", TOP, state.set("#lock", 1).set("#epoch", state.get("#epoch") + 1))]
        return super().with_enter(item, value, state)

    def with_exit(self, item, value, kind, state):
        if is_self_attr(item.context_expr, self.lock):
            return [("ok", state.set("#lock", 0), False)]
        return super().with_exit(item, value, kind, state)

    def for_next(self, node, itval, state):
        if isinstance(itval, Opaque) and itval.tag.startswith("field:"):
            state = self._touch(itval.tag[6:], "read", node, state)
            return [(Obj("snapshot"), state)]
        if isinstance(itval, Opaque) and itval.tag.startswith("locallist:"):
            return [(Obj("from:" + itval.tag[10:]), state)]
        if isinstance(itval, Snapshot):
            out = []
            if itval.fields:
                st = state
                if isinstance(node.target, ast.Name):
                    st = st.set(("snap", node.target.id), itval.fields)
                out.append((Obj("from-snapshot"), st))
            for o in dict.fromkeys(itval.objs):
                out.append((o, state))  # an object appended to the local list keeps its origin (popped / created ...)
            return out  # (empty for an empty local list)
        return super().for_next(node, itval, state)

    def name_load(self, name, state, node=None):
        if state.has(name):
            return state.get(name)
        mod = self.prog.module(POOL) if self.prog is not None else None
        if mod is not None and name in mod.assigns:
            v = mod.assigns[name]
            if isinstance(v, ast.Call) and call_name(v) == "object" and not v.args:
                return Opaque("sentinel:" + name)  # a module-level `object()` marker ("no object found")
        return TOP

    def call(self, node, fval, args, kwargs, state):
        name = call_name(node)
        if state.get("#lock"):
            self.calls_held.append((name, node))
        # operations on a guarded deque:  self._x.op(...)
        if isinstance(fval, Opaque) and fval.tag.startswith("meth:"):
            _, field, op = fval.tag.split(":")
            if op in RW_OPS:
                st = self._touch(field, "rw", node, state)
                kind = self.kinds.get(field, "deque")
                if op in ("popleft", "pop"):
                    # (a pop that fails has found the collection empty, as much as a truth test of it would have)
                    st_empty = st.set("#free_empty", True) if "free" in field else st
                    return [("ok", Obj("popped:" + field), st), ("exc", Exc(ORD, "KeyError" if kind == "set" else "IndexError", node.lineno), st_empty)]
                # remove(obj): success => the caller owns obj (removed by this thread in this hold)
                nm = node.args[0].id if node.args and isinstance(node.args[0], ast.Name) else None
                known = st.get(("member", nm), None) if nm is not None else None
                if known is not None and not (known[0] == field and known[1] == st.get("#epoch") and st.get("#lock")):
                    known = None  # a membership test of another hold says nothing now
                st_ok = st
                if nm is not None:
                    st_ok = st.set(("removed", nm), (field, st.get("#epoch"))).drop(("member", nm)) if st.has(("member", nm)) else st.set(("removed", nm), (field, st.get("#epoch")))
                if op == "discard":
                    # discard(obj) takes obj out if it is there and says nothing: the thread owns it afterwards only if
                    # it knows (from a membership test in this hold) that it was there
                    if known is not None:
                        return [("ok", NONE, st_ok if known[2] else st)]
                    return [("ok", NONE, st_ok), ("ok", NONE, st)]
                missing = Exc(ORD, "KeyError" if kind == "set" else "ValueError", node.lineno)
                if known is not None:
                    return [("ok", NONE, st_ok)] if known[2] else [("exc", missing, st)]
                return [("ok", NONE, st_ok), ("exc", missing, st)]
            if op in WRITE_OPS:
                st = self._touch(field, "write", node, state)
                if op in ("append", "appendleft", "add") and node.args and isinstance(node.args[0], ast.Name):
                    st = st.set(("in", field, node.args[0].id), st.get("#epoch"))
                if op == "clear":
                    st = st.set(("cleared", field), st.get("#epoch"))
                return [("ok", NONE, st)]
            st = self._touch(field, "read", node, state)
            return [("ok", TOP, st)]
        # guarded deque passed as an argument: len(self._x), tuple(self._x), lst.extend(self._x)
        st = state
        for a, an in zip(args, node.args):
            if isinstance(a, Opaque) and a.tag.startswith("field:"):
                st = self._touch(a.tag[6:], "read", node, st)
                if isinstance(node.func, ast.Attribute) and node.func.attr == "extend" and isinstance(node.func.value, ast.Name):
                    lst = node.func.value.id
                    st = st.set(("ext", lst), tuple(sorted(set(st.get(("ext", lst), ())) | {(a.tag[6:], st.get("#epoch"))})))
                    if isinstance(st.get(lst, None), Snapshot):
                        st = st.set(lst, Snapshot(tuple(sorted(set(st.get(lst).fields) | {(a.tag[6:], st.get("#epoch") if st.get("#lock") else -1)}))))
        if isinstance(node.func, ast.Attribute) and node.func.attr == "append" and isinstance(node.func.value, ast.Name) and isinstance(st.get(node.func.value.id, None), Snapshot) and args and isinstance(args[0], Obj):
            cur = st.get(node.func.value.id)
            return [("ok", NONE, st.set(node.func.value.id, Snapshot(cur.fields, cur.objs + ((args[0],) if args[0] not in cur.objs else ()))))]
        if name in ("list", "tuple") and args and isinstance(args[0], Opaque) and args[0].tag.startswith("field:"):
            return [("ok", Snapshot(((args[0].tag[6:], st.get("#epoch") if st.get("#lock") else -1),)), st)]
        if name.startswith("self._") and name.count(".") == 1 and name[5:] not in ("_obj_creator", "_after_remove", "_idle_clock") and self.prog is not None:
            m = self.prog.cls("ObjectPool").methods.get(name[5:])
            if m is not None:
                res = self.inline(node, m, args, kwargs, st)
                if res is not None:
                    return res
        if name == "self._obj_creator":
            if state.get("#free_empty") is not True:
                self.problems.append(("create-before-reuse", "a new object is created on a path where the free list was not found empty", node))
            return [("ok", Obj("created"), st), ("exc", Exc(ORD, None, node.lineno), st)]
        if name == "self._idle_clock":
            return [("ok", lin("now"), st)]
        if name == "self._after_remove":
            self._after_remove(node, args, st)
            cl = st.get("#closed")
            nm = node.args[0].id if node.args and isinstance(node.args[0], ast.Name) else "?"
            if nm in cl:
                self.problems.append(("closed-twice", "_after_remove can be called twice for `%s` on one path" % nm, node))
            st = st.set("#closed", cl + (nm,))
            return [("ok", NONE, st), ("exc", Exc(ORD, None, node.lineno), st)]
        if name in ("len", "tuple", "list", "bool", "isinstance"):
            return [("ok", TOP, st)]
        if isinstance(node.func, ast.Attribute) and node.func.attr == "extend":
            return [("ok", NONE, st)]
        if isinstance(node.func, ast.Attribute) and is_self_attr(node.func.value, self.lock):
            self.problems.append(("explicit-lock-call", "the lock is used through .%s() instead of `with`: release on every exit is no longer guaranteed by the language" % node.func.attr, node))
        return [("ok", TOP, st), ("exc", Exc(ORD, None, node.lineno), st)]

    def _after_remove(self, node, args, state):
        """R3: the argument must be owned: popped by this thread, removed by this thread, or an element of a local
        snapshot list all of whose source deques were cleared in the hold that took the snapshot."""
        if not node.args or not isinstance(node.args[0], ast.Name):
            self.problems.append(("after-remove-arg", "_after_remove called with a non-variable argument", node))
            return
        nm = node.args[0].id
        v = state.get(nm, TOP)
        owned = False
        why = "unknown origin"
        if isinstance(v, Obj):
            if v.origin.startswith("popped:"):
                owned = True
                if v.fresh is True:
                    self.problems.append(("fresh-object-closed", "an object that passed the idle test is closed", node))
            elif v.origin.startswith("from:"):
                lst = v.origin[5:]
                ext = state.get(("ext", lst), ())
                owned = bool(ext) and all(state.get(("cleared", f), None) == ep for f, ep in ext)
                why = "snapshot list `%s` taken from %s, cleared in the same hold: %s" % (lst, [f for f, e in ext], owned)
            elif v.origin == "from-snapshot":
                flds = state.get(("snap", nm), ())
                owned = bool(flds) and all(ep >= 0 and state.get(("cleared", f), None) == ep for f, ep in flds)
                why = "snapshot of %s taken and cleared in the same lock hold: %s" % ([f for f, e in flds], owned)
            elif v.origin == "param":
                rm = state.get(("removed", nm), None)
                owned = rm is not None
                why = "removed by this thread: %s" % (rm,)
            elif v.origin == "created":
                owned = True
        if not owned:
            self.problems.append(("after-remove-of-unowned:%s" % nm, "_after_remove(%s) is reachable for an object this thread did not remove from the pool (%s): it could be closed twice or while another thread uses it" % (nm, why), node))

    def subscript_load(self, objval, idxval, node, state):
        return TOP, False

    def make_list(self, items, node, state):
        if not items and not node.elts:
            return Snapshot(())  # an empty local list (may receive copies of the guarded deques through extend)
        fields = []
        for it in items:
            if isinstance(it, Opaque) and it.tag.startswith("field:"):
                self._touch(it.tag[6:], "read", node, state)
                fields.append((it.tag[6:], state.get("#epoch") if state.get("#lock") else -1))
            elif isinstance(it, Snapshot):
                fields += list(it.fields)
            else:
                return TOP
        if fields and all(isinstance(e, ast.Starred) for e in node.elts):
            return Snapshot(tuple(sorted(set(fields))))
        return TOP

    def binop(self, node, l, r, state):
        if isinstance(l, Snapshot) and isinstance(r, Snapshot) and isinstance(node.op, ast.Add):
            return Snapshot(tuple(sorted(set(l.fields) | set(r.fields))))
        if isinstance(l, Lin) and isinstance(r, Lin) and isinstance(node.op, (ast.Sub, ast.Add)):
            return lin_add(l, r, -1 if isinstance(node.op, ast.Sub) else 1)
        return super().binop(node, l, r, state)

    def name_store(self, name, value, state, node=None):
        # re-binding a variable: facts about the object it named no longer apply to it
        cl = state.get("#closed", ())
        if name in cl:
            state = state.set("#closed", tuple(x for x in cl if x != name))
        for k in [k for k in state.d if isinstance(k, tuple) and len(k) >= 2 and k[-1] == name and k[0] in ("removed", "stamp", "stamp_epoch", "in", "member")]:
            state = state.drop(k)
        if value is TOP and node is not None:
            p = getattr(node, "_parent", None)
            # needs_destroy: list[T] = []  -> a local list that can receive snapshots
            if isinstance(p, (ast.Assign, ast.AnnAssign)) and isinstance(p.value, ast.List) and not p.value.elts:
                return state.set(name, Opaque("locallist:" + name))
        return state.set(name, value)

    def assume(self, expr, value, branch, state):
        # `while self._free_objs:` / `if not self._free_objs`
        if isinstance(value, Opaque) and value.tag.startswith("field:"):
            st = self._touch(value.tag[6:], "read", expr, state)
            if value.tag[6:].endswith("free_objs") or "free" in value.tag:
                st = st.set("#free_empty", not branch)
            return st
        return super().assume(expr, value, branch, state)


def run_pool_method(prog, name, fields, lock, silent=None):
    pool = prog.cls("ObjectPool")
    fn = prog.method(pool, name)
    dom = LockDomain(prog, fn, fields, lock, silent=silent)
    interp = Interp(dom, fn.node, prog)
    outs = interp.run(dom.init_state(fn.node))
    return fn, dom, outs, interp
