"""Concrete witnesses for the genuine defects found by the static checks (documentation only;
never run by any registered check).  Usage: /venv/bin/python repro_all.py  (run against /repo).
Each function returns True when the defect is PRESENT."""
import sys, socket, errno
sys.path.insert(0, "/repo")
from pymemcache.client.base import Client, PooledClient, _readsegment, check_key_helper
from pymemcache.client.hash import HashClient
from pymemcache import serde, pool
from pymemcache.exceptions import *

class FakeSock:
    def __init__(self, pieces, mod=None): self.pieces=list(pieces); self.sent=[]; self.closed=False; self.mod=mod
    def sendall(self, b): self.sent.append(b)
    def recv(self, n):
        p=self.pieces.pop(0) if self.pieces else b""
        if isinstance(p, BaseException): raise p
        return p
    def close(self): self.closed=True
    def settimeout(self,t): pass
    def setsockopt(self,*a):
        if self.mod and self.mod.fail_opt: 
            self.mod.fail_opt-=1; raise OSError("setsockopt")
    def connect(self,a): pass

class FakeMod:
    AF_UNSPEC=0; SOCK_STREAM=1; IPPROTO_TCP=6; TCP_NODELAY=1; AF_UNIX=1
    def __init__(self, pieces=(), naddr=1, fail_opt=0): self.pieces=pieces; self.naddr=naddr; self.fail_opt=fail_opt; self.socks=[]
    def getaddrinfo(self,h,p,*a): return [(2,1,6,"",(h,p))]*self.naddr
    def socket(self,*a):
        s=FakeSock(self.pieces,self); self.socks.append(s); return s

def F1():
    after,res=_readsegment(FakeSock([b"defEND"]), b"", b"END") if False else (None,None)
    s=FakeSock([b"abc", b"defEND"])
    try: after,res=_readsegment(s,b"",b"END")
    except Exception as e: return True
    return res!=b"abcdef"
def F1b():
    s=FakeSock([b"abcE", b"NDx"])
    try: after,res=_readsegment(s,b"",b"END")
    except Exception: return True
    return (after,res)!=(b"x",b"abc")
def F2():
    m=FakeMod(naddr=2, fail_opt=1)
    c=Client(("h",1), socket_module=m, no_delay=True)
    try: c._connect()
    except OSError: return True   # stale error although 2nd address worked
    return c.sock is None
def F3():
    m=FakeMod([KeyboardInterrupt()])
    c=Client(("h",1), socket_module=m)
    try: c.get("k")
    except KeyboardInterrupt: pass
    return c.sock is not None
def F3_pool():
    m=FakeMod([KeyboardInterrupt()])
    c=PooledClient(("h",1), socket_module=m, max_pool_size=1)
    try: c.get("k")
    except KeyboardInterrupt: pass
    return len(c.client_pool.used)!=0
def F4_pooled_gats():
    m=FakeMod([OSError("x")])
    c=PooledClient(("h",1), socket_module=m, ignore_exc=True)
    return not isinstance(c.gats("k"), tuple)
def F4_hash_gets():
    m=FakeMod([OSError("x")])
    c=HashClient([("h",1)], socket_module=m, ignore_exc=True)
    return not isinstance(c.gets("k"), tuple)
def F5_encoding():
    m=FakeMod([b"STORED\r\n"])
    c=PooledClient(("h",1), socket_module=m, encoding="utf8")
    try: c.set("k", "é", noreply=False)
    except Exception: return True
    return False
def F6_ws():
    try: check_key_helper(b" ", False)
    except MemcacheIllegalInputError: return False
    return True
def F6_empty():
    try: check_key_helper(b"", False)
    except MemcacheIllegalInputError: return False
    return True
def F7():
    m=FakeMod([b"STORED\r\n"])
    c=Client(("h",1), socket_module=m)
    try: c.set("k","v",flags="1 2",noreply=False)
    except MemcacheIllegalInputError: return False
    return True
def F8():
    m=FakeMod([b"VALUE a 0 1\r\nx\r\nEND\r\n"])
    c=Client(("h",1), socket_module=m)
    try: return c.get_many(iter(["a"]))!={"a":b"x"}
    except KeyError: return True
def F9():
    try: serde.CompressedSerde(min_compress_len=5).serialize("k",10**20)
    except TypeError: return True
    return False
def F11():
    from pymemcache.fallback import FallbackClient
    class C:
        def __init__(s,r): s.r=r; s.n=0
        def gets(s,k): s.n+=1; return s.r
    a,b=C((None,None)),C((b"v",b"1"))
    return FallbackClient([a,b]).gets("k")!=(b"v",b"1")
if __name__=="__main__":
    for n,f in list(globals().items()):
        if (n.startswith("F") or n.startswith("KF")) and callable(f) and n not in ("FakeSock","FakeMod"):
            try: r=f()
            except BaseException as e: r="ERR %r"%e
            print(n, "PRESENT" if r is True else ("absent" if r is False else r))

def KF_hash_gat_positional():
    m=FakeMod([b"END\r\n"])
    c=HashClient([("h",1)], socket_module=m)
    c.gat("k", 10)
    return m.socks[0].sent==[b"gat 0 k\r\n"]


def f12_set_many_ignore_exc_never_marks():
    """F12 (fixed by 0b20077): HashClient.set_many with ignore_exc=True against an unreachable server."""
    from pymemcache.client.hash import HashClient

    c = HashClient([("127.0.0.1", 1)], ignore_exc=True, retry_attempts=2, connect_timeout=0.2, timeout=0.2)
    res = c.set_many({"a": 1, "b": 2})
    # before the fix: res == [] (all "stored") and c._failed_clients == {} (server never marked)
    return sorted(res), list(c._failed_clients)
