"""C18 - FallbackClient: reads fall through in order, writes touch only the primary (decided)."""
import ast

from .model import AnalysisError, node_src, is_self_attr, call_name
from .paths import Interp, Domain, Env, TOP, NONE, Const, Exc, ORD, fmt_trace, Opaque
from .report import walk_no_nested
from . import rules_C07

LEVEL = "other"  # one obligation is open (known finding: gets hit test), so no proof-level claim
LEVEL_TEXT = (
    "FallbackClient's methods are straight-line delegations or one loop over self.caches; the property is decided by "
    "structure rules (writers: one call on caches[0], own name, arguments in Client's parameter order, no iteration) and "
    "a path rule on the readers (in-order loop, same-named call once per iteration, return at the first hit, nothing "
    "after), plus comparing each reader's hit test with the delegate's miss value."
)
TRUSTED = ["CPython ast", "pmcsa/paths.py", "caches have the Client interface (module docstring of fallback.py)"]

WRITERS = ("set", "add", "replace", "append", "prepend", "cas", "delete", "incr", "decr", "touch", "flush_all")
READERS = ("get", "get_many", "gets", "gets_many")


class ReaderDomain(Domain):
    async_enabled = False

    def __init__(self, prog, fn):
        super().__init__(prog, fn)
        self.calls = []

    def attr_load(self, objval, node, state):
        if is_self_attr(node, "caches"):
            return Opaque("caches")
        return TOP

    def for_next(self, node, itval, state):
        if itval == Opaque("caches"):
            return [(Opaque("cache"), state.set("iter", state.get("iter", 0) + 1 if state.get("iter", 0) < 2 else 2).set("calls_this_iter", 0))]
        return [(TOP, state)]

    def truth(self, v, state=None):
        if isinstance(v, Opaque) and v.tag == "result":
            return None
        return super().truth(v, state)

    def call(self, node, fval, args, kwargs, state):
        if isinstance(node.func, ast.Attribute) and isinstance(node.func.value, ast.Name) and state.get(node.func.value.id) == Opaque("cache"):
            self.calls.append((node, state))
            st = state.set("calls_this_iter", state.get("calls_this_iter", 0) + 1).set("total_calls", min(3, state.get("total_calls", 0) + 1))
            return [("ok", Opaque("result"), st)]
        return [("ok", TOP, state)]

    def assume(self, expr, value, branch, state):
        if value == Opaque("result"):
            return state.set("hit", branch)
        return state

    def refine_compare(self, node, op, lexpr, l, rexpr, r, branch, state):
        if l == Opaque("result") or r == Opaque("result"):
            pos = isinstance(op, (ast.IsNot, ast.NotEq))
            return state.set("hit", branch if pos else not branch)
        return state

    def compare(self, node, op, l, r, state):
        if l == Opaque("result") or r == Opaque("result"):
            return TOP
        return super().compare(node, op, l, r, state)


def run(chk):
    prog = chk.prog
    fb = prog.cls("FallbackClient")
    r1 = chk.rule("C18.R1", "every mutating method makes exactly one call, on self.caches[0], of its own name, with its parameters in Client's order")
    n_w = 0
    for name in WRITERS:
        f = prog.method(fb, name, required=False)
        if f is None:
            r1.fail("FallbackClient.%s:missing" % name, "FallbackClient lacks the mutating method %s" % name, file=fb.module.rel, line=fb.node.lineno)
            continue
        n_w += 1
        cf = prog.method("Client", name)
        calls = [c for c in walk_no_nested(f.node) if isinstance(c, ast.Call)]
        loops = [n for n in walk_no_nested(f.node) if isinstance(n, (ast.For, ast.While, ast.ListComp, ast.GeneratorExp, ast.SetComp, ast.DictComp))]
        problems = []
        if loops:
            problems.append("it iterates (`%s`): a mutating call could reach a fallback cache" % node_src(loops[0], 60))
        cache_calls = [c for c in calls if isinstance(c.func, ast.Attribute) and "caches" in node_src(c.func)]
        other_cache_use = [n for n in walk_no_nested(f.node) if is_self_attr(n, "caches") and not any(n in list(ast.walk(c.func)) for c in cache_calls)]
        if len(cache_calls) != 1:
            problems.append("it makes %d calls on caches (exactly one expected)" % len(cache_calls))
        if other_cache_use:
            problems.append("self.caches is also used as `%s`" % node_src(getattr(other_cache_use[0], "_parent", other_cache_use[0]), 60))
        for c in cache_calls[:1]:
            fnc = c.func
            recv = fnc.value
            ok_recv = isinstance(recv, ast.Subscript) and is_self_attr(recv.value, "caches") and isinstance(recv.slice, ast.Constant) and recv.slice.value == 0
            if not ok_recv:
                problems.append("the receiver is `%s`, not self.caches[0]" % node_src(recv))
            if fnc.attr != name:
                problems.append("it calls .%s instead of .%s" % (fnc.attr, name))
            # arguments: map onto Client.<name>'s parameters
            cpos = [p.name for p in cf.pos_params()]
            mine = [p.name for p in f.pos_params()]
            seen = {}
            for i, a in enumerate(c.args):
                if i >= len(cpos):
                    problems.append("too many positional arguments for Client.%s" % name)
                    break
                if not (isinstance(a, ast.Name) and a.id == cpos[i]):
                    problems.append("positional argument %d is `%s` but Client.%s expects `%s` there" % (i + 1, node_src(a), name, cpos[i]))
                else:
                    seen[a.id] = seen.get(a.id, 0) + 1
            for k in c.keywords:
                if k.arg is None or not (isinstance(k.value, ast.Name) and k.value.id == k.arg) or cf.param(k.arg) is None:
                    problems.append("keyword `%s=%s` does not forward a same-named parameter" % (k.arg, node_src(k.value)))
                else:
                    seen[k.arg] = seen.get(k.arg, 0) + 1
            for pn in mine:
                if seen.get(pn, 0) != 1:
                    problems.append("parameter `%s` is forwarded %d times" % (pn, seen.get(pn, 0)))
        r1.expect(not problems, "FallbackClient.%s -> self.caches[0].%s(%s)" % (name, name, ", ".join(p.name for p in f.pos_params())), "FallbackClient.%s:writer" % name, "FallbackClient.%s: %s" % (name, "; ".join(problems)), fn=f, node=f.node)
    r1.floor("mutating methods", n_w, 11)

    r2 = chk.rule("C18.R2", "each read iterates self.caches in order, calls the same-named method once per iteration with the caller's argument, returns from inside the loop at the first hit and touches no cache afterwards")
    r3 = chk.rule("C18.R3", "each reader's hit test is false on the delegate's miss value and true on a hit")
    n_r = 0
    for name in READERS:
        f = prog.method(fb, name, required=False)
        if f is None:
            r2.fail("FallbackClient.%s:missing" % name, "FallbackClient lacks the read method %s" % name, file=fb.module.rel, line=fb.node.lineno)
            continue
        n_r += 1
        loops = [n for n in walk_no_nested(f.node) if isinstance(n, ast.For)]
        problems = []
        if len(loops) != 1:
            problems.append("%d for-loops (exactly one expected)" % len(loops))
        else:
            lp = loops[0]
            if not is_self_attr(lp.iter, "caches"):
                problems.append("the loop iterates `%s` instead of self.caches in its configured order" % node_src(lp.iter))
            if not isinstance(lp.target, ast.Name):
                problems.append("loop target is not a simple name")
        if not problems:
            lp = loops[0]
            dom = ReaderDomain(prog, f)
            outs = Interp(dom, f.node, prog).run(Env())
            sites = {c.lineno: c for c, s in dom.calls}
            if len(sites) != 1:
                problems.append("%d call sites on a cache (one expected)" % len(sites))
            for c in sites.values():
                if c.func.attr != name:
                    problems.append("calls .%s on the caches instead of .%s" % (c.func.attr, name))
                mine = [p.name for p in f.pos_params()]
                got = [a.id if isinstance(a, ast.Name) else node_src(a) for a in c.args] + ["%s=%s" % (k.arg, node_src(k.value)) for k in c.keywords]
                if got != mine:
                    problems.append("passes (%s) instead of the caller's (%s)" % (", ".join(got), ", ".join(mine)))
                if not any(y is c for y in ast.walk(lp)):
                    problems.append("the cache call is outside the loop")
            for c, s in dom.calls:
                if s.get("calls_this_iter", 0) >= 1:
                    problems.append("a cache can be consulted twice in one iteration")
                if s.get("hit") is True:
                    problems.append("a cache is consulted after an earlier one answered (call at line %d reachable with a hit pending)" % c.lineno)
            # exits: a return of the result must come from a hit state, inside the loop
            hit_returns = 0
            for s, v, t in outs.of("ret"):
                if v == Opaque("result"):
                    hit_returns += 1
                    if s.get("hit") is not True:
                        problems.append("returns a cache's result on a path where the hit test %s" % ("failed" if s.get("hit") is False else "was not evaluated"))
            if not hit_returns:
                problems.append("never returns a cache's result")
            # after a hit, the loop must not continue
            for c, s in dom.calls:
                pass
            # hit state must lead to return: no path with hit=True reaches the loop head again
            for s, v, t in outs.of("ret"):
                if s.get("hit") is True and v != Opaque("result"):
                    problems.append("a hit does not return the answering cache's result (returns %s)" % (v,))
        r2.expect(not problems, "FallbackClient.%s: in-order loop, one %s call per cache, return at first hit" % (name, name), "FallbackClient.%s:reader" % name, "FallbackClient.%s: %s" % (name, "; ".join(dict.fromkeys(problems))), fn=f, node=f.node)
        # R3 hit test vs miss value
        cf, miss, kind = rules_C07.miss_shape(prog, name)
        miss = rules_C07.subst_defaults(miss, cf, f)
        tests = [n for n in walk_no_nested(f.node) if isinstance(n, ast.If)]
        if len(tests) != 1:
            r3.fail("FallbackClient.%s:hit-test-shape" % name, "expected one hit test, found %d" % len(tests), fn=f)
            continue
        t = tests[0].test
        verdict = _eval_hit_test(t, miss)
        r3.expect(verdict is False, "FallbackClient.%s: hit test `%s` is false on the miss value %s" % (name, node_src(t), rules_C07.show(miss)), "FallbackClient.%s:hit-test-vs-miss" % name, "the hit test `%s` of FallbackClient.%s is %s on %s, the value Client.%s returns on a miss: the first cache always 'answers' and the fallback caches are never consulted" % (node_src(t), name, {True: "true", None: "not decidable"}[verdict] if verdict is not False else "", rules_C07.show(miss), name), fn=f, node=tests[0])
    r2.floor("read methods", n_r, 4)
    chk.assume("every cache passed to FallbackClient has the Client interface and Client's miss conventions")


def _eval_hit_test(test, miss):
    """Evaluate the hit test on the miss value term.  -> True / False / None"""
    def val(t):
        if t[0] == "const":
            return eval(t[1], {}, {})
        if t[0] == "emptydict":
            return {}
        if t[0] == "emptylist":
            return []
        if t[0] == "tuple":
            return tuple(val(x) for x in t[1:])
        raise ValueError
    try:
        m = val(miss)
    except Exception:
        return None
    if isinstance(test, ast.Name):
        return bool(m)
    if isinstance(test, ast.UnaryOp) and isinstance(test.op, ast.Not):
        r = _eval_hit_test(test.operand, miss)
        return None if r is None else not r
    if isinstance(test, ast.Compare) and len(test.ops) == 1 and isinstance(test.left, ast.Name) and isinstance(test.comparators[0], ast.Constant):
        c = test.comparators[0].value
        op = test.ops[0]
        if isinstance(op, ast.IsNot):
            return m is not c
        if isinstance(op, ast.Is):
            return m is c
        if isinstance(op, ast.NotEq):
            return m != c
        if isinstance(op, ast.Eq):
            return m == c
    return None
