"""Structured path interpreter with exception colours.

The per-function control-flow graph is not materialised.  Statements are executed abstractly on
*sets of tracked states*; every statement returns an outcome record over the kinds
{norm, brk, cont, ret, exc}.  Exceptions carry a colour:

  ORD   - instances of Exception (socket errors, timeouts, protocol errors, KeyError, ...)
  ASYNC - BaseException that is not Exception (KeyboardInterrupt, SystemExit, GeneratorExit,
          gevent.Timeout), which may surface at any call

`try` routes the body's exc outcomes to the handlers by colour/class, `finally` is applied to
every outcome, loops iterate to a fixpoint over the finite state set.  This is the same
information as a CFG with exception edges but path-sensitive by construction; every exit
carries the state that reached it and a trace (branch decisions, raise sites) which is the
witness printed in reports.

Abstract values and transfer functions come from a Domain object (one per rule).  Any
statement/expression kind without a transformer raises AnalysisError (fail closed).
"""
import ast
from collections import namedtuple

from .model import AnalysisError, node_src

ORD, ASYNC = "ORD", "ASYNC"
MAX_STATES = 60000
# wall-clock budget of one process (one check): a fixpoint that does not converge in reasonable time is an analysis
# failure (exit 2), not a hang.  Generous: the slowest check takes about 10 s on the unchanged tree.
import os as _os
import time as _time

BUDGET_SECONDS = float(_os.environ.get("PMCSA_BUDGET_SECONDS", "600"))
_T0 = _time.time()


def _check_budget(where):
    if _time.time() - _T0 > BUDGET_SECONDS:
        raise AnalysisError("analysis budget of %d s exceeded in %s: a fixpoint does not converge on this code" % (BUDGET_SECONDS, where))
NOVALUE = object()  # subscript_load: the lookup surely raises


class _Top:
    __slots__ = ()

    def __repr__(self):
        return "TOP"

    def __bool__(self):
        # guards the checker itself: TOP (e.g. Env.get's default) must never be used as a Python truth value
        raise AnalysisError("internal: TOP used as a boolean (missing explicit default in a state lookup)")


TOP = _Top()


class Const(namedtuple("Const", "v")):
    __slots__ = ()

    def __repr__(self):
        return "Const(%r)" % (self.v,)

    def __hash__(self):
        return hash(("Const", type(self.v).__name__, self.v if _hashable(self.v) else repr(self.v)))

    def __eq__(self, other):
        return isinstance(other, Const) and type(self.v) is type(other.v) and self.v == other.v

    def __ne__(self, other):
        return not self.__eq__(other)


def _hashable(v):
    try:
        hash(v)
        return True
    except TypeError:
        return False


class Neq(namedtuple("Neq", "v")):
    """Any value except the constant v (result of refining `x is not None`)."""

    __slots__ = ()


class TupleV(namedtuple("TupleV", "items")):
    __slots__ = ()


class FuncRef(namedtuple("FuncRef", "name")):
    """A reference to a module-level function of the analysed package (functions are first-class: they can be bound
    to locals, wrapped by functools.partial and passed as arguments)."""

    __slots__ = ()


class MaybeV(namedtuple("MaybeV", "v why")):
    """An element of a comprehension whose filter is undecided: present or not; why = source text of the filter."""

    def __new__(cls, v, why=""):
        return super().__new__(cls, v, why)
SliceV = namedtuple("SliceV", "lo hi step")  # the bounds of a slice, for domains with slice_values = True


def as_lambda(fdef):
    """A nested function whose body is one `return <expr>` (after an optional docstring), without decorators, as the
    equivalent ast.Lambda node (cached on the FunctionDef, positions copied); None for any other function."""
    if getattr(fdef, "_as_lambda", False) is not False:
        return fdef._as_lambda
    body = list(fdef.body)
    if body and isinstance(body[0], ast.Expr) and isinstance(body[0].value, ast.Constant) and isinstance(body[0].value.value, str):
        body = body[1:]
    lam = None
    if len(body) == 1 and isinstance(body[0], ast.Return) and body[0].value is not None and not fdef.decorator_list and not any(isinstance(n, (ast.Yield, ast.YieldFrom, ast.Await)) for n in ast.walk(body[0])):
        lam = ast.Lambda(args=fdef.args, body=body[0].value)
        ast.copy_location(lam, fdef)
        lam._from_def = fdef.name
    fdef._as_lambda = lam
    return lam


def callable_expr(fn_node, expr):
    """The lambda an expression of function `fn_node` denotes: a lambda itself, or a local name bound exactly once -
    to a lambda, or by a nested single-return `def`.  -> ast.Lambda or None."""
    if isinstance(expr, ast.Lambda):
        return expr
    if isinstance(expr, ast.Name):
        binds = []
        for n in ast.walk(fn_node):
            if isinstance(n, ast.FunctionDef) and n is not fn_node and n.name == expr.id:
                binds.append(as_lambda(n))
            elif isinstance(n, ast.Name) and n.id == expr.id and isinstance(n.ctx, ast.Store):
                p = getattr(n, "_parent", None)
                binds.append(p.value if isinstance(p, ast.Assign) and len(p.targets) == 1 and isinstance(p.value, ast.Lambda) else None)
        if len(binds) == 1 and binds[0] is not None:
            return binds[0]
    return None


class LambdaV(namedtuple("LambdaV", "node closure")):
    """A lambda expression as a value: its node plus the values its free variables had where it was created."""

    __slots__ = ()

    def __hash__(self):
        return hash(("LambdaV", id(self.node), self.closure))

    def __eq__(self, other):
        return isinstance(other, LambdaV) and other.node is self.node and other.closure == self.closure

    def __ne__(self, other):
        return not self.__eq__(other)

    def __repr__(self):
        return "lambda@%d" % getattr(self.node, "lineno", 0)


class ClassRef(namedtuple("ClassRef", "name")):
    """A reference to an exception class (of the package or a builtin), usable as a value: stored in tables, bound
    to variables, raised through a variable, tested with isinstance."""

    __slots__ = ()


class ExcVal(namedtuple("ExcVal", "colour cls origin")):
    """The exception object bound by `except ... as e` (class None = any class of that colour)."""

    __slots__ = ()


class Closing(namedtuple("Closing", "obj")):
    """contextlib.closing(obj): a context manager that calls obj.close() on every exit."""

    __slots__ = ()


class Suppress(namedtuple("Suppress", "names")):
    """contextlib.suppress(E1, E2, ...): swallows exceptions of these classes raised in the with-body."""

    __slots__ = ()


class Opaque(namedtuple("Opaque", "tag")):
    """A value we know nothing about except a tag (e.g. lambda, nested function)."""

    __slots__ = ()


NONE = Const(None)
TRUE = Const(True)
FALSE = Const(False)


class Exc(namedtuple("Exc", "colour cls origin")):
    """Abstract exception: colour, class name (None = any class of that colour), origin line."""

    __slots__ = ()

    def __repr__(self):
        return "%s:%s@%s" % (self.colour, self.cls or "*", self.origin)


class Env:
    """Immutable mapping used as tracked state."""

    __slots__ = ("d", "_h")

    def __init__(self, d=None):
        self.d = dict(d or {})
        self._h = None

    def get(self, k, default=TOP):
        return self.d.get(k, default)

    def has(self, k):
        return k in self.d

    def set(self, k, v):
        if k in self.d and self.d[k] == v and type(self.d[k]) is type(v):
            return self
        n = dict(self.d)
        n[k] = v
        return Env(n)

    def drop(self, k):
        if k not in self.d:
            return self
        n = dict(self.d)
        del n[k]
        return Env(n)

    def update(self, other):
        n = dict(self.d)
        n.update(other)
        return Env(n)

    def __hash__(self):
        if self._h is None:
            self._h = hash(frozenset((k, _hv(v)) for k, v in self.d.items()))
        return self._h

    def __eq__(self, other):
        return isinstance(other, Env) and hash(self) == hash(other) and _cmp(self.d, other.d)

    def __repr__(self):
        return "{" + ", ".join("%s=%r" % (k, v) for k, v in sorted(self.d.items(), key=lambda kv: str(kv[0]))) + "}"

    def brief(self, keys=None):
        items = sorted(self.d.items(), key=lambda kv: str(kv[0]))
        if keys is not None:
            items = [(k, v) for k, v in items if k in keys]
        return "{" + ", ".join("%s=%r" % (k, v) for k, v in items) + "}"


def _hv(v):
    try:
        return hash(v)
    except TypeError:
        return hash(repr(v))


def _cmp(a, b):
    if a.keys() != b.keys():
        return False
    for k in a:
        x, y = a[k], b[k]
        if type(x) is not type(y) or x != y:
            return False
    return True


class Outs:
    """Outcome record: (kind, state, val) -> trace (first trace wins)."""

    KINDS = ("norm", "brk", "cont", "ret", "exc")

    def __init__(self):
        self.d = {}

    def add(self, kind, state, val=None, trace=()):
        k = (kind, state, val)
        if k not in self.d:
            self.d[k] = trace
            if len(self.d) > MAX_STATES:
                raise AnalysisError("state explosion in path interpreter (> %d outcomes)" % MAX_STATES)

    def of(self, kind):
        return [(s, v, t) for (k, s, v), t in self.d.items() if k == kind]

    def merge(self, other, kinds=None):
        for (k, s, v), t in other.d.items():
            if kinds is None or k in kinds:
                self.add(k, s, v, t)

    def __len__(self):
        return len(self.d)


def _tr(trace, item):
    t = trace + (item,)
    return t[-60:] if len(t) > 60 else t


class Ctx:
    __slots__ = ("cur_exc", "exc_name", "fn")

    def __init__(self, fn, cur_exc=None, exc_name=None):
        self.fn = fn
        self.cur_exc = cur_exc
        self.exc_name = exc_name

    def handler(self, exc, name):
        return Ctx(self.fn, exc, name)


class Domain:
    """Default abstract domain: an Env of locals with TOP for everything unknown.

    Rules subclass this and override the transfer functions they care about."""

    async_enabled = True  # do calls raise the ASYNC colour?
    subscript_may_raise = True
    unpack_may_raise = True
    binop_may_raise = False
    attr_may_raise = False
    iter_may_raise = False

    global_keys = ()  # plain-string state keys that are tracked facts rather than locals of the current frame
    max_inline_depth = 3

    def __init__(self, prog=None, fn=None):
        self.prog = prog
        self.fn = fn
        self._depth = 0
        self.frames = []

    # ---- inter-procedural inlining --------------------------------------------------------
    def is_global_key(self, k):
        return isinstance(k, tuple) or (isinstance(k, str) and (k.startswith("self.") or k in self.global_keys))

    def bind_params(self, finfo, args, kwargs):
        """Parameter name -> abstract value for a call of `finfo` (defaults constant-folded, else TOP).
        Surplus positional values are collected into the callee's *args as a TupleV (a spliced TupleV is flattened)."""
        from .model import fold, NotConst

        bound = {}
        pos = finfo.pos_params()
        for p, a in zip(pos, args):
            bound[p.name] = a
        va = [p.name for p in finfo.params if p.kind == "vararg"]
        if va:
            extra = []
            for a in args[len(pos):]:
                if isinstance(a, TupleV):
                    extra += list(a.items)
                else:
                    extra.append(a if _hashable(a) else TOP)
            bound[va[0]] = TupleV(tuple(extra))
        kw = [p.name for p in finfo.params if p.kind == "kwarg"]
        if kw:
            bound[kw[0]] = TupleV(tuple(sorted(((k, v) for k, v in kwargs.items() if _hashable(v) and finfo.param(k) is None and not k.startswith("**")), key=lambda kv: kv[0])))
        for k, v in kwargs.items():
            if not k.startswith("**"):
                bound[k] = v
        for p in finfo.params:
            if p.name == "self" or p.name in bound or p.kind in ("vararg", "kwarg"):
                continue
            if p.has_default:
                try:
                    bound[p.name] = Const(fold(p.default, finfo.module))
                except NotConst:
                    bound[p.name] = TOP
            else:
                bound[p.name] = TOP
        return bound

    def inline(self, node, finfo, args, kwargs, state):
        """Interpret the callee with this same domain; tracked facts flow through, locals are per frame.
        -> list of ('ok', value, state) / ('exc', Exc, state), or None when the depth bound is reached."""
        if self._depth >= self.max_inline_depth or any(fr["fn"] is finfo for fr in self.frames):
            return None
        if getattr(finfo, "_is_generator", None) is None:
            finfo._is_generator = any(isinstance(n, (ast.Yield, ast.YieldFrom)) for n in ast.walk(finfo.node) if n is not finfo.node and not isinstance(n, (ast.FunctionDef, ast.Lambda))) and not any("contextmanager" in d for d in getattr(finfo, "decorators", ()))
        collect = None
        if finfo._is_generator:
            if not getattr(self, "eager_generators", False):
                return None  # calling a generator function runs none of its body: the result is an iterator this domain does not model
            # exact-collection domains: the body is interpreted at the call and what it yields is collected into a
            # one-shot iterator value (as for a generator expression: the effects of the body happen at creation, not
            # interleaved with the consumer)
            collect = ("#yields", self._depth + 1)
        bound = self.bind_params(finfo, args, kwargs)
        env = {k: v for k, v in state.d.items() if self.is_global_key(k)}
        env.update(bound)
        if collect is not None:
            env[collect] = ()
        self._depth += 1
        self.frames.append({"fn": finfo, "site": node, "bound": bound})
        saved = self.fn
        self.fn = finfo
        try:
            outs = Interp(self, finfo.node, self.prog).run(Env(env))
        finally:
            self.fn = saved
            self.frames.pop()
            self._depth -= 1
        locals_ = {k: v for k, v in state.d.items() if not self.is_global_key(k)}
        res, seen = [], set()
        for kind in ("ret", "exc"):
            for s, v, t in outs.of(kind):
                md = dict(locals_)
                md.update({k: v2 for k, v2 in s.d.items() if self.is_global_key(k)})
                if collect is not None:
                    ys = md.pop(collect, ())
                    if kind == "ret":
                        v = self.generator_value(node, ys, finfo)
                merged = Env(md)
                val = v if _hashable(v) else TOP
                key = (kind, val, merged)
                if key in seen:
                    continue
                seen.add(key)
                res.append(("ok" if kind == "ret" else "exc", val, merged))
        return res

    # ---- state ---------------------------------------------------------
    def init_state(self, fn_node):
        return Env()

    def name_load(self, name, state, node=None):
        return state.get(name, TOP)

    def name_store(self, name, value, state, node=None):
        return state.set(name, value)

    def name_del(self, name, state):
        return state.drop(name)

    def attr_load(self, objval, node, state):
        if isinstance(node.value, ast.Name) and node.value.id == "self":
            return state.get("self." + node.attr, TOP)
        return TOP

    def attr_store(self, objval, node, value, state):
        if isinstance(node.value, ast.Name) and node.value.id == "self":
            return state.set("self." + node.attr, value)
        return state

    def subscript_load(self, objval, idxval, node, state):
        """-> (value, may_raise)"""
        if isinstance(objval, TupleV) and isinstance(idxval, Const) and isinstance(idxval.v, int):
            if -len(objval.items) <= idxval.v < len(objval.items):
                return objval.items[idxval.v], False
        return TOP, self.subscript_may_raise and not isinstance(node.slice, ast.Slice)

    def subscript_store(self, objval, idxval, value, node, state):
        return state

    # ---- calls and other effects --------------------------------------
    def call(self, node, fval, args, kwargs, state):
        """-> list of ('ok', value, state) / ('exc', Exc, state)."""
        out = [("ok", TOP, state)]
        out += self.call_raises(node, state)
        return out

    def call_raises(self, node, state, ord_=True, async_=None):
        out = []
        if ord_:
            out.append(("exc", Exc(ORD, None, node.lineno), state))
        if self.async_enabled if async_ is None else async_:
            out.append(("exc", Exc(ASYNC, None, node.lineno), state))
        return out

    def yield_(self, node, value, state):
        """A yield inside a generator-based context manager: the body's exception enters here."""
        return [("ok", TOP, state), ("exc", Exc(ORD, None, node.lineno), state), ("exc", Exc(ASYNC, None, node.lineno), state)]

    def with_enter(self, item, value, state):
        if isinstance(value, Closing):
            return [("ok", value.obj, state)]
        if isinstance(value, Suppress):
            return [("ok", NONE, state)]
        out = [("ok", TOP, state)]
        out += self.call_raises(item.context_expr, state)
        return out

    def with_exit(self, item, value, kind, state):
        """-> list of ('ok', state, suppress) / ('exc', Exc, state).  kind = body outcome kind."""
        if isinstance(value, Closing):
            return [("ok", self.close_value(value.obj, item, state), False)]
        return [("ok", state, False)]

    def close_value(self, obj, item, state):
        """`obj.close()` performed by contextlib.closing on leaving a with-block."""
        return state

    # ---- operators -------------------------------------------------------
    def binop(self, node, l, r, state):
        if isinstance(l, Const) and isinstance(r, Const):
            try:
                from .model import _BIN

                if type(node.op) in _BIN:
                    return Const(_BIN[type(node.op)](l.v, r.v))
            except Exception:
                pass
        return TOP

    def unaryop(self, node, v, state):
        if isinstance(v, Const):
            try:
                if isinstance(node.op, ast.USub):
                    return Const(-v.v)
                if isinstance(node.op, ast.Not):
                    return Const(not v.v)
                if isinstance(node.op, ast.Invert):
                    return Const(~v.v)
            except Exception:
                return TOP
        if isinstance(node.op, ast.Not):
            t = self.truth(v, state)
            if t is not None:
                return Const(not t)
        return TOP

    def compare(self, node, op, l, r, state):
        """Value of a single comparison l <op> r."""
        if isinstance(op, (ast.Is, ast.Eq, ast.IsNot, ast.NotEq)):
            pos = isinstance(op, (ast.Is, ast.Eq))
            res = None
            if isinstance(l, Const) and isinstance(r, Const):
                if isinstance(op, (ast.Is, ast.IsNot)) and not (l.v is None or r.v is None or isinstance(l.v, bool) or isinstance(r.v, bool)):
                    res = None if l == r else False
                else:
                    res = l == r
            elif isinstance(l, Neq) and isinstance(r, Const) and l.v == r.v and type(l.v) is type(r.v):
                res = False
            elif isinstance(r, Neq) and isinstance(l, Const) and r.v == l.v and type(l.v) is type(r.v):
                res = False
            elif isinstance(r, Const) and r.v is None and self.never_none(l):
                res = False
            elif isinstance(l, Const) and l.v is None and self.never_none(r):
                res = False
            if res is None:
                return TOP
            return Const(res if pos else not res)
        if isinstance(l, Const) and isinstance(r, Const):
            try:
                if isinstance(op, ast.Lt):
                    return Const(l.v < r.v)
                if isinstance(op, ast.LtE):
                    return Const(l.v <= r.v)
                if isinstance(op, ast.Gt):
                    return Const(l.v > r.v)
                if isinstance(op, ast.GtE):
                    return Const(l.v >= r.v)
                if isinstance(op, ast.In):
                    return Const(l.v in r.v)
                if isinstance(op, ast.NotIn):
                    return Const(l.v not in r.v)
            except Exception:
                return TOP
        return TOP

    def never_none(self, v):
        return isinstance(v, (TupleV, Opaque, ClassRef, ExcVal, FuncRef, LambdaV)) or (isinstance(v, Const) and v.v is not None) or (isinstance(v, Neq) and v.v is None)

    def truth(self, v, state=None):
        if isinstance(v, Const):
            try:
                return bool(v.v)
            except Exception:
                return None
        if isinstance(v, TupleV):
            return len(v.items) > 0
        if isinstance(v, (Opaque, ClassRef, ExcVal, LambdaV, FuncRef)):
            return True
        return None

    def assume(self, expr, value, branch, state):
        """Refine `state` knowing that `expr` (with abstract value `value`) is truthy/falsy.
        Return None if infeasible."""
        t = self.truth(value, state)
        if t is not None:
            return state if t == branch else None
        if isinstance(expr, ast.Name):
            return self.assume_name(expr.id, value, branch, state)
        if isinstance(expr, ast.Attribute) and isinstance(expr.value, ast.Name) and expr.value.id == "self":
            return self.assume_name("self." + expr.attr, value, branch, state)
        return state

    def assume_name(self, key, value, branch, state):
        # falsy and previously "anything": could be None/0/empty; leave TOP.  truthy: not None.
        if branch and value is TOP:
            return state.set(key, Neq(None))
        return state

    def refine_compare(self, node, op, lexpr, l, rexpr, r, branch, state):
        """Refine the state on the `branch` outcome of l <op> r (value was undetermined)."""
        if isinstance(op, (ast.Is, ast.Eq, ast.IsNot, ast.NotEq)):
            pos = isinstance(op, (ast.Is, ast.Eq)) == branch  # True: l equals r on this branch
            for (e, v), (oe, ov) in (((lexpr, l), (rexpr, r)), ((rexpr, r), (lexpr, l))):
                key = _key_of(e)
                if key is None or not isinstance(ov, Const):
                    continue
                if pos:
                    return self.store_key(key, ov, state)
                if v is TOP and (ov.v is None or isinstance(ov.v, (bool, int, str, bytes))):
                    return self.store_key(key, Neq(ov.v), state)
        return state

    def store_key(self, key, value, state):
        return state.set(key, value)

    # ---- iteration ------------------------------------------------------
    def for_next(self, node, itval, state):
        """-> list of (element value, state) for 'another element exists'; [] if surely exhausted."""
        if isinstance(itval, TupleV):
            return [(v, state) for v in set(itval.items)] if itval.items else []
        if isinstance(itval, Const) and isinstance(itval.v, (tuple, list, frozenset, str, bytes)):
            return [(Const(v), state) for v in itval.v] if len(itval.v) else []
        return [(TOP, state)]

    def for_exhausted(self, node, itval, state):
        """-> state if the loop may terminate normally here, else None."""
        return state

    def unpack(self, value, n, node, state):
        """-> (list of n values, may_raise)"""
        if isinstance(value, TupleV) and len(value.items) == n:
            return list(value.items), False
        if isinstance(value, Const) and isinstance(value.v, (tuple, list)) and len(value.v) == n:
            return [Const(x) for x in value.v], False
        return [TOP] * n, self.unpack_may_raise

    def unpack_starred(self, value, star_index, n, node, state):
        """`a, *b, c = value`: -> (list of n values (the starred one a sequence), may_raise)."""
        return [TOP] * n, self.unpack_may_raise

    # ---- misc -------------------------------------------------------------
    def make_tuple(self, items, node, state):
        return TupleV(tuple(items))

    def make_list(self, items, node, state):
        return TOP

    def make_dict(self, keys, values, node, state):
        return TOP

    def make_set(self, items, node, state):
        return TOP

    # state-changing variants (a domain with a heap allocates here); the defaults wrap the pure hooks
    def make_list_s(self, items, node, state):
        return self.make_list(items, node, state), state

    def make_dict_s(self, keys, values, node, state):
        return self.make_dict(keys, values, node, state), state

    def comprehension_s(self, node, elem_values, state):
        return self.comprehension(node, elem_values, state), state

    def subscript_load_s(self, objval, idxval, node, state):
        v, may = self.subscript_load(objval, idxval, node, state)
        return v, may, state

    def binop_s(self, node, l, r, state):
        return self.binop(node, l, r, state), state

    def fstring(self, node, parts, state):
        return TOP

    def comprehension(self, node, elem_values, state):
        return TOP

    def lambda_(self, node, state):
        a = node.args
        params = {x.arg for x in a.posonlyargs + a.args + a.kwonlyargs} | ({a.vararg.arg} if a.vararg else set()) | ({a.kwarg.arg} if a.kwarg else set())
        free = sorted({n.id for n in ast.walk(node.body) if isinstance(n, ast.Name) and isinstance(n.ctx, ast.Load)} - params)
        closure = tuple((nm, state.get(nm)) for nm in free if isinstance(state, Env) and state.has(nm) and _hashable(state.get(nm)))
        return LambdaV(node, closure)

    def apply_lambda(self, node, lam, args, kwargs, state):
        """Call of a lambda value: its body is evaluated with the parameters bound on top of the *current* state (a
        closure over the defining frame's variables is read from the calling frame when the names coincide, which is
        exact for a lambda defined and called in the same frame and for one that closes over nothing but parameters of
        its own).  -> list of ('ok', value, state) / ('exc', Exc, state), or None if the depth bound is reached."""
        if self._depth >= self.max_inline_depth + 1:
            return None
        a = lam.node.args
        names = [x.arg for x in a.posonlyargs + a.args]
        star = kwargs.pop("#star", None) if isinstance(kwargs, dict) else None  # symbolic application: the values of *a / **k
        dstar = kwargs.pop("#dstar", None) if isinstance(kwargs, dict) else None
        if ((a.vararg is not None) != (star is not None)) or ((a.kwarg is not None) != (dstar is not None)) or a.kwonlyargs or len(args) > len(names):
            return None
        bound = dict(lam.closure)
        if star is not None:
            bound[a.vararg.arg] = star
        if dstar is not None:
            bound[a.kwarg.arg] = dstar
        bound.update(zip(names, args))
        for k, v in kwargs.items():
            if k in names:
                bound[k] = v
        defaults = a.defaults
        for nm, d in zip(names[len(names) - len(defaults):], defaults):
            if nm not in bound:
                bound[nm] = Const(d.value) if isinstance(d, ast.Constant) else TOP
        if any(nm not in bound for nm in names):
            return None
        saved = {nm: (state.get(nm) if state.has(nm) else None, state.has(nm)) for nm in bound}
        st = state
        for nm, v in bound.items():
            st = st.set(nm, v)
        self._depth += 1
        try:
            interp = Interp(self, lam.node, self.prog)
            oks, excs = interp.ev(lam.node.body, st, Ctx(lam.node))
        finally:
            self._depth -= 1

        def restore(s):
            for nm, (old, had) in saved.items():
                s = s.set(nm, old) if had else s.drop(nm)
            return s

        return [("ok", v if _hashable(v) else TOP, restore(s)) for v, s in oks] + [("exc", e, restore(s)) for e, s in excs]

    def on_catch(self, handler, exc, state):
        return state

    def on_raise_stmt(self, node, exc, state):
        return state

    def exc_of_value(self, node, value, state, ctx):
        """Exception descriptor for `raise <name>` where the name holds an exception object."""
        return None

    def on_stmt(self, node, state):
        """Hook before each statement; return state."""
        return state


def _key_of(e):
    if isinstance(e, ast.Name):
        return e.id
    if isinstance(e, ast.Attribute) and isinstance(e.value, ast.Name) and e.value.id == "self":
        return "self." + e.attr
    return None


class Interp:
    def __init__(self, dom, fn_node, prog=None):
        self.dom = dom
        self.fn = fn_node
        self.prog = prog or getattr(dom, "prog", None)
        self.steps = 0
        self.exc_edges = 0
        self.branches = 0

    # ================= entry =============================================
    def run(self, state=None):
        """Interpret the function body; returns Outs restricted to kinds ret/exc (function exits)."""
        if state is None:
            state = self.dom.init_state(self.fn)
        ctx = Ctx(self.fn)
        outs = self.block(self.fn.body, [(state, ())], ctx)
        res = Outs()
        for s, v, t in outs.of("norm"):
            res.add("ret", s, NONE, _tr(t, "fall-off-end"))
        res.merge(outs, ("ret", "exc"))
        if outs.of("brk") or outs.of("cont"):
            raise AnalysisError("break/continue escaped a function body")
        return res

    # ================= statements ========================================
    def block(self, stmts, entries, ctx):
        """entries: iterable of (state, trace).  Returns Outs."""
        outs = Outs()
        cur = {}
        for s, t in entries:
            cur.setdefault(s, t)
        for st in stmts:
            if not cur:
                break
            nxt = {}
            for s, t in cur.items():
                o = self.stmt(st, s, t, ctx)
                for s2, v2, t2 in o.of("norm"):
                    nxt.setdefault(s2, t2)
                outs.merge(o, ("brk", "cont", "ret", "exc"))
            cur = nxt
            if len(cur) > MAX_STATES:
                raise AnalysisError("state explosion at line %d" % st.lineno)
        for s, t in cur.items():
            outs.add("norm", s, None, t)
        return outs

    def stmt(self, st, state, trace, ctx):
        self.steps += 1
        state = self.dom.on_stmt(st, state)
        m = getattr(self, "s_" + type(st).__name__, None)
        if m is None:
            raise AnalysisError("path interpreter: unsupported statement %s at line %d" % (type(st).__name__, st.lineno))
        return m(st, state, trace, ctx)

    def _emit_excs(self, outs, excs, trace):
        for e, s in excs:
            self.exc_edges += 1
            outs.add("exc", s, e, _tr(trace, "raise@%s" % e.origin))

    def s_Pass(self, st, state, trace, ctx):
        o = Outs()
        o.add("norm", state, None, trace)
        return o

    s_Import = s_ImportFrom = s_Global = s_Nonlocal = s_Pass

    def s_FunctionDef(self, st, state, trace, ctx):
        o = Outs()
        lam = as_lambda(st) if isinstance(st, ast.FunctionDef) else None
        # a nested `def f(x): return <expr>` is the lambda `lambda x: <expr>` bound to f
        val = self.dom.lambda_(lam, state) if lam is not None else Opaque("def@%d" % st.lineno)
        o.add("norm", self.dom.name_store(st.name, val, state, st), None, trace)
        return o

    s_ClassDef = s_FunctionDef

    def s_Expr(self, st, state, trace, ctx):
        o = Outs()
        oks, excs = self.ev(st.value, state, ctx)
        for v, s in oks:
            o.add("norm", s, None, trace)
        self._emit_excs(o, excs, trace)
        return o

    def s_Assign(self, st, state, trace, ctx):
        o = Outs()
        oks, excs = self.ev(st.value, state, ctx)
        self._emit_excs(o, excs, trace)
        for v, s in oks:
            cur = [(s,)]
            states = [s]
            for tgt in st.targets:
                nstates = []
                for s1 in states:
                    oks2, excs2 = self.assign(tgt, v, s1, ctx)
                    self._emit_excs(o, excs2, trace)
                    nstates += oks2
                states = nstates
            for s2 in states:
                o.add("norm", s2, None, trace)
        return o

    def s_AnnAssign(self, st, state, trace, ctx):
        o = Outs()
        if st.value is None:
            o.add("norm", state, None, trace)
            return o
        oks, excs = self.ev(st.value, state, ctx)
        self._emit_excs(o, excs, trace)
        for v, s in oks:
            oks2, excs2 = self.assign(st.target, v, s, ctx)
            self._emit_excs(o, excs2, trace)
            for s2 in oks2:
                o.add("norm", s2, None, trace)
        return o

    def s_AugAssign(self, st, state, trace, ctx):
        o = Outs()
        load = _as_load(st.target)
        fake = ast.BinOp(left=load, op=st.op, right=st.value)
        ast.copy_location(fake, st)
        fake._aug = st
        oks, excs = self.ev(fake, state, ctx)
        self._emit_excs(o, excs, trace)
        for v, s in oks:
            oks2, excs2 = self.assign(st.target, v, s, ctx, aug=st)
            self._emit_excs(o, excs2, trace)
            for s2 in oks2:
                o.add("norm", s2, None, trace)
        return o

    def s_Delete(self, st, state, trace, ctx):
        o = Outs()
        states = [state]
        for tgt in st.targets:
            nstates = []
            for s in states:
                if isinstance(tgt, ast.Name):
                    nstates.append(self.dom.name_del(tgt.id, s))
                elif isinstance(tgt, ast.Subscript):
                    oks, excs = self.ev_seq([tgt.value, tgt.slice], s, ctx)
                    self._emit_excs(o, excs, trace)
                    for vals, s1 in oks:
                        s2 = self.dom.subscript_store(vals[0], vals[1], None, tgt, s1)
                        nstates.append(s2)
                        if self.dom.subscript_may_raise:
                            self._emit_excs(o, [(Exc(ORD, "KeyError", tgt.lineno), s1)], trace)
                elif isinstance(tgt, ast.Attribute):
                    nstates.append(s)
                else:
                    raise AnalysisError("unsupported del target at line %d" % st.lineno)
            states = nstates
        for s in states:
            o.add("norm", s, None, trace)
        return o

    def s_Return(self, st, state, trace, ctx):
        o = Outs()
        if st.value is None:
            o.add("ret", state, NONE, trace)
            return o
        oks, excs = self.ev(st.value, state, ctx)
        self._emit_excs(o, excs, trace)
        for v, s in oks:
            o.add("ret", s, self.ret_val(st, v, s), _tr(trace, "return@%d" % st.lineno))
        return o

    def ret_val(self, st, v, s):
        rv = getattr(self.dom, "ret_value", None)
        return rv(st, v, s) if rv else (v if _hashable(v) else TOP)

    def s_Raise(self, st, state, trace, ctx):
        o = Outs()
        if st.exc is None:
            if ctx.cur_exc is None:
                raise AnalysisError("bare raise outside a handler at line %d" % st.lineno)
            s2 = self.dom.on_raise_stmt(st, ctx.cur_exc, state)
            self.exc_edges += 1
            o.add("exc", s2, ctx.cur_exc, _tr(trace, "reraise@%d" % st.lineno))
            return o
        e = st.exc
        # raise Name / raise Cls(...) / raise expr
        if isinstance(e, ast.Call):
            # evaluate arguments (they may contain calls), not the constructor itself
            oks, excs = self.ev_seq(list(e.args) + [k.value for k in e.keywords], state, ctx)
            self._emit_excs(o, excs, trace)
            cls = _cls_name(e.func)
            if isinstance(e.func, ast.Name):
                fv = self.dom.name_load(e.func.id, state, e.func)
                if isinstance(fv, ClassRef):
                    cls = fv.name
            for vals, s in oks:
                exc = self.mk_exc(cls, st.lineno)
                s2 = self.dom.on_raise_stmt(st, exc, s)
                self.exc_edges += 1
                o.add("exc", s2, exc, _tr(trace, "raise@%d" % st.lineno))
            return o
        oks, excs = self.ev(e, state, ctx)
        self._emit_excs(o, excs, trace)
        for v, s in oks:
            exc = None
            if isinstance(e, ast.Name) and ctx.exc_name == e.id and ctx.cur_exc is not None:
                exc = ctx.cur_exc
            if exc is None and isinstance(v, ExcVal):
                exc = Exc(v.colour, v.cls, v.origin)
            if exc is None and isinstance(v, ClassRef):
                exc = self.mk_exc(v.name, st.lineno)
            if exc is None:
                exc = self.dom.exc_of_value(st, v, s, ctx)
            if exc is None:
                if isinstance(e, ast.Name) and self.prog is not None and (e.id in self.prog.classes or _is_builtin_exc(e.id)):
                    exc = self.mk_exc(e.id, st.lineno)
                else:
                    exc = Exc(ORD, None, st.lineno)
            s2 = self.dom.on_raise_stmt(st, exc, s)
            self.exc_edges += 1
            o.add("exc", s2, exc, _tr(trace, "raise@%d" % st.lineno))
        return o

    def mk_exc(self, cls, lineno):
        if cls is None:
            return Exc(ORD, None, lineno)
        bases = self.prog.exception_bases(cls) if self.prog is not None else [cls, "Exception"]
        colour = ORD if "Exception" in bases else (ASYNC if "BaseException" in bases else ORD)
        return Exc(colour, cls, lineno)

    def s_Assert(self, st, state, trace, ctx):
        o = Outs()
        ts, fs, excs = self.cond(st.test, state, ctx)
        self._emit_excs(o, excs, trace)
        for s in ts:
            o.add("norm", s, None, trace)
        for s in fs:
            self.exc_edges += 1
            o.add("exc", s, Exc(ORD, "AssertionError", st.lineno), _tr(trace, "assert-fails@%d" % st.lineno))
        return o

    def s_Break(self, st, state, trace, ctx):
        o = Outs()
        o.add("brk", state, None, trace)
        return o

    def s_Continue(self, st, state, trace, ctx):
        o = Outs()
        o.add("cont", state, None, trace)
        return o

    def s_If(self, st, state, trace, ctx):
        o = Outs()
        ts, fs, excs = self.cond(st.test, state, ctx)
        self._emit_excs(o, excs, trace)
        self.branches += 1
        if ts:
            o.merge(self.block(st.body, [(s, _tr(trace, "if@%d:T" % st.lineno)) for s in ts], ctx))
        if fs:
            if st.orelse:
                o.merge(self.block(st.orelse, [(s, _tr(trace, "if@%d:F" % st.lineno)) for s in fs], ctx))
            else:
                for s in fs:
                    o.add("norm", s, None, _tr(trace, "if@%d:F" % st.lineno))
        return o

    def s_While(self, st, state, trace, ctx):
        o = Outs()
        seen = {}
        work = [(state, trace)]
        exits = {}
        while work:
            s, t = work.pop()
            if s in seen:
                continue
            seen[s] = t
            if len(seen) > MAX_STATES:
                raise AnalysisError("state explosion in while loop at line %d" % st.lineno)
            if len(seen) % 256 == 0:
                _check_budget("the while loop at line %d" % st.lineno)
            ts, fs, excs = self.cond(st.test, s, ctx)
            self._emit_excs(o, excs, t)
            for s1 in fs:
                exits.setdefault(s1, _tr(t, "while@%d:exit" % st.lineno))
            if ts and hasattr(self.dom, "while_continue"):
                # (exact-collection domains: a loop whose condition the analysis cannot decide is followed for a bounded
                # number of rounds on paths that are already imprecise - nothing further could be learnt)
                ts = [s2 for s2 in (self.dom.while_continue(st, s1) for s1 in ts) if s2 is not None]
            if ts:
                b = self.block(st.body, [(s1, _tr(t, "while@%d:iter" % st.lineno)) for s1 in ts], ctx)
                for s2, v2, t2 in b.of("norm") + b.of("cont"):
                    if s2 not in seen:
                        work.append((s2, t2))
                for s2, v2, t2 in b.of("brk"):
                    o.add("norm", s2, None, _tr(t2, "break"))
                o.merge(b, ("ret", "exc"))
        if exits:
            if st.orelse:
                o.merge(self.block(st.orelse, list(exits.items()), ctx))
            else:
                for s, t in exits.items():
                    o.add("norm", s, None, t)
        return o

    def s_For(self, st, state, trace, ctx):
        o = Outs()
        oks, excs = self.ev(st.iter, state, ctx)
        self._emit_excs(o, excs, trace)
        exits = {}
        for itval, s0 in oks:
            seen = {}
            work = [(s0, trace)]
            while work:
                s, t = work.pop()
                if s in seen:
                    continue
                seen[s] = t
                if len(seen) > MAX_STATES:
                    raise AnalysisError("state explosion in for loop at line %d" % st.lineno)
                if len(seen) % 256 == 0:
                    _check_budget("the for loop at line %d" % st.lineno)
                ex = self.dom.for_exhausted(st, itval, s)
                if ex is not None:
                    exits.setdefault(ex, _tr(t, "for@%d:exhausted" % st.lineno))
                if self.dom.iter_may_raise:
                    self._emit_excs(o, [(Exc(ORD, None, st.lineno), s)], t)
                for elem, s1 in self.dom.for_next(st, itval, s):
                    oks2, excs2 = self.assign(st.target, elem, s1, ctx)
                    self._emit_excs(o, excs2, t)
                    if not oks2:
                        continue
                    b = self.block(st.body, [(s2, _tr(t, "for@%d:iter" % st.lineno)) for s2 in oks2], ctx)
                    for s3, v3, t3 in b.of("norm") + b.of("cont"):
                        if s3 not in seen:
                            work.append((s3, t3))
                    for s3, v3, t3 in b.of("brk"):
                        o.add("norm", s3, None, _tr(t3, "break"))
                    o.merge(b, ("ret", "exc"))
        if exits:
            if st.orelse:
                o.merge(self.block(st.orelse, list(exits.items()), ctx))
            else:
                for s, t in exits.items():
                    o.add("norm", s, None, t)
        return o

    def _expand_contextmanager(self, st, i, item):
        """`with self._helper(args) [as x]: BODY` where _helper is a @contextmanager generator of the analysed class (or
        module) with one `yield` statement: the generator's body with BODY in place of the yield - which is what the
        with statement executes, exceptions of BODY arriving at the yield included.  The generator's own names are
        renamed apart from the caller's.  -> list of statements, or None if this is not such a call."""
        call = item.context_expr
        if not isinstance(call, ast.Call) or self.prog is None or getattr(self.dom, "fn", None) is None:
            return None
        fi = None
        f = call.func
        if isinstance(f, ast.Attribute) and isinstance(f.value, ast.Name) and f.value.id == "self" and self.dom.fn.cls is not None:
            fi = self.prog.method(self.dom.fn.cls, f.attr, required=False)
        elif isinstance(f, ast.Name):
            fi = self.dom.fn.module.functions.get(f.id)
        if fi is None or not any("contextmanager" in d for d in fi.decorators) or fi is self.dom.fn:
            return None
        if getattr(self.dom, "expand_contextmanagers", True) is False:
            return None
        import copy

        body = [s_ for s_ in fi.node.body if not (isinstance(s_, ast.Expr) and isinstance(s_.value, ast.Constant) and isinstance(s_.value.value, str))]
        yields = [n for s_ in body for n in ast.walk(s_) if isinstance(n, (ast.Yield, ast.YieldFrom))]
        if len(yields) != 1 or isinstance(yields[0], ast.YieldFrom) or any(isinstance(n, ast.Return) and n.value is not None for s_ in body for n in ast.walk(s_)):
            return None
        if any(isinstance(a, ast.Starred) for a in call.args) or any(k.arg is None for k in call.keywords):
            return None
        body = copy.deepcopy(body)
        tag = "_cm%d_" % call.lineno
        params = [a.arg for a in fi.node.args.posonlyargs + fi.node.args.args + fi.node.args.kwonlyargs]
        own = set(params) - {"self"}
        for s_ in body:
            for n in ast.walk(s_):
                if isinstance(n, ast.Name) and isinstance(n.ctx, ast.Store):
                    own.add(n.id)
                elif isinstance(n, ast.ExceptHandler) and n.name:
                    own.add(n.name)
        for s_ in body:
            for n in ast.walk(s_):
                if isinstance(n, ast.Name) and n.id in own:
                    n.id = tag + n.id
                elif isinstance(n, ast.ExceptHandler) and n.name in own:
                    n.name = tag + n.name
        # parameter binding
        binds = []
        pos = [p_ for p_ in params if p_ != "self"]
        given = dict(zip(pos, call.args))
        for k in call.keywords:
            given[k.arg] = k.value
        defaults = {}
        a = fi.node.args
        allpos = a.posonlyargs + a.args
        for prm, d in zip(allpos[len(allpos) - len(a.defaults):], a.defaults):
            defaults[prm.arg] = d
        for prm, d in zip(a.kwonlyargs, a.kw_defaults):
            if d is not None:
                defaults[prm.arg] = d
        for p_ in pos:
            val = given.get(p_, defaults.get(p_))
            if val is None:
                return None
            binds.append(ast.Assign(targets=[ast.Name(id=tag + p_, ctx=ast.Store())], value=val, lineno=call.lineno, col_offset=call.col_offset))
        inner = st.body if i + 1 == len(st.items) else [ast.With(items=st.items[i + 1:], body=st.body, lineno=st.lineno, col_offset=st.col_offset)]

        done = [False]

        def splice(stmts):
            out = []
            for s_ in stmts:
                if isinstance(s_, ast.Expr) and isinstance(s_.value, ast.Yield):
                    if item.optional_vars is not None:
                        out.append(ast.Assign(targets=[item.optional_vars], value=s_.value.value or ast.Constant(value=None), lineno=s_.lineno, col_offset=s_.col_offset))
                    out.extend(inner)
                    done[0] = True
                    continue
                for fld in ("body", "orelse", "finalbody"):
                    if isinstance(getattr(s_, fld, None), list):
                        setattr(s_, fld, splice(getattr(s_, fld)))
                if isinstance(s_, ast.Try):
                    for h in s_.handlers:
                        h.body = splice(h.body)
                out.append(s_)
            return out

        new = binds + splice(body)
        if not done[0]:
            return None  # the yield is not a statement of its own (e.g. `x = yield`): not expanded
        for s_ in new:
            ast.fix_missing_locations(s_)
            for n in ast.walk(s_):
                for ch in ast.iter_child_nodes(n):
                    if not hasattr(ch, "_parent"):
                        ch._parent = n
        return new

    def s_With(self, st, state, trace, ctx):
        return self._with(st, 0, state, trace, ctx)

    def _with(self, st, i, state, trace, ctx):
        if i == len(st.items):
            return self.block(st.body, [(state, trace)], ctx)
        item = st.items[i]
        expanded = self._expand_contextmanager(st, i, item)
        if expanded is not None:
            return self.block(expanded, [(state, trace)], ctx)
        ce = item.context_expr
        if isinstance(ce, ast.Call) and isinstance(ce.func, ast.Name) and self.prog is not None and ce.func.id in self.prog.classes and "__exit__" in self.prog.classes[ce.func.id].methods:
            # a context manager *class* of the package: what its __exit__ does with the exceptions of the body (swallow,
            # book-keep, re-raise) is behaviour this engine does not follow - no verdict is drawn from code under it
            raise AnalysisError("`with %s(...)` at line %d: %s is a context-manager class of the package; the analysis does not model its __exit__ (which exceptions it swallows), so the code under it cannot be decided" % (ce.func.id, st.lineno, ce.func.id))
        o = Outs()
        oks, excs = self.ev(item.context_expr, state, ctx)
        self._emit_excs(o, excs, trace)
        for cmval, s in oks:
            for r in self.dom.with_enter(item, cmval, s):
                if r[0] == "exc":
                    self._emit_excs(o, [(r[1], r[2])], trace)
                    continue
                _, asval, s1 = r
                entries = [s1]
                if item.optional_vars is not None:
                    oks2, excs2 = self.assign(item.optional_vars, asval, s1, ctx)
                    self._emit_excs(o, excs2, trace)
                    entries = oks2
                for s2 in entries:
                    body = self._with(st, i + 1, s2, trace, ctx)
                    for (kind, s3, v3), t3 in body.d.items():
                        if isinstance(cmval, Suppress) and kind == "exc":
                            # contextlib.suppress: decided like an `except (names): pass` around the body
                            fake = ast.ExceptHandler(type=ast.Tuple(elts=[ast.Name(id=n, ctx=ast.Load()) for n in cmval.names], ctx=ast.Load()), name=None, body=[])
                            fake.lineno = st.lineno
                            m, narrowed = self.match(fake, v3)
                            if m in ("yes", "maybe"):
                                o.add("norm", self.dom.on_catch(fake, narrowed, s3), None, _tr(t3, "suppressed-by-with@%d" % st.lineno))
                            if m in ("no", "maybe"):
                                o.add(kind, s3, v3, t3)
                            continue
                        for r2 in self.dom.with_exit(item, cmval, kind, s3):
                            if r2[0] == "exc":
                                self._emit_excs(o, [(r2[1], r2[2])], t3)
                            else:
                                _, s4, suppress = r2
                                if kind == "exc" and suppress:
                                    o.add("norm", s4, None, _tr(t3, "suppressed-by-with@%d" % st.lineno))
                                else:
                                    o.add(kind, s4, v3, t3)
        return o

    def s_Try(self, st, state, trace, ctx):
        body = self.block(st.body, [(state, trace)], ctx)
        res = Outs()  # outcomes before finally
        res.merge(body, ("brk", "cont", "ret"))
        # else clause
        norm = body.of("norm")
        if st.orelse and norm:
            res.merge(self.block(st.orelse, [(s, t) for s, v, t in norm], ctx))
        else:
            for s, v, t in norm:
                res.add("norm", s, None, t)
        # handlers
        for s, exc, t in body.of("exc"):
            self._dispatch(st, exc, s, t, ctx, res)
        if not st.finalbody:
            return res
        out = Outs()
        for (kind, s, v), t in res.d.items():
            f = self.block(st.finalbody, [(s, _tr(t, "finally@%d(%s)" % (st.finalbody[0].lineno, kind)))], ctx if kind != "exc" else ctx.handler(v, None))
            for s2, v2, t2 in f.of("norm"):
                out.add(kind, s2, v, t2)
            out.merge(f, ("brk", "cont", "ret", "exc"))
        return out

    def _dispatch(self, st, exc, state, trace, ctx, res):
        remaining = exc
        for h in st.handlers:
            if remaining is None:
                break
            m, narrowed = self.match(h, remaining)
            if m == "no":
                continue
            e_in = narrowed
            s1 = self.dom.on_catch(h, e_in, state)
            if h.name:
                s1 = self.dom.name_store(h.name, ExcVal(e_in.colour, e_in.cls, e_in.origin), s1, h)
            hb = self.block(h.body, [(s1, _tr(trace, "except@%d(%s)" % (h.lineno, e_in)))], ctx.handler(e_in, h.name))
            res.merge(hb)
            if m == "yes":
                remaining = None
        if remaining is not None:
            res.add("exc", state, remaining, trace)

    def match(self, h, exc):
        """-> ('yes'|'no'|'maybe', exception descriptor as seen inside the handler)"""
        if h.type is None:
            return "yes", exc
        names = [_cls_name(e) for e in (h.type.elts if isinstance(h.type, ast.Tuple) else [h.type])]
        if any(n is None for n in names):
            raise AnalysisError("cannot resolve handler type at line %d" % h.lineno)
        names = [n.split(".")[-1] for n in names]
        if exc.cls is not None:
            bases = self.prog.exception_bases(exc.cls) if self.prog else [exc.cls]
            if any(n in bases for n in names):
                return "yes", exc
            # a subclass of the raised class may be what is actually raised only for '*' classes
            return "no", exc
        if exc.colour == ORD:
            if "Exception" in names or "BaseException" in names:
                return "yes", exc
            cand = []
            for n in names:
                b = self.prog.exception_bases(n) if self.prog else [n, "Exception"]
                if "Exception" in b:
                    cand.append(n)
            if not cand:
                return "no", exc
            return "maybe", Exc(ORD, cand[0] if len(cand) == 1 else None, exc.origin)
        # ASYNC, any class
        if "BaseException" in names:
            return "yes", exc
        cand = []
        for n in names:
            b = self.prog.exception_bases(n) if self.prog else [n, "Exception"]
            if "Exception" not in b and n != "Exception":
                cand.append(n)
        if not cand:
            return "no", exc
        return "maybe", Exc(ASYNC, cand[0] if len(cand) == 1 else None, exc.origin)

    # ================= assignment ========================================
    def assign(self, tgt, value, state, ctx, aug=None):
        """-> (list of states, list of (Exc, state))"""
        d = self.dom
        if isinstance(tgt, ast.Name):
            return [d.name_store(tgt.id, value, state, aug or tgt)], []
        if isinstance(tgt, ast.Attribute):
            oks, excs = self.ev(tgt.value, state, ctx)
            return [(d.record_store(ov, tgt.attr, value, s) if getattr(ov, "kind", None) and str(ov.kind).startswith("obj:") and hasattr(d, "record_store") else d.attr_store(ov, tgt, value, s)) for ov, s in oks], excs
        if isinstance(tgt, ast.Subscript):
            oks, excs = self.ev_seq([tgt.value, tgt.slice], state, ctx)
            outs = []
            for vals, s in oks:
                outs.append(d.subscript_store(vals[0], vals[1], value, tgt, s))
            return outs, excs
        if isinstance(tgt, (ast.Tuple, ast.List)):
            star = [i for i, e in enumerate(tgt.elts) if isinstance(e, ast.Starred)]
            excs = []
            if star:
                vals, may = d.unpack_starred(value, star[0], len(tgt.elts), tgt, state)
            else:
                vals, may = d.unpack(value, len(tgt.elts), tgt, state)
            if may:
                excs.append((Exc(ORD, "ValueError", tgt.lineno), state))
            if vals is None:
                return [], excs  # the number of elements is known and does not fit: the assignment surely raises
            states = [state]
            for e, v in zip(tgt.elts, vals):
                if isinstance(e, ast.Starred):
                    e = e.value
                ns = []
                for s in states:
                    o2, e2 = self.assign(e, v, s, ctx)
                    ns += o2
                    excs += e2
                states = ns
            return states, excs
        if isinstance(tgt, ast.Starred):
            return self.assign(tgt.value, TOP, state, ctx)
        raise AnalysisError("unsupported assignment target %s at line %d" % (type(tgt).__name__, tgt.lineno))

    # ================= expressions =======================================
    def ev_seq(self, exprs, state, ctx):
        """Evaluate expressions left to right.  -> ([(tuple of values, state)], [(Exc, state)])"""
        cur = [((), state)]
        excs = []
        for e in exprs:
            nxt = []
            for vals, s in cur:
                oks, ex = self.ev(e, s, ctx)
                excs += ex
                for v, s2 in oks:
                    nxt.append((vals + (v,), s2))
            cur = nxt
            if not cur:
                break
        return cur, excs

    def ev(self, e, state, ctx):
        """-> ([(value, state)], [(Exc, state)])"""
        m = getattr(self, "e_" + type(e).__name__, None)
        if m is None:
            raise AnalysisError("path interpreter: unsupported expression %s at line %d" % (type(e).__name__, getattr(e, "lineno", 0)))
        return m(e, state, ctx)

    def e_Constant(self, e, state, ctx):
        return [(Const(e.value), state)], []

    def e_Name(self, e, state, ctx):
        v = self.dom.name_load(e.id, state, e)
        if v is TOP and self.prog is not None and self._is_exc_class(e.id):
            v = ClassRef(e.id)
        return [(v, state)], []

    def _is_exc_class(self, name):
        if name in self.prog.classes:
            return "Exception" in self.prog.exception_bases(name) or "BaseException" in self.prog.exception_bases(name)
        return _is_builtin_exc(name)

    def _isinstance_exc(self, ev, cls_val):
        """Decide isinstance(<caught exception>, <class or tuple of classes>): True / False / None."""
        names = []
        for c in (cls_val.items if isinstance(cls_val, TupleV) else [cls_val]):
            if not isinstance(c, ClassRef):
                return None
            names.append(c.name)
        if ev.cls is not None:
            bases = self.prog.exception_bases(ev.cls) if self.prog else [ev.cls]
            return any(n in bases for n in names)
        if ev.colour == ORD and any(n in ("Exception", "BaseException") for n in names):
            return True
        if ev.colour == ASYNC and "BaseException" in names:
            return True
        if ev.colour == ASYNC and all("Exception" in (self.prog.exception_bases(n) if self.prog else [n]) for n in names):
            return False
        return None

    def e_Attribute(self, e, state, ctx):
        oks, excs = self.ev(e.value, state, ctx)
        out = []
        for ov, s in oks:
            if isinstance(ov, Const) and ov.v is None:
                # attribute of None: AttributeError, no normal continuation
                excs.append((Exc(ORD, "AttributeError", e.lineno), s))
                continue
            if getattr(ov, "kind", None) and str(ov.kind).startswith("obj:") and hasattr(self.dom, "record_load"):
                # an instance of a small record class of the package (exact-collection domains): its field
                v, missing = self.dom.record_load(ov, e.attr, s)
                if missing:
                    excs.append((Exc(ORD, "AttributeError", e.lineno), s))
                else:
                    out.append((v, s))
                continue
            out.append((self.dom.attr_load(ov, e, s), s))
            if self.dom.attr_may_raise and not (isinstance(e.value, ast.Name) and e.value.id == "self"):
                excs.append((Exc(ORD, "AttributeError", e.lineno), s))
        return out, excs

    def e_Slice(self, e, state, ctx):
        parts = [p for p in (e.lower, e.upper, e.step) if p is not None]
        oks, excs = self.ev_seq(parts, state, ctx)
        if not getattr(self.dom, "slice_values", False):
            return [(TOP, s) for vals, s in oks], excs
        out = []
        for vals, s in oks:
            it = iter(vals)
            out.append((SliceV(*[next(it) if p is not None else NONE for p in (e.lower, e.upper, e.step)]), s))
        return out, excs

    def e_Subscript(self, e, state, ctx):
        oks, excs = self.ev_seq([e.value, e.slice], state, ctx)
        out = []
        for (ov, iv), s in oks:
            v, may, s2 = self.dom.subscript_load_s(ov, iv, e, s)
            if v is not NOVALUE:
                out.append((v, s2))
            if may:
                # may = True: a lookup that can fail; may = "KeyError"/"IndexError" with NOVALUE: one that surely fails
                excs.append((Exc(ORD, may if isinstance(may, str) else "LookupError", e.lineno), s))
        return out, excs

    def e_Starred(self, e, state, ctx):
        return self.ev(e.value, state, ctx)

    def e_Tuple(self, e, state, ctx):
        oks, excs = self.ev_seq(e.elts, state, ctx)
        if any(isinstance(x, ast.Starred) for x in e.elts):
            return [(TOP, s) for vals, s in oks], excs
        return [(self.dom.make_tuple(vals, e, s), s) for vals, s in oks], excs

    def e_List(self, e, state, ctx):
        oks, excs = self.ev_seq(e.elts, state, ctx)
        return [self.dom.make_list_s(vals, e, s) for vals, s in oks], excs

    def e_Set(self, e, state, ctx):
        oks, excs = self.ev_seq(e.elts, state, ctx)
        return [(self.dom.make_set(vals, e, s), s) for vals, s in oks], excs

    def e_Dict(self, e, state, ctx):
        ks = [k for k in e.keys if k is not None]
        oks, excs = self.ev_seq(ks + list(e.values), state, ctx)
        out = []
        for vals, s in oks:
            out.append(self.dom.make_dict_s(vals[: len(ks)], vals[len(ks):], e, s))
        return out, excs

    def e_JoinedStr(self, e, state, ctx):
        parts = [v.value for v in e.values if isinstance(v, ast.FormattedValue)]
        oks, excs = self.ev_seq(parts, state, ctx)
        return [(self.dom.fstring(e, vals, s), s) for vals, s in oks], excs

    def e_FormattedValue(self, e, state, ctx):
        return self.ev(e.value, state, ctx)

    def e_Lambda(self, e, state, ctx):
        return [(self.dom.lambda_(e, state), state)], []

    def e_BinOp(self, e, state, ctx):
        oks, excs = self.ev_seq([e.left, e.right], state, ctx)
        out = []
        for (l, r), s in oks:
            out.append(self.dom.binop_s(e, l, r, s))
            if self.dom.binop_may_raise and not (isinstance(l, Const) and isinstance(r, Const)):
                excs.append((Exc(ORD, "TypeError", e.lineno), s))
        return out, excs

    def e_UnaryOp(self, e, state, ctx):
        if isinstance(e.op, ast.Not):
            ts, fs, excs = self.cond(e.operand, state, ctx)
            return [(FALSE, s) for s in ts] + [(TRUE, s) for s in fs], excs
        oks, excs = self.ev(e.operand, state, ctx)
        return [(self.dom.unaryop(e, v, s), s) for v, s in oks], excs

    def e_BoolOp(self, e, state, ctx):
        # value semantics with short circuit
        is_and = isinstance(e.op, ast.And)
        results, excs = [], []
        cur = [state]
        for i, sub in enumerate(e.values):
            last = i == len(e.values) - 1
            nxt = []
            for s in cur:
                oks, ex = self.ev(sub, s, ctx)
                excs += ex
                for v, s1 in oks:
                    if last:
                        results.append((v, s1))
                        continue
                    t = self.dom.truth(v, s1)
                    if t is None:
                        st_t = self.dom.assume(sub, v, True, s1)
                        st_f = self.dom.assume(sub, v, False, s1)
                    else:
                        st_t = s1 if t else None
                        st_f = s1 if not t else None
                    if is_and:
                        if st_f is not None:
                            results.append((v, st_f))  # `x and y` is x itself when x is falsy
                        if st_t is not None:
                            nxt.append(st_t)
                    else:
                        if st_t is not None:
                            results.append((v, st_t))  # `x or y` is x itself when x is truthy
                        if st_f is not None:
                            nxt.append(st_f)
            cur = nxt
        return results, excs

    def e_IfExp(self, e, state, ctx):
        ts, fs, excs = self.cond(e.test, state, ctx)
        out = []
        for s in ts:
            oks, ex = self.ev(e.body, s, ctx)
            out += oks
            excs += ex
        for s in fs:
            oks, ex = self.ev(e.orelse, s, ctx)
            out += oks
            excs += ex
        return out, excs

    def e_Compare(self, e, state, ctx):
        ts, fs, excs = self.cond(e, state, ctx)
        return [(TRUE, s) for s in ts] + [(FALSE, s) for s in fs], excs

    def e_NamedExpr(self, e, state, ctx):
        oks, excs = self.ev(e.value, state, ctx)
        out = []
        for v, s in oks:
            o2, e2 = self.assign(e.target, v, s, ctx)
            excs += e2
            out += [(v, s2) for s2 in o2]
        return out, excs

    def e_Yield(self, e, state, ctx):
        if e.value is not None:
            oks, excs = self.ev(e.value, state, ctx)
        else:
            oks, excs = [(NONE, state)], []
        out = []
        for v, s in oks:
            for r in self.dom.yield_(e, v, s):
                if r[0] == "ok":
                    out.append((r[1], r[2]))
                else:
                    excs.append((r[1], r[2]))
        return out, excs

    def e_Call(self, e, state, ctx):
        # evaluation order: callee, positional args, keyword values
        exprs = [e.func] + list(e.args) + [k.value for k in e.keywords]
        oks, excs = self.ev_seq(exprs, state, ctx)
        out = []
        na = len(e.args)
        for vals, s in oks:
            fval = vals[0]
            args = list(vals[1 : 1 + na])
            kwargs = {}
            for k, v in zip(e.keywords, vals[1 + na :]):
                kwargs[k.arg if k.arg is not None else "**%d" % len(kwargs)] = v
            if _dotted(e.func) in ("contextlib.closing", "closing") and len(args) == 1:
                out.append((Closing(args[0]), s))
                continue
            if _dotted(e.func) in ("contextlib.suppress", "suppress") and args and not kwargs and all(_cls_name(a) is not None for a in e.args):
                out.append((Suppress(tuple(_cls_name(a).split(".")[-1] for a in e.args)), s))
                continue
            if isinstance(e.func, ast.Name) and e.func.id == "isinstance" and len(args) == 2 and isinstance(args[0], ExcVal):
                verdict = self._isinstance_exc(args[0], args[1])
                if verdict is not None:
                    out.append((Const(verdict), s))
                    continue
            res = None
            if isinstance(fval, LambdaV) and not any(isinstance(a, ast.Starred) for a in e.args):
                res = self.dom.apply_lambda(e, fval, args, kwargs, s)
            if res is None and (fval is TOP or isinstance(fval, ClassRef)) and isinstance(e.func, ast.Name) and hasattr(self.dom, "instantiate") and self.prog is not None and e.func.id in self.prog.classes:
                res = self.dom.instantiate(e, self.prog.classes[e.func.id], args, kwargs, s)
            if res is None:
                res = self.dom.call(e, fval, args, kwargs, s)
            for r in res:
                if r[0] == "ok":
                    out.append((r[1], r[2]))
                else:
                    excs.append((r[1], r[2]))
        return out, excs

    def _comp(self, e, elts, state, ctx):
        """Comprehension: evaluate the generators' iterables, bind targets to an abstract element,
        evaluate conditions and the element expression once (so calls inside become events)."""
        for g in e.generators:
            if not hasattr(g, "lineno"):
                g.lineno = getattr(g.iter, "lineno", getattr(e, "lineno", 0))  # domains key loop facts by line
        if getattr(self.dom, "comp_sequential", False):
            r = self._comp_sequential(e, elts, state, ctx)
            if r is not None:
                return r
        excs = []
        cur = [state]
        dropped = []  # states of elements filtered out by an `if` (their effects on the state still happened)
        for g in e.generators:
            nxt = []
            for s in cur:
                oks, ex = self.ev(g.iter, s, ctx)
                excs += ex
                g._itval = oks[0][0] if len(oks) == 1 and len(cur) == 1 else None  # for exact-collection domains
                for itv, s1 in oks:
                    cands = self.dom.for_next(g, itv, s1)
                    if not cands:
                        cands = []
                    for elem, s2 in cands:
                        o2, e2 = self.assign(g.target, elem, s2, ctx)
                        excs += e2
                        for s3 in o2:
                            ss = [s3]
                            for c in g.ifs:
                                n2 = []
                                for s4 in ss:
                                    ts, fs, e3 = self.cond(c, s4, ctx)
                                    excs += e3
                                    n2 += ts
                                    dropped += fs
                                ss = n2
                            nxt += ss
            cur = nxt
        results = []
        for s in cur:
            oks, ex = self.ev_seq(elts, s, ctx)
            excs += ex
            for vals, s1 in oks:
                results.append((vals, s1))
        # the comprehension's own scope: effects on state other than exceptions are those of dom
        out = []

        def clean(s):
            # comprehension variables do not leak: restore them from the outer state
            s_clean = s
            for g in e.generators:
                for n in ast.walk(g.target):
                    if isinstance(n, ast.Name):
                        s_clean = self.dom.name_store(n.id, state.get(n.id, TOP), s_clean, n) if isinstance(state, Env) and state.has(n.id) else (self.dom.name_del(n.id, s_clean) if isinstance(s_clean, Env) else s_clean)
            return s_clean

        st_out = {}
        for vals, s in results:
            st_out.setdefault(clean(s), []).append(vals)
        if not st_out:
            st_out = {clean(s): [] for s in dropped} or {state: []}
        self.dom.comp_exact = len(st_out) == 1
        for s_clean, vs in st_out.items():
            out.append(self.dom.comprehension_s(e, vs, s_clean))
        return out, excs

    def _comp_sequential(self, e, elts, state, ctx):
        """Comprehension over iterables whose elements are all known (exact-collection domains): the elements are
        produced one after the other, each from the state the previous one left - what the element expression does to
        the state (a call that is recorded, an allocation) happens once per element, in order.  None if some iterable
        is not known exactly (the caller then falls back to the abstract-element evaluation)."""
        gens = e.generators
        excs = []

        class _Unknown(Exception):
            pass

        def produce(gi, s, acc):
            if gi == len(gens):
                oks, ex = self.ev_seq(elts, s, ctx)
                excs.extend(ex)
                return [(acc + (tuple(vals),), s1) for vals, s1 in oks]
            g = gens[gi]
            oks, ex = self.ev(g.iter, s, ctx)
            excs.extend(ex)
            out = []
            for itv, s1 in oks:
                seq, s1 = self.dom.consume(itv, s1)
                if seq is None:
                    raise _Unknown()
                g._itval = itv
                cur = [(acc, s1)]
                for elem in seq:
                    nxt = []
                    for a, st in cur:
                        o2, e2 = self.assign(g.target, elem, st, ctx)
                        excs.extend(e2)
                        for s3 in o2:
                            passing = [s3]
                            skipped = []
                            for c in g.ifs:
                                n2 = []
                                for s4 in passing:
                                    ts, fs, e3 = self.cond(c, s4, ctx)
                                    excs.extend(e3)
                                    n2 += ts
                                    skipped += fs
                                passing = n2
                            taken = []
                            for s4 in passing:
                                taken += produce(gi + 1, s4, a)
                            if gi == len(gens) - 1 and len(taken) == 1 and len(skipped) == 1 and taken[0][1] == skipped[0] and len(taken[0][0]) == len(a) + 1:
                                # a filter that is undecided and leaves no trace in the state: one path with the element
                                # marked "present or not" instead of two paths (n such elements would make 2**n paths)
                                nxt.append((a + (MaybeV(taken[0][0][-1], " and ".join(ast.unparse(c) for c in g.ifs)),), skipped[0]))
                            else:
                                nxt += taken + [(a, s5) for s5 in skipped]
                    cur = nxt
                    if len(cur) > 256:
                        raise _Unknown()
                out += cur
            return out

        try:
            results = produce(0, state, ())
        except _Unknown:
            return None
        out = []
        seen = set()
        for acc, s in results:
            s_clean = s
            for g in gens:
                for n in ast.walk(g.target):
                    if isinstance(n, ast.Name):
                        s_clean = self.dom.name_store(n.id, state.get(n.id, TOP), s_clean, n) if isinstance(state, Env) and state.has(n.id) else (self.dom.name_del(n.id, s_clean) if isinstance(s_clean, Env) else s_clean)
            key = (acc, s_clean)
            if key in seen:
                continue
            seen.add(key)
            self.dom.comp_exact = True
            out.append(self.dom.comprehension_s(e, list(acc), s_clean))
        return out, excs

    def e_ListComp(self, e, state, ctx):
        return self._comp(e, [e.elt], state, ctx)

    e_SetComp = e_GeneratorExp = e_ListComp

    def e_DictComp(self, e, state, ctx):
        return self._comp(e, [e.key, e.value], state, ctx)

    # ================= conditions ========================================
    def cond(self, e, state, ctx):
        """Evaluate `e` as a branch condition.  -> (true states, false states, excs)"""
        if isinstance(e, ast.UnaryOp) and isinstance(e.op, ast.Not):
            ts, fs, ex = self.cond(e.operand, state, ctx)
            return fs, ts, ex
        if isinstance(e, ast.BoolOp):
            is_and = isinstance(e.op, ast.And)
            cur = [state]
            done_t, done_f, excs = [], [], []
            for i, sub in enumerate(e.values):
                nxt = []
                for s in cur:
                    ts, fs, ex = self.cond(sub, s, ctx)
                    excs += ex
                    if is_and:
                        done_f += fs
                        nxt += ts
                    else:
                        done_t += ts
                        nxt += fs
                cur = nxt
            if is_and:
                done_t += cur
            else:
                done_f += cur
            return _uniq(done_t), _uniq(done_f), excs
        if isinstance(e, ast.Compare):
            return self._cond_compare(e, state, ctx)
        if isinstance(e, ast.Constant):
            return ([state], [], []) if e.value else ([], [state], [])
        oks, excs = self.ev(e, state, ctx)
        ts, fs = [], []
        for v, s in oks:
            t = self.dom.truth(v, s)
            if t is True:
                ts.append(s)
            elif t is False:
                fs.append(s)
            else:
                a = self.dom.assume(e, v, True, s)
                if a is not None:
                    ts.append(a)
                b = self.dom.assume(e, v, False, s)
                if b is not None:
                    fs.append(b)
        return _uniq(ts), _uniq(fs), excs

    def _cond_compare(self, e, state, ctx):
        operands = [e.left] + list(e.comparators)
        oks, excs = self.ev_seq(operands, state, ctx)
        ts, fs = [], []
        for vals, s in oks:
            # chained comparison: conjunction of pairwise comparisons
            cur = [s]
            for i, op in enumerate(e.ops):
                nxt = []
                for s1 in cur:
                    l, r = vals[i], vals[i + 1]
                    v = self.dom.compare(e, op, l, r, s1)
                    t = self.dom.truth(v, s1) if v is not TOP else None
                    if t is True:
                        nxt.append(s1)
                    elif t is False:
                        fs.append(s1)
                    else:
                        a = self.dom.refine_compare(e, op, operands[i], l, operands[i + 1], r, True, s1)
                        if a is not None:
                            nxt.append(a)
                        b = self.dom.refine_compare(e, op, operands[i], l, operands[i + 1], r, False, s1)
                        if b is not None:
                            fs.append(b)
                cur = nxt
            ts += cur
        return _uniq(ts), _uniq(fs), excs


def _uniq(xs):
    seen, out = set(), []
    for x in xs:
        if x not in seen:
            seen.add(x)
            out.append(x)
    return out


def _as_load(t):
    import copy

    n = copy.copy(t)
    n.ctx = ast.Load()
    return n


def _cls_name(e):
    if isinstance(e, ast.Name):
        return e.id
    if isinstance(e, ast.Attribute):
        return e.attr
    return None


def _dotted(f):
    parts = []
    while isinstance(f, ast.Attribute):
        parts.append(f.attr)
        f = f.value
    if isinstance(f, ast.Name):
        parts.append(f.id)
        return ".".join(reversed(parts))
    return None


def _is_builtin_exc(name):
    import builtins

    o = getattr(builtins, name, None)
    return isinstance(o, type) and issubclass(o, BaseException)


def fmt_trace(trace, limit=14):
    t = list(trace)
    if len(t) > limit:
        t = t[: limit // 2] + ["..."] + t[-limit // 2 :]
    return " -> ".join(str(x) for x in t)
