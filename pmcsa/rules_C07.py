"""C07 - ignore_exc turns every read failure into a cache miss (shape and coverage, decided structurally)."""
import ast

from .model import AnalysisError, node_src, is_self_attr, call_name, fold, NotConst
from .spec import CLOCKS
from .paths import Interp, Domain, Env, TOP, NONE, Const, Exc, ORD, ASYNC, fmt_trace
from . import exchange
from .report import walk_no_nested

LEVEL = "other"
LEVEL_TEXT = (
    "For the 6 read methods on each of Client, PooledClient and HashClient: the value returned on the failure path is "
    "compared, as a term over the method's parameters, with the value the same method returns on a miss (R1/R2); and a "
    "path analysis shows that with ignore_exc no ordinary exception raised by a network/parse/deserialise call can "
    "escape (R3); Client's read methods are interpreted end to end with ignore_exc set against 17 fault plans each and must return the miss value (R5). Bookkeeping exceptions raised inside HashClient's failover handlers are not decided (C13)."
)
TRUSTED = ["CPython ast", "pmcsa/paths.py", "term comparison in pmcsa/rules_C07.py"]

READS = ("get", "gets", "gat", "gats", "get_many", "gets_many")
NON_FAILURE_CALLS = ("self.check_key", "check_key_helper", "self._check_integer", "list", "dict", "zip", "isinstance", "len", "tuple")


def term(expr, fn, locals_=None):
    """Normalise an expression to a term over the function's parameters."""
    locals_ = locals_ or {}
    if isinstance(expr, ast.Constant):
        return ("const", repr(expr.value))
    if isinstance(expr, ast.Name):
        if expr.id in locals_:
            return term(locals_[expr.id], fn, {k: v for k, v in locals_.items() if k != expr.id})
        if fn.param(expr.id) is not None:
            return ("param", expr.id)
        return ("name", expr.id)
    if isinstance(expr, ast.Tuple):
        return ("tuple",) + tuple(term(e, fn, locals_) for e in expr.elts)
    if isinstance(expr, ast.Dict) and not expr.keys:
        return ("emptydict",)
    if isinstance(expr, (ast.List,)) and not expr.elts:
        return ("emptylist",)
    return ("expr", node_src(expr))


def show(t):
    if t[0] == "const":
        return t[1]
    if t[0] == "param":
        return t[1]
    if t[0] == "tuple":
        return "(" + ", ".join(show(x) for x in t[1:]) + ")"
    if t[0] == "emptydict":
        return "{}"
    if t[0] == "emptylist":
        return "[]"
    return t[-1]


def subst_defaults(t, client_fn, wrapper_fn):
    """Parameters of Client.m that the wrapper does not offer are replaced by their defaults."""
    if t[0] == "param":
        if wrapper_fn.param(t[1]) is None and not wrapper_fn.has_kwargs():
            p = client_fn.param(t[1])
            if p is not None and p.has_default:
                try:
                    return ("const", repr(fold(p.default, client_fn.module)))
                except NotConst:
                    return t
        return t
    if t[0] == "tuple":
        return ("tuple",) + tuple(subst_defaults(x, client_fn, wrapper_fn) for x in t[1:])
    return t


def local_defs(fn):
    d = {}
    for n in walk_no_nested(fn.node):
        if isinstance(n, ast.Assign) and len(n.targets) == 1 and isinstance(n.targets[0], ast.Name):
            d[n.targets[0].id] = n.value
    return d


def miss_shape(prog, name):
    """R1: the value Client.<name> returns on a miss, as a term over its parameters.  Derived by interpreting the
    method end to end against the reply of a server that has none of the keys (`END`)."""
    from .rules_C05 import script_eval, Val, _show
    from .colls import DictV, deref
    from .paths import TupleV

    f = prog.method("Client", name)
    outs = script_eval(prog, name, (b"END",), full=True)
    vals = {deref(v, s) for s, v, t in outs.of("ret")}
    if len(vals) != 1 or outs.of("exc"):
        raise AnalysisError("C07.R1: cannot derive the miss value of Client.%s (outcomes: returns %s, raises %s)" % (name, sorted(map(_show, vals)), sorted({str(e.cls) for s, e, t in outs.of("exc")})))

    def to_term(v):
        if isinstance(v, Val) and v.tag.startswith("arg:"):
            return ("param", v.tag[4:])
        if isinstance(v, Const):
            return ("const", repr(v.v))
        if isinstance(v, TupleV):
            return ("tuple",) + tuple(to_term(x) for x in v.items)
        if isinstance(v, DictV) and not v.items:
            return ("emptydict",)
        return ("expr", _show(v))

    v = next(iter(vals))
    return f, to_term(v), ("multi" if isinstance(v, DictV) else "single")


def failure_capable(prog):
    """Names of Client methods / base.py functions through which a server, network, parse or deserialise failure can
    surface: they touch the socket or the serde, raise something other than MemcacheIllegalInputError, or call such a
    function (fixpoint over the call graph restricted to `self.m(...)` and bare `f(...)` calls)."""
    mod = prog.module(exchange.READERS_BASE)
    funcs = {"self." + n: f for n, f in prog.cls("Client").methods.items()}
    funcs.update({n: f for n, f in mod.functions.items()})
    cap = set()

    def direct(f):
        for n in walk_no_nested(f.node):
            if isinstance(n, ast.Raise) and n.exc is not None:
                from .keyeval import raised_class_name

                nm = raised_class_name(n.exc, mod)  # (an exception built by a module-level helper: the class it builds)
                if nm != "MemcacheIllegalInputError":
                    return True
            if isinstance(n, ast.Call):
                cn = call_name(n)
                if cn.startswith(("self.sock.", "sock.", "self.serde.", "s.", "context.")):
                    return True
        return False

    for k, f in funcs.items():
        if direct(f):
            cap.add(k)
    changed = True
    while changed:
        changed = False
        for k, f in funcs.items():
            if k in cap:
                continue
            al = exchange.local_reader_aliases(f, {c for c in cap if not c.startswith("self.")})
            for n in walk_no_nested(f.node):
                if isinstance(n, ast.Call) and (call_name(n) in cap or (isinstance(n.func, ast.Name) and n.func.id in al)):
                    cap.add(k)
                    changed = True
                    break
    return cap


class SwallowDomain(Domain):
    """Calls through which a server/network/parse/deserialise failure can surface may raise an ordinary exception."""

    async_enabled = False
    subscript_may_raise = True

    def __init__(self, prog, fn, ignore_exc, only_receiver=None):
        super().__init__(prog, fn)
        self.ignore_exc = ignore_exc
        self.only_receiver = only_receiver
        self.capable = failure_capable(prog) if only_receiver is None else set()
        self.aliases = exchange.local_reader_aliases(fn, {c for c in self.capable if not c.startswith("self.")}) if only_receiver is None else set()
        self.n_failing = 0

    def attr_load(self, objval, node, state):
        if is_self_attr(node, "ignore_exc"):
            return Const(self.ignore_exc)
        return super().attr_load(objval, node, state)

    def call(self, node, fval, args, kwargs, state):
        name = call_name(node)
        if name in ("self.close", "logger.debug") or name in CLOCKS:
            return [("ok", TOP, state)]
        if self.only_receiver is not None and name.startswith("self._") and name.count(".") == 1 and self.fn is not None and self.fn.cls is not None:
            # a private helper of the wrapper (e.g. a shared failure handler that says whether to re-raise)
            m = self.prog.method(self.fn.cls, name[5:], required=False)
            # (the failover bookkeeping itself - marking, evicting, reviving - is C13's subject and stays summarised)
            if m is not None and m is not self.fn and name[5:] not in ("_mark_failed_server", "_retry_dead", "_get_client"):
                res = self.inline(node, m, args, kwargs, state)
                if res is not None:
                    return res
        if self.only_receiver is not None:
            recv = name.split(".")[0]
            if recv not in self.only_receiver:
                return [("ok", TOP, state)]
        elif not (name in self.capable or name.startswith(("self.sock.", "self.serde.")) or (isinstance(node.func, ast.Name) and node.func.id in self.aliases)):
            return [("ok", TOP, state)]
        self.n_failing += 1
        return [("ok", TOP, state), ("exc", Exc(ORD, None, node.lineno), state.set("#failed_at", node.lineno))]

    def with_enter(self, item, value, state):
        return [("ok", TOP, state)]


def run(chk):
    prog = chk.prog
    r1 = chk.rule("C07.R1", "miss shape of each read method of Client derived from its source")
    r2 = chk.rule("C07.R2", "failure value == miss value (as a term over the parameters) for each read method on each client class")
    shapes = {}
    for m in READS:
        f, t, kind = miss_shape(prog, m)
        shapes[m] = (f, t, kind)
        r1.ok("miss(Client.%s) = %s" % (m, show(t)))
    r1.floor("read methods of Client", len(shapes), 6)

    # ---- Client: the handler of the fetch exchange returns the empty mapping
    fetch = [f for f in exchange.reading_exchange_functions(prog) if f.param("noreply") is None]
    if len(fetch) != 1:
        raise AnalysisError("C07: expected exactly one fetch exchange function, found %s" % [f.qualname for f in fetch])
    fetch = fetch[0]
    # (for Client itself, failure value == miss value is decided by R5: every read method interpreted end to end against
    # 17 fault plans must return the miss value)
    # ---- PooledClient: the value returned when the delegate call fails and ignore_exc is set
    from . import pooled as pooled_an

    pruns = pooled_an.analyse(prog)
    pooled = prog.cls("PooledClient")
    for m in READS:
        cf, t, kind = shapes[m]
        pf = prog.method(pooled, m, required=False)
        if pf is None or m not in pruns:
            r2.fail("PooledClient.%s:missing" % m, "PooledClient does not offer %s" % m, file=pooled.module.rel, line=pooled.node.lineno)
            continue
        want = subst_defaults(t, cf, pf)
        fails = [r for r in pruns[m] if r.ignore_exc and r.outcome == "raise" and r.kind == "ret"]
        if not fails:
            r2.fail("PooledClient.%s:no-swallow" % m, "PooledClient.%s has no path that returns a miss value when the delegate call fails under ignore_exc" % m, fn=pf)
        for r in fails:
            got = pooled_an.value_term(r.value)
            r2.expect(got == want, "PooledClient.%s: failure value %s == miss value" % (m, show(got)), "PooledClient.%s:failure-shape" % m, "with ignore_exc PooledClient.%s returns %s on a failure but %s on a miss" % (m, show(got), show(want)), fn=pf, witness=fmt_trace(r.trace))

    # ---- HashClient: default_val of _run_cmd / _safely_run_func
    hashc = prog.cls("HashClient")
    n_h = 0
    for m in READS:
        cf, t, kind = shapes[m]
        hf = prog.method(hashc, m, required=False)
        if hf is None:
            r2.fail("HashClient.%s:missing" % m, "HashClient does not offer %s" % m, file=hashc.module.rel, line=hashc.node.lineno)
            continue
        target = hf
        # gets_many delegates to get_many(gets=True)
        deleg = [c for c in walk_no_nested(hf.node) if isinstance(c, ast.Call) and isinstance(c.func, ast.Attribute) and is_self_attr(c.func) and c.func.attr in READS and c.func.attr != m]
        if deleg:
            target = prog.method(hashc, deleg[0].func.attr)
        want = subst_defaults(t, cf, hf)
        found = []
        for c in walk_no_nested(target.node):
            if isinstance(c, ast.Call) and call_name(c) == "self._run_cmd" and len(c.args) >= 3:
                found.append((c, term(c.args[2], target, local_defs(target))))
            if isinstance(c, ast.Call) and call_name(c) == "self._safely_run_func" and len(c.args) >= 3:
                found.append((c, term(c.args[2], target, local_defs(target))))
        if not found:
            r2.fail("HashClient.%s:no-default" % m, "HashClient.%s does not go through _run_cmd/_safely_run_func" % m, fn=hf)
        for c, got in found:
            n_h += 1
            r2.expect(got == want, "HashClient.%s: default value %s == miss value" % (m, show(got)), "HashClient.%s:failure-shape" % m, "with ignore_exc (or no server left) HashClient.%s returns %s but a miss returns %s" % (m, show(got), show(want)), fn=target, node=c)
        if kind == "multi":
            # the merged result starts as {} and is what is returned when no server answers
            rets = sorted([r for r in walk_no_nested(target.node) if isinstance(r, ast.Return) and isinstance(r.value, ast.Name)], key=lambda r: r.lineno)
            init = local_defs(target).get(rets[-1].value.id) if rets else None
            empty = isinstance(init, ast.Dict) and not init.keys or (isinstance(init, ast.Call) and call_name(init) in ("dict", "OrderedDict", "collections.OrderedDict") and not init.args and not init.keywords)
            other = isinstance(init, (ast.Dict, ast.DictComp, ast.Constant, ast.List, ast.Tuple, ast.Set, ast.ListComp)) or (isinstance(init, ast.Call) and call_name(init) in ("dict", "OrderedDict", "collections.OrderedDict", "list", "set", "tuple"))
            if empty or other:
                r2.expect(empty, "HashClient.%s merges into an empty dict" % m, "HashClient.%s:merge-init" % m, "HashClient.%s starts its merged result as `%s`, not as an empty dict: that is what it returns when no server answers" % (m, node_src(init)), fn=target)
            else:
                r2.undecided("HashClient.%s:merge-init" % m, "the value HashClient.%s starts its merged result from (`%s`) is not a display or constructor this rule can read" % (m, node_src(init) if init is not None else "no single initialisation found"))
    r2.floor("HashClient default-value sites", n_h, 6)
    # what _run_cmd / _safely_run_func return on failure is that default
    # what _run_cmd / _safely_run_func hand out on failure is that default: both interpreted with their parameters as
    # symbols - _run_cmd with no client left for the key, _safely_run_func with the delegate raising under ignore_exc
    from .paths import Opaque

    class _DefaultDomain(Domain):
        async_enabled = False
        subscript_may_raise = False
        unpack_may_raise = False
        global_keys = ("#raised",)

        def __init__(self, prog, fn, delegate, raises):
            super().__init__(prog, fn)
            self.delegate, self.raises = delegate, raises

        def attr_load(self, objval, node, state):
            if is_self_attr(node, "ignore_exc"):
                return Const(True)
            return TOP

        def call(self, node, fval, args, kwargs, state):
            name = call_name(node)
            if name == "self._get_client":
                from .paths import TupleV

                return [("ok", TupleV((NONE, Opaque("param:key"))), state)]  # no server left for the key
            if fval == Opaque("param:" + self.delegate) and self.raises is not None:
                return [("exc", Exc(ORD, self.raises, node.lineno), state.set("#raised", 1))]
            if name.startswith("self._") and name.count(".") == 1 and name[5:] not in ("_mark_failed_server", "_retry_dead", "remove_server", "add_server"):
                m = self.prog.method(hashc, name[5:], required=False)
                if m is not None and m is not self.fn:
                    res = self.inline(node, m, args, kwargs, state)
                    if res is not None:
                        return res
            return [("ok", TOP, state)]

    def _default_rows(f, delegate, raises, key, what, msg):
        dvp = f.pos_params()[2].name if len(f.pos_params()) > 2 else None
        if dvp is None:
            r2.fail(key, "%s has no default-value parameter" % f.qualname, fn=f)
            return
        dom_ = _DefaultDomain(prog, f, delegate, raises)
        env_ = {p.name: Opaque("param:" + p.name) for p in f.params if p.name != "self"}
        outs_ = Interp(dom_, f.node, prog).run(Env(env_))
        rets_ = [(s_, v_) for s_, v_, t_ in outs_.of("ret") if raises is None or s_.get("#raised", 0)]
        if not rets_:
            r2.fail(key, "%s: no path returns a value when %s" % (f.qualname, what), fn=f, node=f.node)
            return
        bad_ = [v_ for s_, v_ in rets_ if v_ != Opaque("param:" + dvp)]
        lost_ = [v_ for v_ in bad_ if v_ is TOP]
        if bad_ and len(lost_) == len(bad_):
            r2.undecided(key, "%s: the value returned when %s is lost by the analysis" % (f.qualname, what))
        else:
            r2.expect(not bad_, "%s returns %s when %s" % (f.qualname, dvp, what), key, msg % (bad_[:1],), fn=f, node=f.node)

    rc = prog.method(hashc, "_run_cmd")
    _default_rows(rc, "<none>", None, "HashClient._run_cmd:no-server-value", "no server is left for the key", "_run_cmd does not return its default value when no client is available (it returns %s)")
    sf = prog.method(hashc, "_safely_run_func")
    fnp = sf.pos_params()[1].name if len(sf.pos_params()) > 1 else "func"
    for exc_cls in ("OSError", "Exception"):
        _default_rows(sf, fnp, exc_cls, "HashClient._safely_run_func:handler-value", "the delegate raises %s and ignore_exc is set" % exc_cls, "with ignore_exc, a delegate failing with " + exc_cls + " makes _safely_run_func return %s, not default_val")

    # ------------------------------------------------------------------ R3 coverage
    r3 = chk.rule("C07.R3", "with ignore_exc no ordinary exception from a network / parse / deserialise call can escape a read method")
    dom = SwallowDomain(prog, fetch, True)
    outs = Interp(dom, fetch.node, prog).run(Env())
    esc = {}
    for s, exc, t in outs.of("exc"):
        if exc.colour != ORD or exc.cls == "MemcacheIllegalInputError":
            continue
        esc.setdefault(exc.origin, t)
    for line, t in sorted(esc.items()):
        stmt = _stmt(fetch, line)
        r3.fail("Client.%s:uncovered:%s" % (fetch.name, stmt), "with ignore_exc an ordinary exception raised by `%s` escapes Client.%s: it is outside the try whose handler turns failures into a miss" % (stmt, fetch.name), fn=fetch, line=line, witness=fmt_trace(t))
    r3.floor("failure-capable call sites in the fetch exchange", dom.n_failing, 5)
    if not esc:
        r3.ok("Client.%s: every failing call (connect, sendall, readers, _raise_errors, deserialize) is covered by the swallowing handler" % fetch.name)
    n_cov = 0
    for m in READS:
        pf = prog.method(pooled, m, required=False)
        if pf is None or m not in pruns:
            continue
        n_cov += 1
        rr = [r for r in pruns[m] if r.ignore_exc and r.outcome == "raise"]
        if not any(r.state.get("#calls", ()) for r in rr):
            raise AnalysisError("C07.R3: no call on the pooled client found in PooledClient.%s" % m)
        bad = [r for r in rr if r.kind == "exc"]
        if bad:
            r3.fail("PooledClient.%s:uncovered" % m, "with ignore_exc a failure of the pooled client's call escapes PooledClient.%s" % m, fn=pf, line=bad[0].value.origin, witness=fmt_trace(bad[0].trace))
        else:
            r3.ok("PooledClient.%s: the delegate call is covered" % m, sample=False)
    # HashClient: _safely_run_func with ignore_exc: func() failures do not escape
    dom = SwallowDomain(prog, sf, True, only_receiver=("func",))
    outs = Interp(dom, sf.node, prog).run(Env())
    bad = [(exc, t) for s, exc, t in outs.of("exc") if exc.colour == ORD]
    if bad:
        r3.fail("HashClient._safely_run_func:uncovered", "with ignore_exc a failure of the routed call escapes _safely_run_func", fn=sf, line=bad[0][0].origin, witness=fmt_trace(bad[0][1]))
    else:
        r3.ok("HashClient._safely_run_func: failures of func(*args) never escape when ignore_exc is set")
    for m in READS:
        hf = prog.method(hashc, m, required=False)
        if hf is None:
            continue
        # the client is reached only through _run_cmd/_safely_run_func
        cvars = set()
        for n in walk_no_nested(hf.node):
            if isinstance(n, ast.Assign):
                v = n.value
                if isinstance(v, ast.Call) and call_name(v) == "self._get_client" and isinstance(n.targets[0], ast.Tuple) and isinstance(n.targets[0].elts[0], ast.Name):
                    cvars.add(n.targets[0].elts[0].id)
                if isinstance(v, ast.Subscript) and is_self_attr(v.value, "clients") and isinstance(n.targets[0], ast.Name):
                    cvars.add(n.targets[0].id)
        direct = [c for c in walk_no_nested(hf.node) if isinstance(c, ast.Call) and isinstance(c.func, ast.Attribute) and isinstance(c.func.value, ast.Name) and c.func.value.id in cvars]
        r3.expect(not direct, "HashClient.%s reaches clients only through the safe runner" % m, "HashClient.%s:direct-client-call" % m, "HashClient.%s calls `%s` outside _safely_run_func" % (m, node_src(direct[0]) if direct else ""), fn=hf)
    r3.floor("PooledClient read methods analysed", n_cov, 6)
    from . import rules_C09 as _c09, report as _rep

    _rep.include_rules(chk, r3, _c09, ("C09.R3",), "nothing that can fail runs on the way into a pooled read, outside its swallowing handler (inner clients raise, the pool's clean-up callback only closes)")
    r5 = chk.rule("C07.R5", "Client's read methods, evaluated end to end with ignore_exc set against 17 fault plans each (refused connection, failed send, time-out, close, error / garbage / malformed lines at every reply position, undeserialisable item): never raise, return the miss value")
    n5 = client_fault_rows(prog, r5)
    from .rules_C05 import size_thresholds

    size_thresholds(prog, r5)
    r5.floor("method x fault plan rows", n5, 90)
    r4 = chk.rule("C07.R4", "still usable: reads are routed through the current rotation, so an evicted server is not contacted again (its repeated failure would raise from the failover bookkeeping even with ignore_exc)")
    from . import rules_C12, report

    report.include_rules(chk, r4, rules_C12, ("C12.R2",), "HashClient reads reach only servers the hasher currently has in rotation")
    from . import rules_C13

    report.include_rules(chk, r4, rules_C13, ("C13.R5",) + (("C13.R7",) if getattr(chk, "included_for", None) is None else ()), "with ignore_exc nothing escapes a HashClient read in any failover state: not the failing server's error, not an error of the bookkeeping or of a revival probe")
    report.include_rules(chk, r4, rules_C12, ("C12.R3",), "a multi-key read contacts each server once: a second batch for a server that has just been taken out of rotation fails outside the handler that turns failures into misses")
    chk.assume("exceptions raised by HashClient's own bookkeeping inside the failover handlers are otherwise not decided here (C13)")
    chk.assume("input validation errors (MemcacheIllegalInputError) are not server/network failures and may be raised")


FAULT_PLANS = None


def fault_plans():
    """(description, reply script, fault) - what the connection does to one read call."""
    from . import spec

    V1, V1C, D = b"VALUE k1 0 3", b"VALUE k1 0 3 7", b"abc"
    plans = []
    for cas in (False, True):
        v = V1C if cas else V1
        plans.append((cas, [
            ("connection refused", (), "connect"),
            ("send fails", (), "send"),
            ("time-out before any reply", (), None),
            ("connection closed before any reply", (spec.CLOSE,), None),
            ("ERROR reply", (b"ERROR",), None),
            ("SERVER_ERROR reply", (b"SERVER_ERROR out of memory",), None),
            ("CLIENT_ERROR reply", (b"CLIENT_ERROR bad command line format",), None),
            ("unparseable reply line", (b"BOGUS",), None),
            ("VALUE line with a missing field", (b"VALUE k1 0", D, b"END"), None),
            ("VALUE line with a non-numeric size", (b"VALUE k1 0 x" + (b" 7" if cas else b""), D, b"END"), None),
            ("connection closed inside the data block", (v, spec.CLOSE), None),
            ("time-out after the data block", (v, D), None),
            ("connection closed before END", (v, D, spec.CLOSE), None),
            ("garbage instead of END", (v, D, b"BOGUS"), None),
            ("error reply after a value", (v, D, b"SERVER_ERROR out of memory"), None),
            ("value for a key that was not asked for", (v.replace(b"k1", b"k9"), D, b"END"), None),
            ("undeserialisable item", (v, D, b"END"), "deserialize"),
        ]))
    return dict(plans)


def client_fault_rows(prog, r5):
    """Client's read methods evaluated end to end (pmcsa/rules_C05.script_eval) with ignore_exc set, against every
    fault plan: the call never raises and returns exactly what the same call returns for a miss."""
    from .rules_C05 import script_eval, judge, settle, _show

    n = 0
    plans = fault_plans()
    for mname in READS:
        f = prog.method("Client", mname, required=False)
        if f is None:
            continue
        miss = script_eval(prog, mname, (b"END",), ignore_exc=True, full=True)
        from .colls import deref

        mv = {deref(v, s) for s, v, t in miss.of("ret")}
        if len(mv) != 1 or miss.of("exc"):
            r5.undecided("Client.%s:miss-value" % mname, "the miss value of Client.%s could not be evaluated (%s)" % (mname, sorted(map(_show, mv))))
            continue
        mval = next(iter(mv))
        for desc, script, fault in plans["gets" in mname or "gats" in mname]:
            n += 1
            outs = script_eval(prog, mname, script, ignore_exc=True, fault=fault, full=True)
            st, got, w = judge(outs, "ret", lambda v: v == mval)
            settle(r5, st, "Client.%s, %s -> %s" % (mname, desc, _show(mval)), "Client.%s:fault:%s" % (mname, desc.replace(" ", "-")), "with ignore_exc set, Client.%s %s when the fault is `%s`; a miss returns %s" % (mname, got, desc, _show(mval)), f, w)
    return n


def _stmt(fn, line):
    from .rules_C06 import stmt_at

    return stmt_at(fn.node, line)
