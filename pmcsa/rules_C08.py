"""C08 - pooled connections are never shared between threads (lock discipline, decided structurally)."""
import ast

from .model import AnalysisError, node_src, is_self_attr, call_name
from .paths import fmt_trace, ORD
from . import poolpaths
from .report import walk_no_nested

LEVEL = "other"
LEVEL_TEXT = (
    "Lockset, atomicity (check-then-act in one lock hold), ownership-by-removal and no-re-entrancy rules decided on "
    "every path of every ObjectPool method with the path interpreter, plus the bracket / non-escape rule over all "
    "PooledClient methods. These are facts about all schedules because they do not depend on the schedule. What the "
    "atomic bookkeeping steps add up to is decided on sequential histories (R6 = C09.R8): ObjectPool interpreted on a "
    "concrete pool under every order of get / release / destroy / clear to a depth bound. Absence of internal errors "
    "under interleavings *inside* a method beyond the lock discipline is not decided."
)
TRUSTED = ["CPython ast", "pmcsa/paths.py", "language guarantee: `with lock:` releases on every exit", "lock_generator() returns a mutual-exclusion context manager"]

SNAPSHOT_PROPERTIES = {"used": "read-only diagnostic snapshot tuple(deque); performs no write", "free": "read-only diagnostic snapshot tuple(deque); performs no write"}


def run(chk):
    prog = chk.prog
    pool = prog.cls("ObjectPool")
    fields, locks = poolpaths.guarded_fields(prog)
    r1 = chk.rule("C08.R1", "every access to a guarded deque outside __init__ happens with the pool lock held")
    r1.floor("guarded deques", len(fields), 2)
    if len(locks) != 1:
        raise AnalysisError("C08: expected exactly one lock attribute used in `with self.<lock>:`, found %s" % locks)
    lock = locks[0]
    r2 = chk.rule("C08.R2", "check-then-act is atomic: a write to a guarded deque is in the same lock hold as the reads it depends on")
    r3 = chk.rule("C08.R3", "ownership by removal: _after_remove / hand-over only for objects this thread removed from a deque within a hold")
    r4 = chk.rule("C08.R4", "no re-entrancy: nothing called while the lock is held can acquire it again; the lock is only used via `with`")
    # "removed by this thread" means removed by *identity*: deque.remove(obj) compares with ==, so the pooled objects
    # must not define value equality (two clients for the same server would be interchangeable and one thread would
    # take the other's connection out of the books)
    pooled_classes = [c for c in prog.classes.values() if c.name == "Client" or "Client" in [b for b in getattr(c, "bases", [])]]
    for c in pooled_classes:
        for special in ("__eq__", "__ne__", "__hash__", "__lt__"):
            mth = c.methods.get(special)
            if mth is not None and mth.cls is c:
                r3.fail("%s:%s-defined" % (c.name, special), "%s defines %s: the pool finds the object to release or destroy with deque.remove(obj), which uses ==; with value equality a thread can remove another thread's (equal) connection from the books and the pool no longer knows which connections are in use" % (c.name, special), fn=mth, node=mth.node)
    r3.ok("pooled client classes (%s) keep identity equality" % ", ".join(sorted(c.name for c in pooled_classes)))
    methods = [m for m in pool.methods.values() if m.name != "__init__"]
    n_acc = 0
    lock_holders = set()
    for m in methods:
        for n in walk_no_nested(m.node):
            if isinstance(n, ast.With) and any(is_self_attr(it.context_expr, lock) for it in n.items):
                lock_holders.add(m.name)
    # private helpers that other pool methods call are analysed in their callers' context (inlined): a helper that
    # documents "the lock must be held" is only ever entered with the lock held if all its call sites hold it
    called_helpers = set()
    for m in methods:
        for n in walk_no_nested(m.node):
            if isinstance(n, ast.Call) and isinstance(n.func, ast.Attribute) and is_self_attr(n.func) and n.func.attr.startswith("_") and not n.func.attr.startswith("__") and n.func.attr in pool.methods and n.func.attr != m.name:
                called_helpers.add(n.func.attr)
    for m in methods:
        touches = [n for n in walk_no_nested(m.node) if is_self_attr(n) and n.attr in fields]
        if not touches and m.name not in lock_holders and not any(isinstance(n, ast.Call) and isinstance(n.func, ast.Attribute) and is_self_attr(n.func) and n.func.attr in called_helpers for n in walk_no_nested(m.node)):
            continue
        if m.name in called_helpers:
            r1.note("ObjectPool.%s is a private helper analysed through its callers" % m.name)
            continue
        variants = [None]
        if m.param("silent") is not None:
            variants = [True, False]
        for silent in variants:
            fn, dom, outs, interp = poolpaths.run_pool_method(prog, m.name, fields, lock, silent=silent)
            n_acc += len(dom.accesses)
            exempt = m.name in SNAPSHOT_PROPERTIES and "property" in m.decorators
            if exempt:
                only_reads = all(k == "read" for f, k, n, s in dom.accesses)
                r1.expect(only_reads, "%s: exempt read-only snapshot property (%s)" % (m.name, SNAPSHOT_PROPERTIES[m.name]), "ObjectPool.%s:snapshot-property-writes" % m.name, "the exempted snapshot property %s writes a guarded deque" % m.name, fn=fn)
            else:
                seen = set()
                for field, kind, node in dom.unlocked:
                    key = "ObjectPool.%s:unlocked-%s-of-%s" % (m.name, kind, field)
                    if key in seen:
                        continue
                    seen.add(key)
                    r1.fail(key, "`%s` %s self.%s without holding self.%s" % (node_src(node), {"read": "reads", "rw": "modifies", "write": "writes"}[kind], field, lock), fn=fn, node=node)
                if not dom.unlocked:
                    r1.ok("ObjectPool.%s%s: %d guarded accesses, all under the lock" % (m.name, "" if silent is None else "(silent=%s)" % silent, len(dom.accesses)))
            for construct, msg, node in dom.problems:
                rule = r2 if construct.startswith("check-then-act") else (r4 if construct in ("lock-reacquired", "explicit-lock-call") else r3)
                if construct.startswith(("create-before-reuse", "idle-comparison", "fresh-object")):
                    continue  # C09's rules
                rule.fail("ObjectPool.%s:%s" % (m.name, construct), msg, fn=fn, node=node)
            if not any(c.startswith("check-then-act") for c, _, _ in dom.problems):
                r2.ok("ObjectPool.%s%s: every writing hold re-reads or is the first hold" % (m.name, "" if silent is None else "(silent=%s)" % silent), sample=False)
            # R3: objects appended to the free deque were removed from the used deque in the same hold; objects
            # returned by get() were appended to the used deque
            for (field, kind, node, st) in dom.accesses:
                if kind == "write" and isinstance(node, ast.Call) and isinstance(node.func, ast.Attribute) and node.func.attr in ("append", "appendleft", "add") and node.args and isinstance(node.args[0], ast.Name):
                    nm = node.args[0].id
                    v = st.get(nm)
                    if isinstance(v, poolpaths.Obj) and v.origin == "param":
                        rm = st.get(("removed", nm), None)
                        ok = rm is not None and rm[1] == st.get("#epoch") and rm[0] != field
                        r3.expect(ok, "ObjectPool.%s: `%s` appended to %s only after being removed from the other deque in the same hold" % (m.name, nm, field), "ObjectPool.%s:append-of-unremoved:%s" % (m.name, field), "`%s` puts an object into self.%s that this thread has not just removed from the other deque in the same lock hold (removed=%s): it can be listed twice or handed to two threads" % (node_src(node), field, rm), fn=fn, node=node)
            if m.name == "get":
                for s, v, t in outs.of("ret"):
                    # the returned variable must be in the used deque
                    inused = [k for k in s.d if isinstance(k, tuple) and k[0] == "in" and "used" in k[1]]
                    r3.expect(bool(inused), "get(): returned object was appended to the used deque in the hold", "ObjectPool.get:returns-unregistered-object", "get() can return an object that was not appended to the used deque", fn=fn, witness=fmt_trace(t))
            if not [p for p in dom.problems if p[0].startswith(("after-remove", "closed-twice"))]:
                r3.ok("ObjectPool.%s: every _after_remove argument is owned by the calling thread" % m.name, sample=False)
            # R4 calls while held
            for name, node in dom.calls_held:
                if name.startswith("self.") and name.count(".") == 1 and name[5:] in pool.methods and name[5:] in lock_holders:
                    r4.fail("ObjectPool.%s:calls-%s-while-locked" % (m.name, name[5:]), "%s is called while the non-reentrant lock is held; it acquires the same lock (self-deadlock)" % name, fn=fn, node=node)
    r1.floor("guarded accesses analysed", n_acc, 12)
    # R4: callbacks resolved from the construction site in PooledClient.__init__
    pooled = prog.cls("PooledClient")
    init = prog.method(pooled, "__init__")
    ctor = [n for n in walk_no_nested(init.node) if isinstance(n, ast.Call) and call_name(n).endswith("ObjectPool")]
    r4.floor("ObjectPool construction sites in PooledClient", len(ctor), 1)
    # the callbacks, resolved to the functions that run: a lambda, a method of PooledClient, `Client.close`, a function
    from . import pooled as pooled_cb

    _, constructions = pooled_cb.pool_constructions(prog)
    roots = set()
    for n, oc, ar in constructions:
        for what, expr in (("obj_creator", oc), ("after_remove", ar)):
            if expr is None:
                if what == "obj_creator":
                    r4.fail("PooledClient.__init__:obj_creator", "the pool is constructed without an obj_creator", fn=init, node=n)
                continue
            cb = pooled_cb.resolve_callback(prog, pooled, expr, init)
            if cb is None:
                r4.undecided("PooledClient.__init__:%s" % what, "the %s callback `%s` is not a lambda, method or function this analysis can follow" % (what, node_src(expr)))
                continue
            bodies = pooled_cb.callback_closure(prog, pooled, cb)
            touching = [x for b in bodies for x in ast.walk(b) if (isinstance(x, ast.Attribute) and x.attr in ("client_pool", "get_and_release"))]
            r4.expect(not touching, "%s callback `%s` (and the private methods it calls) never touches the pool" % (what, node_src(expr, 40)), "PooledClient.__init__:%s-touches-pool" % what, "the %s callback `%s` runs while the pool's non-reentrant lock is held and touches self.client_pool: it deadlocks on the lock it is called under" % (what, node_src(expr, 40)), fn=init, node=touching[0] if touching else n)
            if cb.kind.startswith("unbound:") and cb.kind.split(":")[1].split(".")[0] == "Client":
                roots.add(cb.kind.split(".")[-1])
            for b in bodies:
                for x in ast.walk(b):
                    if isinstance(x, ast.Call):
                        cn = call_name(x)
                        if cn in ("self.client_class", "Client") or cn.endswith(".client_class"):
                            roots.add("__init__")
                        elif what == "after_remove" and isinstance(x.func, ast.Attribute) and isinstance(x.func.value, ast.Name) and cb.params and x.func.value.id == cb.params[0]:
                            roots.add(x.func.attr)
    r4.floor("Client methods the pool callbacks start (constructor, close)", len(roots), 2)
    reach = _client_closure(prog, sorted(roots))
    bad = []
    for q in reach:
        f = prog.method("Client", q)
        for n in walk_no_nested(f.node):
            if isinstance(n, ast.Attribute) and n.attr in ("client_pool", "get_and_release") or (isinstance(n, ast.Name) and n.id == "pool"):
                bad.append((f, n))
    for f, n in bad:
        r4.fail("%s:callback-touches-pool" % f.qualname, "%s (reachable from the pool callbacks run under the lock) touches the pool" % f.qualname, fn=f, node=n)
    if not bad:
        r4.ok("callbacks run under the lock (%s; %d Client methods reachable) never touch the pool" % (", ".join("Client." + q for q in sorted(roots)), len(reach)))

    # ---------------- R6 = C09.R8: the lock rules make each method's bookkeeping atomic; that the books stay right under
    # every *order* of those atomic steps is decided on sequential histories
    from . import poolhist

    r6 = chk.rule("C08.R6", "sequential histories of the pool keep the books (as C09.R8): never listed twice, never more than max_size, closed exactly once, never handed to two holders")
    poolhist.pool_histories(prog, r6, chk.tier)

    # ---------------- R5 bracket and non-escape
    r5 = chk.rule("C08.R5", "every PooledClient method obtains its client through `with client_pool.get_and_release(...) as client` (or checks it out and gives it back itself, and does not touch it afterwards) and the client does not escape")
    n_br = 0
    from . import pooled as pooled_an

    holds = pooled_an.analyse_holds(prog)
    for name, runs in sorted(pooled_an.analyse(prog).items()):
        m = pooled.methods[name]
        raw = sorted({x for r in runs for x in r.state.get("#raw", ())})
        if name in holds:
            # a hand-made bracket (client_pool.get() ... release/destroy): for this property what counts is that the
            # client is used by this call only while it is checked out (that it is given back on every exit is C09 / C10)
            late = sorted({x for r in holds[name] for x in r.state.get("#late_use", ())})
            for x in late:
                r5.fail("PooledClient.%s:use-after-give-back" % name, "PooledClient.%s: %s - another thread may have been handed the same client by then" % (name, x), fn=m, node=m.node)
            raw = [x for x in raw if x != "client_pool.get()"]
        esc = sorted({x for r in runs for x in r.state.get("#escapes", ())} | {"returned to the caller" for r in runs if r.kind == "ret" and r.value == pooled_an.PC})
        used = any(r.state.get("#calls", ()) for r in runs)
        bracketed = all(r.state.get("#brackets", ()) or (name in holds and "client_pool.get()" in r.state.get("#raw", ())) for r in runs if r.state.get("#calls", ()))
        for x in raw:
            r5.fail("PooledClient.%s:raw-%s" % (name, x.split(".")[1].rstrip("()")), "PooledClient.%s calls %s directly instead of the get_and_release bracket" % (name, x), fn=m, node=m.node)
        if esc:
            r5.fail("PooledClient.%s:client-escapes" % name, "the pooled client escapes the bracket in PooledClient.%s: %s" % (name, "; ".join(esc)), fn=m, node=m.node)
        if used and not bracketed:
            r5.fail("PooledClient.%s:call-outside-bracket" % name, "PooledClient.%s calls the pooled client on a path that did not enter the bracket" % name, fn=m, node=m.node)
        if used and bracketed and not esc and not raw:
            n_br += 1
            r5.ok("PooledClient.%s: client obtained through the bracket and used only as call receiver" % name, sample=(n_br < 3))
        elif not used and not raw:
            r5.fail("PooledClient.%s:no-delegate-call" % name, "PooledClient.%s never calls the pooled client" % name, fn=m, node=m.node)
    r5.floor("PooledClient methods using the bracket", n_br if not r5.findings else 24, 24)
    # the bracket itself must be private to the calling thread: a generator-based context manager (fresh frame per call)
    # or a freshly constructed object; one context-manager object shared by all callers would hold "the" checked-out
    # object in shared state
    gar = prog.method(pool, "get_and_release")
    if any("contextmanager" in d for d in gar.decorators):
        r5.ok("get_and_release is a generator context manager: the checked-out object lives in a per-call frame")
    else:
        rets = [r for r in walk_no_nested(gar.node) if isinstance(r, ast.Return) and r.value is not None]
        if not rets:
            r5.fail("ObjectPool.get_and_release:no-context", "get_and_release returns nothing usable as a context manager", fn=gar, node=gar.node)
        for r in rets:
            v = r.value
            root = v
            while isinstance(root, (ast.Attribute, ast.Subscript)):
                root = root.value
            shared = isinstance(v, (ast.Attribute, ast.Subscript)) and isinstance(root, ast.Name) and root.id == "self"
            fresh = isinstance(v, ast.Call) and isinstance(v.func, ast.Name) and v.func.id in pool.module.classes
            if shared:
                r5.fail("ObjectPool.get_and_release:shared-context-object", "get_and_release returns `%s`, an object kept on the pool and therefore handed to every caller: two threads inside the bracket at the same time share its state (which connection is checked out), so one thread releases or destroys the other's in-flight connection" % node_src(v), fn=gar, node=r)
            elif fresh:
                r5.ok("get_and_release returns a freshly constructed %s per call" % v.func.id)
            else:
                raise AnalysisError("C08.R5: cannot tell whether the object returned by get_and_release (`%s`) is private to the caller" % node_src(v))
    # pooled clients are obtained nowhere else in the package
    for f in prog.all_functions():
        if f.cls is not None and f.cls.name in ("ObjectPool",):
            continue
        if f.cls is not None and f.cls.name == "PooledClient" and (f.name in holds or f.name.startswith("_")):
            continue  # a hand-made bracket, interpreted above (private helpers are interpreted in the methods that call them)
        for n in walk_no_nested(f.node):
            if isinstance(n, ast.Call) and isinstance(n.func, ast.Attribute) and n.func.attr in ("get",) and isinstance(n.func.value, ast.Attribute) and n.func.value.attr == "client_pool":
                r5.fail("%s:client_pool.get" % f.qualname, "client_pool.get() is called outside get_and_release", fn=f, node=n)
    chk.assume("lock_generator() returns a mutual-exclusion context manager (default threading.Lock)")
    chk.assume("tuple(deque) in the `used`/`free` snapshot properties runs without releasing the GIL; diagnostics only")


def _client_closure(prog, roots):
    client = prog.cls("Client")
    seen, todo = set(), list(roots)
    while todo:
        q = todo.pop()
        if q in seen or prog.method(client, q, required=False) is None:
            continue
        seen.add(q)
        f = prog.method(client, q)
        for n in walk_no_nested(f.node):
            if isinstance(n, ast.Call) and isinstance(n.func, ast.Attribute) and is_self_attr(n.func):
                todo.append(n.func.attr)
    return sorted(seen)


def _escapes(withnode, var):
    """How the bracket variable escapes, or None.  Allowed: receiver of a call `var.m(...)`, argument of
    self.client_pool.destroy(var)."""
    for n in ast.walk(withnode):
        if isinstance(n, ast.Name) and n.id == var and isinstance(n.ctx, ast.Load):
            p = getattr(n, "_parent", None)
            if isinstance(p, ast.Attribute) and p.value is n:
                pp = getattr(p, "_parent", None)
                if isinstance(pp, ast.Call) and pp.func is p:
                    continue
                return ("attribute `%s` taken without calling it (bound method / field escapes)" % node_src(p), n)
            if isinstance(p, ast.Call) and isinstance(p.func, ast.Attribute) and p.func.attr == "destroy" and isinstance(p.func.value, ast.Attribute) and p.func.value.attr == "client_pool":
                continue
            return ("used as `%s`" % node_src(p), n)
        if isinstance(n, (ast.Lambda, ast.FunctionDef)) and any(isinstance(x, ast.Name) and x.id == var for x in ast.walk(n)):
            return ("captured by a nested function", n)
    return None
