"""Protocol and contract tables used by the checks (from memcached protocol.txt and pymemcache's documented API)."""
import re

STORE_VERBS = ("set", "add", "replace", "append", "prepend")

# wire grammar per verb over rendered fragments (see wire.render): ‹K› key, ‹I› checked integer, ‹L› length of data,
# ‹D› the data block, ‹K+› one or more space separated keys
GRAMMAR = {}
for v in STORE_VERBS:
    GRAMMAR[v] = re.compile(r"^%s ‹K› ‹I› ‹I› ‹L›( noreply)?\r\n‹D›\r\n$" % v)
GRAMMAR["cas"] = re.compile(r"^cas ‹K› ‹I› ‹I› ‹L› ‹I›( noreply)?\r\n‹D›\r\n$")
GRAMMAR["get"] = re.compile(r"^get (‹K›|‹K\+›)\r\n$")
GRAMMAR["gets"] = re.compile(r"^gets (‹K›|‹K\+›)\r\n$")
GRAMMAR["gat"] = re.compile(r"^gat ‹I› (‹K›|‹K\+›)\r\n$")
GRAMMAR["gats"] = re.compile(r"^gats ‹I› (‹K›|‹K\+›)\r\n$")
GRAMMAR["delete"] = re.compile(r"^delete ‹K›( noreply)?\r\n$")
GRAMMAR["incr"] = re.compile(r"^incr ‹K› ‹I›( noreply)?\r\n$")
GRAMMAR["decr"] = re.compile(r"^decr ‹K› ‹I›( noreply)?\r\n$")
GRAMMAR["touch"] = re.compile(r"^touch ‹K› ‹I›( noreply)?\r\n$")
GRAMMAR["flush_all"] = re.compile(r"^flush_all ‹I›( noreply)?\r\n$")
GRAMMAR["version"] = re.compile(r"^version\r\n$")
GRAMMAR["quit"] = re.compile(r"^quit\r\n$")
GRAMMAR["shutdown"] = re.compile(r"^shutdown( graceful)?\r\n$")
GRAMMAR["stats"] = re.compile(r"^stats( (‹K›|‹K\+›))?\r\n$")
GRAMMAR["cache_memlimit"] = re.compile(r"^cache_memlimit (‹K›|‹K\+›)\r\n$")

# which verb each public method of Client sends
METHOD_VERB = {"set_many": "set", "get_many": "get", "gets_many": "gets", "delete_many": "delete"}
EXEMPT_FROM_GRAMMAR = {"raw_command": "sends the caller's command verbatim by contract"}

# accepted reply tokens per store verb and their documented return values
STORE_REPLIES = {v: (b"STORED", b"NOT_STORED") for v in STORE_VERBS}
STORE_REPLIES["cas"] = (b"STORED", b"EXISTS", b"NOT_FOUND")
STORE_VALUES = {b"STORED": True, b"NOT_STORED": False, b"NOT_FOUND": None, b"EXISTS": False}

# reply -> documented return value for the misc commands ("RAISE:<cls>" = must raise)
REPLY_TABLE = {
    "delete": {b"DELETED": True, b"NOT_FOUND": False},
    "touch": {b"TOUCHED": True, b"NOT_FOUND": False},
    "flush_all": {b"OK": True},
    "incr": {b"5": 5, b"18446744073709551615": 18446744073709551615, b"0": 0, b"NOT_FOUND": None},
    "decr": {b"5": 5, b"0": 0, b"NOT_FOUND": None},
    "version": {b"VERSION 1.6.21": b"1.6.21", b"VERSION 1.4.5 extra": b"1.4.5 extra", b"garbage": "RAISE:MemcacheUnknownError"},
}
NOREPLY_CONSTANT = {"set": True, "add": True, "replace": True, "append": True, "prepend": True, "cas": True, "set_many": [], "delete": True, "delete_many": True, "touch": True, "flush_all": True, "incr": None, "decr": None}
NOREPLY_DEFAULT_NONE = ("set", "add", "replace", "append", "prepend", "set_many", "delete", "delete_many", "touch", "flush_all")
NOREPLY_DEFAULT_FALSE = ("cas", "incr", "decr")
EXPECT_CAS = {"get": False, "get_many": False, "gat": False, "gets": True, "gets_many": True, "gats": True, "stats": False, "cache_memlimit": False}
