"""Abstract wire-fragment evaluation of Client's public methods (kind A, fragment domain).

Every public method of Client that reaches an exchange function (one containing <sock>.sendall) is
interpreted with the path interpreter over a domain in which a bytes value is a *sequence of fragments*:

  lit(b"...")          literal protocol text
  key(src, prefix)     result of check_key / check_key_helper applied to src with that prefix
  int(src, how)        result of _check_integer / _check_cas / str(len(..)).encode()
  len(d) / data(d)     length prefix and payload of the same converted data value d
  rep(patterns, sep)   join of a list whose elements were appended in a loop
  taint(v)             anything else derived from a caller-supplied value

The exchange function is inlined at its call site (parameters bound to the caller's abstract values), so the
verb, the noreply token and the noreply argument are related per call site.  Branches on caller-controlled
truth values (noreply, cas is not None, flags is not None, graceful ...) fork; each path that reaches sendall
yields one *wire variant* together with the assumptions it was derived under.
"""
import ast
from collections import namedtuple

from .model import AnalysisError, NotConst, fold, node_src, is_self_attr, call_name
from .paths import Interp, Domain, Env, TOP, Const, Neq, NONE, Opaque, TupleV, Exc, ORD, ASYNC, fmt_trace, _hashable
from .report import walk_no_nested

P = namedtuple("P", "name")  # parameter of the public method
SelfAttr = namedtuple("SelfAttr", "name")
Elem = namedtuple("Elem", "of")
ItemKey = namedtuple("ItemKey", "of")
ItemVal = namedtuple("ItemVal", "of")
ItemsOf = namedtuple("ItemsOf", "of")
ListOf = namedtuple("ListOf", "of")
B = namedtuple("B", "frags")
Key = namedtuple("Key", "src prefix")
class ListV(namedtuple("ListV", "items loop tail")):
    """items: the display; tail: ((site, value), ...) appended in straight-line code, in order; loop: patterns appended
    by a site that executed more than once (a loop), order and count unknown."""

    def __new__(cls, items, loop=frozenset(), tail=()):
        return super().__new__(cls, tuple(items), frozenset(loop), tuple(tail))

    @property
    def seq(self):
        return self.items + tuple(v for _, v in self.tail)
CompList = namedtuple("CompList", "elems src")
Splice = namedtuple("Splice", "of")  # inside a ListV: the elements of another collection, spliced in by extend()
DictV = namedtuple("DictV", "items")
SerData = namedtuple("SerData", "of")
SerFlags = namedtuple("SerFlags", "of")
AsBytes = namedtuple("AsBytes", "of")  # value known to be bytes (isinstance test true)
NotBytes = namedtuple("NotBytes", "of")
StrOf = namedtuple("StrOf", "of")
LenOf = namedtuple("LenOf", "of")
DataB = namedtuple("DataB", "of how")  # converted payload
Meth = namedtuple("Meth", "obj attr")
Encoded = namedtuple("Encoded", "of codec")

SANITIZERS = ("check_key", "_check_integer", "_check_cas")


def to_frags(v):
    if isinstance(v, B):
        return v.frags
    if isinstance(v, Const) and isinstance(v.v, bytes):
        return (("lit", v.v),) if v.v else ()
    if isinstance(v, Key):
        return (("key", v.src, v.prefix),)
    if isinstance(v, DataB):
        return (("data", v),)
    if isinstance(v, AsBytes):
        return (("data", DataB(v.of, "asis")),)
    return (("taint", v),)


WIDENED = Opaque("#widened")  # a byte string that grew beyond what is tracked (built up in a loop this domain cannot summarise)
MAX_FRAGS = 40


def lost(frags):
    """Does the command contain a piece whose value the analysis lost (unknown, or widened)?  Then nothing can be
    concluded from what is *not* seen in it."""
    for f in frags:
        if f[0] == "taint" and (f[1] is TOP or f[1] == WIDENED):
            return True
        if f[0] == "rep" and any(isinstance(x, B) and lost(x.frags) for x in f[1]):
            return True
    return False


def cat(a, b):
    fr = list(to_frags(a)) + list(to_frags(b))
    if any(f == ("taint", WIDENED) for f in fr):
        return B((("taint", WIDENED),))
    out = []
    for f in fr:
        if out and out[-1][0] == "lit" and f[0] == "lit":
            out[-1] = ("lit", out[-1][1] + f[1])
        else:
            out.append(f)
    if len(out) > MAX_FRAGS:
        # widening: the fixpoint over a loop that keeps appending must end; what is sent is then not known
        return B((("taint", WIDENED),))
    return B(tuple(out))


class FragDomain(Domain):
    async_enabled = False
    subscript_may_raise = False
    unpack_may_raise = False
    global_keys = ("#sent",)
    max_inline_depth = 4

    def __init__(self, prog, public_fn, exchange_names):
        super().__init__(prog, public_fn)
        self.public = public_fn
        self.exchange_names = exchange_names
        self.events = []  # wire variants
        self.order_violations = []  # sanitizer after send
        self.sanitizer_sites = set()

    # ---- truth bookkeeping ------------------------------------------------------
    def truth(self, v, state=None):
        if isinstance(v, Const):
            return super().truth(v, state)
        if isinstance(v, (B,)):
            if any(f[0] in ("lit", "key", "int", "len") for f in v.frags):
                return True
            return None if v.frags else False
        if isinstance(v, Key):
            return None
        if isinstance(v, ListV):
            if v.seq:
                return True
            # elements reach the loop set only from an append site that has executed: the list is not empty
            return bool(v.loop)
        if isinstance(v, DictV):
            return bool(v.items)
        if isinstance(v, TupleV):
            return bool(v.items)
        if isinstance(v, (ListOf,)):
            return self.truth(v.of, state)
        if isinstance(v, CompList):
            return self.truth(v.src, state)
        if isinstance(v, Meth):
            return True
        if state is not None and _hashable(v):
            return state.get(("truth", v), None)
        return None

    def assume(self, expr, value, branch, state):
        t = self.truth(value, state)
        if t is not None:
            return state if t == branch else None
        # isinstance(x, bytes) refinement
        if isinstance(expr, ast.Call) and call_name(expr) == "isinstance" and len(expr.args) == 2 and isinstance(expr.args[0], ast.Name) and isinstance(expr.args[1], ast.Name) and expr.args[1].id == "bytes":
            nm = expr.args[0].id
            cur = state.get(nm, TOP)
            if isinstance(cur, (AsBytes, DataB)):
                return state if branch else None
            if isinstance(cur, NotBytes):
                return None if branch else state
            return state.set(nm, AsBytes(cur) if branch else NotBytes(cur))
        if value is TOP or not _hashable(value):
            return state
        if isinstance(value, (ListOf, CompList)):
            value = value.of if isinstance(value, ListOf) else value.src
            if value is TOP or not _hashable(value):
                return state
        st = state.set(("truth", value), branch)
        if branch:
            st = st.set(("isnone", value), False)
        return st

    def compare(self, node, op, l, r, state):
        if isinstance(op, (ast.Is, ast.IsNot, ast.Eq, ast.NotEq)):
            for a, b in ((l, r), (r, l)):
                if b == NONE and not isinstance(a, Const) and _hashable(a) and a is not TOP:
                    k = state.get(("isnone", a), None)
                    if k is None and isinstance(a, (B, Key, ListV, DictV, TupleV, DataB, AsBytes, Meth, ListOf, CompList)):
                        k = False
                    if k is not None:
                        return Const(k if isinstance(op, (ast.Is, ast.Eq)) else not k)
                    return TOP
        return super().compare(node, op, l, r, state)

    def refine_compare(self, node, op, lexpr, l, rexpr, r, branch, state):
        if isinstance(op, (ast.Is, ast.IsNot, ast.Eq, ast.NotEq)):
            for a, b in ((l, r), (r, l)):
                if b == NONE and a is not TOP and _hashable(a) and not isinstance(a, Const):
                    isnone = isinstance(op, (ast.Is, ast.Eq)) == branch
                    st = state.set(("isnone", a), isnone)
                    if isnone:
                        st = st.set(("truth", a), False)
                    return st
        return state

    # ---- loads -------------------------------------------------------------------
    def name_load(self, name, state, node=None):
        if state.has(name):
            return state.get(name)
        return TOP

    def attr_load(self, objval, node, state):
        if is_self_attr(node):
            return state.get("self." + node.attr, SelfAttr(node.attr))
        if objval is TOP:
            return TOP
        return Meth(objval, node.attr)

    def make_list(self, items, node, state):
        return ListV(tuple(items), frozenset())

    def make_dict(self, keys, values, node, state):
        return DictV(tuple(zip(keys, values)))

    def comprehension(self, node, elem_values, state):
        src = TOP
        it = node.generators[0].iter
        if isinstance(it, ast.Name):
            src = state.get(it.id, TOP)
        elems = frozenset(v[0] if len(v) == 1 else TupleV(tuple(v)) for v in elem_values if all(_hashable(x) for x in v))
        if isinstance(node, ast.DictComp):
            return TOP
        return CompList(elems, src)

    def for_next(self, node, itval, state):
        if isinstance(node, ast.For):
            # (a comprehension over the same collections stands for one or more elements, see `rep`: a statement loop
            # over them is entered at least once as well - the empty batch is C05's end-to-end rows' business)
            state = state.set(("#entered", node.lineno), 1)
        return self._for_next(node, itval, state)

    def for_exhausted(self, node, itval, state):
        key = ("#entered", node.lineno)
        if isinstance(node, ast.For) and not state.has(key) and self._nonempty(itval):
            return None
        return state.drop(key) if state.has(key) else state

    def _nonempty(self, itval):
        if isinstance(itval, ListOf):
            return self._nonempty(itval.of)
        if isinstance(itval, ListV):
            return bool(itval.seq or itval.loop)
        if isinstance(itval, TupleV):
            return bool(itval.items)
        if isinstance(itval, DictV):
            return bool(itval.items)
        if isinstance(itval, CompList):
            return bool(itval.elems)
        return isinstance(itval, (P, SelfAttr, ItemsOf)) and not (isinstance(itval, ItemsOf) and isinstance(itval.of, DictV) and not itval.of.items)

    def _for_next(self, node, itval, state):
        if isinstance(itval, ListV):
            vals = list(itval.seq) + list(itval.loop)
            return [(v, state) for v in dict.fromkeys(vals)]
        if isinstance(itval, CompList):
            return [(v, state) for v in itval.elems]
        if isinstance(itval, DictV):
            return [(k, state) for k, v in itval.items]
        if isinstance(itval, ItemsOf):
            d = itval.of
            if isinstance(d, DictV):
                return [(TupleV((k, v)), state) for k, v in d.items]
            return [(TupleV((ItemKey(d), ItemVal(d))), state)]
        if isinstance(itval, ListOf):
            return self._for_next(node, itval.of, state)
        if isinstance(itval, (P, SelfAttr)):
            return [(Elem(itval), state)]
        if isinstance(itval, TupleV):
            return [(v, state) for v in dict.fromkeys(itval.items)]
        return [(TOP, state)]

    def binop(self, node, l, r, state):
        if isinstance(node.op, ast.Add):
            byteslike = lambda v: isinstance(v, (B, Key, DataB, AsBytes)) or (isinstance(v, Const) and isinstance(v.v, bytes))
            if byteslike(l) or byteslike(r):
                return cat(l, r)
            if isinstance(l, ListV) and isinstance(r, ListV):
                return ListV(l.seq + r.seq, l.loop | r.loop)
            rr = r.of if isinstance(r, ListOf) else r
            if isinstance(l, ListV) and not l.loop and isinstance(rr, CompList) and _hashable(rr):
                # list + [f(k) for k in keys]: the comprehension's elements are spliced in after the listed ones
                return ListV(l.seq + (Splice(rr),), l.loop)
            if isinstance(l, ListV) and isinstance(rr, TupleV):
                return ListV(l.seq + rr.items, l.loop)
        if isinstance(node.op, ast.Mod) and isinstance(l, Const) and isinstance(l.v, bytes):
            return B((("taint", r),))
        return super().binop(node, l, r, state)

    def subscript_load(self, objval, idxval, node, state):
        if isinstance(objval, ListV) and not objval.loop and isinstance(idxval, Const) and isinstance(idxval.v, int) and -len(objval.seq) <= idxval.v < len(objval.seq):
            return objval.seq[idxval.v], False
        return super().subscript_load(objval, idxval, node, state)

    # ---- calls -------------------------------------------------------------------
    def call(self, node, fval, args, kwargs, state):
        name = call_name(node)
        ok = lambda v, s=state: [("ok", v, s)]
        if name == "self.check_key" and self.prog is not None:
            # Client.check_key is a thin wrapper: interpreted, so that what it does with its prefix argument (e.g. a
            # default it resolves itself) is seen; the summary below applies to check_key_helper inside it
            m = self.prog.cls("Client").methods.get("check_key")
            if m is not None and not any(fr["fn"] is m for fr in self.frames):
                res = self.inline(node, m, args, kwargs, state)
                if res is not None and any(r[0] == "ok" and isinstance(r[1], Key) for r in res):
                    return [r for r in res if r[0] == "ok"]
        if name in ("self.check_key", "check_key_helper"):
            self._sanitizer(node, state, "check_key")
            src = args[0] if args else kwargs.get("key", TOP)
            if name == "self.check_key":
                prefix = args[1] if len(args) > 1 else kwargs.get("key_prefix", Const(b""))
            else:
                prefix = args[2] if len(args) > 2 else kwargs.get("key_prefix", Const(b""))
            return ok(Key(src, prefix))
        if name == "self._check_integer":
            self._sanitizer(node, state, "_check_integer")
            return ok(B((("int", args[0] if args else TOP, "check_integer"),)))
        if name == "self._check_cas":
            self._sanitizer(node, state, "_check_cas")
            return ok(B((("int", args[0] if args else TOP, "check_cas"),)))
        if name == "self.serde.serialize":
            self._sanitizer(node, state, "serialize")
            d = args[1] if len(args) > 1 else TOP
            return ok(TupleV((SerData(d), SerFlags(d))))
        if name == "len" and args:
            a = args[0]
            if isinstance(a, AsBytes):
                a = DataB(a.of, "asis")
            return ok(LenOf(a))
        if name == "str" and args:
            return ok(StrOf(args[0]))
        if name == "list" and args:
            return ok(ListOf(args[0]) if not isinstance(args[0], (ListV, ListOf)) else args[0])
        if name in ("dict.fromkeys", "set", "frozenset", "sorted", "tuple", "reversed") and len(args) == 1 and isinstance(args[0], (ListV, ListOf, CompList, TupleV)):
            # the same elements (possibly fewer of them, possibly in another order): for what may appear on the wire
            # that is the same collection of patterns
            return ok(args[0])
        if name == "isinstance":
            return ok(TOP)
        if isinstance(fval, Meth):
            o, a = fval.obj, fval.attr
            if a == "encode":
                self._sanitizer(node, state, "encode")
                if isinstance(o, StrOf):
                    inner = o.of
                    if isinstance(inner, LenOf):
                        return ok(B((("len", inner.of),)))
                    if isinstance(inner, NotBytes):
                        return ok(DataB(inner.of, "str-encoded"))
                    return ok(B((("taint", inner),)))
                return ok(Encoded(o, args[0] if args else None))
            if a == "join" and args:
                sep = o
                lst = args[0]
                if isinstance(lst, ListOf):
                    lst = lst.of
                if isinstance(lst, TupleV):
                    lst = ListV(lst.items)
                if isinstance(lst, ListV):
                    if not lst.loop:
                        out = Const(b"")
                        for i, it in enumerate(lst.seq):
                            if i:
                                out = cat(out, sep)
                            if isinstance(it, Splice):
                                # the elements of another collection spliced in by extend(): one or more, same separator
                                it = B((("rep", it.of.elems, sep),)) if isinstance(it.of, CompList) else B((("taint", it.of),))
                            out = cat(out, it)
                        return ok(out if isinstance(out, B) else B(to_frags(out)))
                    return ok(B((("rep", frozenset(list(lst.loop) + list(lst.seq)), sep),)))
                if isinstance(lst, CompList):
                    return ok(B((("rep", lst.elems, sep),)))
                return ok(B((("taint", lst),)))
            if a == "items":
                return ok(ItemsOf(o))
            if a == "extend" and isinstance(node.func.value, ast.Name) and args:
                nm = node.func.value.id
                cur = state.get(nm, TOP)
                other = args[0].of if isinstance(args[0], ListOf) else args[0]
                site = (node.lineno, node.col_offset)
                if isinstance(cur, ListV) and not cur.loop and not any(s_ == site for s_, _ in cur.tail):
                    if isinstance(other, (ListV, TupleV)) and not getattr(other, "loop", None):
                        items = other.seq if isinstance(other, ListV) else other.items
                        return [("ok", NONE, state.set(nm, ListV(cur.items, cur.loop, cur.tail + tuple((site, x) for x in items))))]
                    if isinstance(other, CompList) and _hashable(other):
                        return [("ok", NONE, state.set(nm, ListV(cur.items, cur.loop, cur.tail + ((site, Splice(other)),))))]
                if isinstance(cur, ListV):
                    return [("ok", NONE, state.set(nm, TOP))]
                return ok(NONE)
            if a == "append" and isinstance(node.func.value, ast.Name):
                nm = node.func.value.id
                cur = state.get(nm, TOP)
                if isinstance(cur, ListV) and args and _hashable(args[0]):
                    v, site = args[0], (node.lineno, node.col_offset)
                    if v in cur.loop:
                        return ok(NONE)
                    if cur.loop or any(s_ == site for s_, _ in cur.tail):
                        # this site executes again: a loop; order and number of its elements are not tracked
                        moved = {x for s_, x in cur.tail if s_ == site} | {v}
                        return [("ok", NONE, state.set(nm, ListV(cur.items, cur.loop | moved, tuple((s_, x) for s_, x in cur.tail if s_ != site))))]
                    return [("ok", NONE, state.set(nm, ListV(cur.items, cur.loop, cur.tail + ((site, v),))))]
                return ok(NONE)
            if a in ("get", "startswith", "partition", "split", "find", "isdigit", "keys", "values", "copy", "replace", "decode", "splitlines"):
                return ok(TOP)
        if isinstance(node.func, ast.Attribute) and node.func.attr == "sendall":
            self._record_send(node, args, state)
            return [("ok", NONE, state.set("#sent", 1))]
        if name == "self._connect":
            return [("ok", NONE, state.set("#sent", 1))]
        if isinstance(node.func, ast.Name) and self.fn is not None and node.func.id in self.fn.module.functions:
            # a module-level helper that builds part of a command (e.g. the `[ noreply]\r\n` tail): interpreted in line
            from . import exchange

            if node.func.id not in exchange.recv_reaching_functions(self.prog)[1] and node.func.id not in ("check_key_helper", "normalize_server_spec"):
                res = self.inline(node, self.fn.module.functions[node.func.id], args, kwargs, state)
                if res is not None:
                    return [r for r in res if r[0] == "ok"]
        if name.startswith("self.") and name.count(".") == 1:
            m = self.prog.cls("Client").methods.get(name[5:])
            if m is not None and name[5:].startswith("_") and name[5:] not in ("_connect", "_check_integer", "_check_cas", "_raise_errors", "_extract_value"):
                if self.frames and self.frames[-1]["fn"].param("noreply") is not None:
                    # the value the enclosing function holds in `noreply` when it hands over to a helper
                    self.frames[-1]["bound"] = dict(self.frames[-1]["bound"], noreply=state.get("noreply", TOP))
                res = self.inline(node, m, args, kwargs, state)
                if res is not None:
                    return [r for r in res if r[0] == "ok"]
        return ok(TOP)

    def _sanitizer(self, node, state, what):
        self.sanitizer_sites.add((what, node.lineno))
        if state.get("#sent", 0):
            self.order_violations.append((what, node))

    def _record_send(self, node, args, state):
        # the request/response function on the inlining stack (a send helper may sit on top of it)
        frame = None
        for fr in reversed(self.frames):
            if fr["fn"].param("noreply") is not None:
                frame = fr
                break
        if frame is None and self.frames:
            frame = self.frames[0]
        nr = None
        if frame is not None and frame["fn"].param("noreply") is not None:
            nr = frame["bound"].get("noreply", TOP) if frame is not self.frames[-1] else state.get("noreply", TOP)
        self.events.append(
            dict(
                public=self.public.name,
                fn=frame["fn"].qualname if frame else self.public.qualname,
                site=frame["site"] if frame else node,
                wire=args[0] if args else TOP,
                state=state,
                noreply_arg=frame["bound"].get("noreply") if frame else None,
                noreply_val=nr,
                noreply_truth=self.truth(nr, state) if nr is not None else None,
                bound=frame["bound"] if frame else {},
                node=node,
            )
        )


def bind_args(callee, args, kwargs, prog):
    bound = {}
    pos = callee.pos_params()
    for p, a in zip(pos, args):
        bound[p.name] = a
    for k, v in kwargs.items():
        if not k.startswith("**"):
            bound[k] = v
    for p in callee.params:
        if p.name in ("self",) or p.name in bound or p.kind in ("vararg", "kwarg"):
            continue
        if p.has_default:
            try:
                bound[p.name] = Const(fold(p.default, callee.module))
            except NotConst:
                bound[p.name] = TOP
        else:
            bound[p.name] = TOP
    return bound


def exchange_names(prog):
    """Client methods that send, directly or through a send helper (they are inlined at their call sites)."""
    from . import exchange

    return {f.name for f in exchange.exchange_functions(prog)}


def wire_methods(prog):
    """Public methods of Client (aliases excluded) in whose extent a command is sent (through private helpers)."""
    from . import exchange

    send, read = exchange._facts(prog)
    return [f for name, f in sorted(prog.cls("Client").methods.items()) if not name.startswith("_") and send[name]]


_CACHE = {}


def evaluate(prog, fn, bind=None):
    """-> FragDomain after interpreting the public method `fn` with symbolic parameters (`bind`: parameters given a
    concrete value instead, e.g. flags=Const(0))."""
    cache = prog.__dict__.setdefault("_wire_cache", {})
    key = fn.qualname if not bind else (fn.qualname, tuple(sorted((k, str(v)) for k, v in bind.items())))
    if key in cache:
        return cache[key]
    ex = exchange_names(prog)
    dom = FragDomain(prog, fn, ex)
    env = {}
    for p in fn.params:
        if p.name == "self":
            continue
        if p.kind == "vararg":
            env[p.name] = P(p.name)
        elif p.kind == "kwarg":
            env[p.name] = TOP
        else:
            env[p.name] = P(p.name)
    env.update(bind or {})
    outs = Interp(dom, fn.node, prog).run(Env(env))
    dom.outs = outs
    cache[key] = dom
    return dom


# ---------------------------------------------------------------- rendering

def render(frags):
    """Render a fragment sequence as text for the grammar regexes."""
    out = []
    for f in frags:
        k = f[0]
        if k == "lit":
            out.append(f[1].decode("latin-1"))
        elif k == "key":
            out.append("‹K›")
        elif k == "int":
            out.append("‹I›")
        elif k == "len":
            out.append("‹L›")
        elif k == "data":
            out.append("‹D›")
        elif k == "rep":
            pats, sep = f[1], f[2]
            if isinstance(sep, Const) and sep.v == b" " and pats and all(isinstance(p, Key) for p in pats):
                out.append("‹K+›")
            else:
                out.append("‹REP›")
        else:
            out.append("‹T:%s›" % (describe(f[1]),))
    return "".join(out)


def describe(v):
    if isinstance(v, P):
        return "parameter %s" % v.name
    if isinstance(v, SelfAttr):
        return "self.%s" % v.name
    if isinstance(v, (Elem, ItemKey, ItemVal)):
        return "%s of %s" % (type(v).__name__.lower(), describe(v.of))
    if isinstance(v, (SerData, SerFlags, StrOf, LenOf, AsBytes, NotBytes, ListOf)):
        return "%s(%s)" % (type(v).__name__, describe(v.of))
    if isinstance(v, Encoded):
        return "encode(%s)" % describe(v.of)
    if isinstance(v, B):
        return render(v.frags)
    if isinstance(v, Key):
        return "key(%s)" % describe(v.src)
    if isinstance(v, DataB):
        return "data(%s,%s)" % (describe(v.of), v.how)
    if isinstance(v, Const):
        return repr(v.v)
    return str(v)


def commands_of(wire):
    """Split a wire value into the list of complete-command fragment sequences to be checked against the grammar.
    A top-level rep(patterns, b"") is a batch of commands: each pattern is one command."""
    if not isinstance(wire, B):
        return [to_frags(wire)]
    if len(wire.frags) == 1 and wire.frags[0][0] == "rep" and isinstance(wire.frags[0][2], Const) and wire.frags[0][2].v == b"":
        return [to_frags(p) for p in wire.frags[0][1]]
    return [wire.frags]


def has_noreply_token(frags):
    return any(f[0] == "lit" and b" noreply" in f[1] for f in frags)


# ---------------------------------------------------------------- C01.R2b

def check_noreply_coupling(prog, rule):
    """At every call site of an exchange function that has a `noreply` parameter: on every wire variant the
    ` noreply` token is present iff the value bound to `noreply` is truthy on that path."""
    sites = {}
    for fn in wire_methods(prog):
        dom = evaluate(prog, fn)
        for ev in dom.events:
            if ev["noreply_val"] is None:
                continue
            sid = (fn.qualname, ev["site"].lineno)
            rec = sites.setdefault(sid, {"fn": fn, "site": ev["site"], "bad": [], "n": 0, "callee": ev["fn"]})
            for cmd in commands_of(ev["wire"]):
                if not cmd:
                    continue  # empty batch: nothing is sent on this path (zero iterations of the builder loop)
                rec["n"] += 1
                tok = has_noreply_token(cmd)
                t = ev["noreply_truth"]
                if t is None:
                    # the callee never tested its noreply argument on this path: then it reads replies iff ... unknown
                    rec["bad"].append(("undetermined", tok, ev))
                elif bool(t) != tok:
                    rec["bad"].append(("mismatch", tok, ev))
    for sid, rec in sorted(sites.items(), key=lambda kv: kv[0]):
        fn = rec["fn"]
        construct = "%s:noreply-decoupled@%s" % (fn.qualname, rec["callee"].split(".")[-1])
        if not rec["n"]:
            rule.fail(construct, "no non-empty wire variant could be derived for the call of %s in %s" % (rec["callee"], fn.qualname), fn=fn, node=rec["site"])
        elif rec["bad"]:
            kind, tok, ev = rec["bad"][0]
            rule.fail(construct, "in %s the command sent %s the ` noreply` token while the value passed as noreply to %s (%s) is %s on that path: the call would %s" % (
                fn.qualname, "contains" if tok else "lacks", rec["callee"], describe(ev["noreply_arg"]) if ev["noreply_arg"] is not None else "?",
                {True: "truthy", False: "falsy", None: "not decided"}[ev["noreply_truth"]],
                "wait for a reply that never comes" if tok else "leave a reply unread on a connection that stays in use"), fn=fn, node=rec["site"],
                witness="wire=%r" % render([c for c in commands_of(ev["wire"]) if c][0]))
        else:
            rule.ok("%s -> %s: token ` noreply` present iff the noreply argument is truthy (%d wire variants)" % (fn.qualname, rec["callee"], rec["n"]))
    # quit: constant True with no token is accepted only when close() post-dominates (memcached answers quit by closing)
    for fn in wire_methods(prog):
        for ev in evaluate(prog, fn).events:
            a = ev["noreply_arg"]
            if isinstance(a, Const) and a.v is True and not any(has_noreply_token(c) for c in commands_of(ev["wire"])):
                closes = [n for n in walk_no_nested(fn.node) if isinstance(n, ast.Call) and call_name(n) == "self.close" and n.lineno > ev["site"].lineno]
                verb = render(commands_of(ev["wire"])[0]).split("\r")[0].split(" ")[0]
                okq = verb == "quit" and bool(closes)
                # override the mismatch recorded above for this one table entry
                for fnd in list(rule.findings):
                    if fnd.key.endswith("%s:noreply-decoupled@%s" % (fn.qualname, ev["fn"].split(".")[-1])) and okq:
                        rule.findings.remove(fnd)
                        rule.discharged += 1
                        rule.note("quit: noreply=True without token accepted (protocol defines no reply; self.close() follows)")
    return len(sites)
