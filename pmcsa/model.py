"""Program model of /repo/pymemcache built from source with the stdlib ast module.

Nothing from the repository is imported or executed.  The loader can be given an
in-memory overlay {relative path: source} so that the self-test can analyse mutated
sources without writing scratch trees.
"""
import ast
import glob
import os

REPO = os.environ.get("PMCSA_REPO", "/repo")
PKG = "pymemcache"

# modules that carry anchors of the properties; all must be present and parse
REQUIRED = [
    "pymemcache/client/base.py",
    "pymemcache/client/hash.py",
    "pymemcache/client/rendezvous.py",
    "pymemcache/client/murmur3.py",
    "pymemcache/client/retrying.py",
    "pymemcache/client/ext/aws_ec_client.py",
    "pymemcache/pool.py",
    "pymemcache/serde.py",
    "pymemcache/fallback.py",
    "pymemcache/exceptions.py",
]


class AnalysisError(Exception):
    """Fail-closed: the analysis cannot give a verdict (anchor vanished, unsupported construct)."""


class NotConst(Exception):
    pass


class Param:
    __slots__ = ("name", "kind", "default", "has_default", "annotation")

    def __init__(self, name, kind, default=None, has_default=False, annotation=None):
        self.name = name
        self.kind = kind  # 'pos', 'kwonly', 'vararg', 'kwarg'
        self.default = default  # ast node or None
        self.has_default = has_default
        self.annotation = annotation

    def __repr__(self):
        return "Param(%s,%s%s)" % (self.name, self.kind, ",=" + ast.unparse(self.default) if self.has_default else "")


class FuncInfo:
    def __init__(self, module, cls, node):
        self.module = module
        self.cls = cls
        self.node = node
        self.name = node.name
        self.qualname = (cls.name + "." if cls else "") + node.name
        self.params = _params(node)
        self.decorators = [ast.unparse(d) for d in node.decorator_list]

    @property
    def file(self):
        return self.module.rel

    def param(self, name):
        for p in self.params:
            if p.name == name:
                return p
        return None

    def pos_params(self, skip_self=True):
        ps = [p for p in self.params if p.kind == "pos"]
        if skip_self and self.cls is not None and ps and ps[0].name in ("self", "cls") and "staticmethod" not in self.decorators:
            ps = ps[1:]
        return ps

    def has_varargs(self):
        return any(p.kind == "vararg" for p in self.params)

    def has_kwargs(self):
        return any(p.kind == "kwarg" for p in self.params)

    def __repr__(self):
        return "<Func %s:%s>" % (self.module.rel, self.qualname)


def _params(node):
    a = node.args
    out = []
    pos = list(a.posonlyargs) + list(a.args)
    nd = len(a.defaults)
    for i, arg in enumerate(pos):
        di = i - (len(pos) - nd)
        if di >= 0:
            out.append(Param(arg.arg, "pos", a.defaults[di], True, arg.annotation))
        else:
            out.append(Param(arg.arg, "pos", None, False, arg.annotation))
    if a.vararg:
        out.append(Param(a.vararg.arg, "vararg"))
    for arg, d in zip(a.kwonlyargs, a.kw_defaults):
        out.append(Param(arg.arg, "kwonly", d, d is not None, arg.annotation))
    if a.kwarg:
        out.append(Param(a.kwarg.arg, "kwarg"))
    return out


class ClassInfo:
    def __init__(self, module, node):
        self.module = module
        self.node = node
        self.name = node.name
        self.bases = [ast.unparse(b) for b in node.bases]
        self.methods = {}
        self.aliases = {}  # name -> other name in the same class body (set_multi = set_many)
        self.attrs = {}  # name -> expr node (client_class = Client)
        for st in node.body:
            if isinstance(st, (ast.FunctionDef, ast.AsyncFunctionDef)):
                self.methods[st.name] = FuncInfo(module, self, st)
            elif isinstance(st, ast.Assign) and len(st.targets) == 1 and isinstance(st.targets[0], ast.Name):
                t = st.targets[0].id
                if isinstance(st.value, ast.Name) and st.value.id in self.methods:
                    self.aliases[t] = st.value.id
                else:
                    self.attrs[t] = st.value
            elif isinstance(st, ast.AnnAssign) and isinstance(st.target, ast.Name) and st.value is not None:
                self.attrs[st.target.id] = st.value

    def __repr__(self):
        return "<Class %s>" % self.name


class Module:
    def __init__(self, rel, src):
        self.rel = rel
        self.src = src
        self.lines = src.splitlines()
        try:
            self.tree = ast.parse(src, filename=rel)
        except SyntaxError as e:
            raise AnalysisError("cannot parse %s: %s" % (rel, e))
        self.name = rel[:-3].replace("/", ".")
        if self.name.endswith(".__init__"):
            self.name = self.name[: -len(".__init__")]
        self.functions = {}
        self.classes = {}
        self.assigns = {}  # module-level name -> value expr (last assignment)
        self.imports = {}  # local name -> (module, name or None)
        for st in self.tree.body:
            if isinstance(st, (ast.FunctionDef, ast.AsyncFunctionDef)):
                self.functions[st.name] = FuncInfo(self, None, st)
            elif isinstance(st, ast.ClassDef):
                self.classes[st.name] = ClassInfo(self, st)
            elif isinstance(st, ast.Assign):
                for t in st.targets:
                    if isinstance(t, ast.Name):
                        self.assigns[t.id] = st.value
            elif isinstance(st, ast.AnnAssign) and isinstance(st.target, ast.Name) and st.value is not None:
                self.assigns[st.target.id] = st.value
            elif isinstance(st, ast.Import):
                for al in st.names:
                    self.imports[(al.asname or al.name).split(".")[0]] = (al.name, None)
            elif isinstance(st, ast.ImportFrom):
                for al in st.names:
                    self.imports[al.asname or al.name] = (st.module, al.name)
        for n in ast.walk(self.tree):
            for ch in ast.iter_child_nodes(n):
                ch._parent = n

    def const(self, name):
        """Value of a module-level constant; raises NotConst.  A literal is folded; a table that is built or completed
        by statements (a comprehension, `dict([...])`, `TABLE[k] = v`, `TABLE.update(...)` after the literal) is
        computed by interpreting the module's top-level statements (colls.module_constants)."""
        if name not in self.assigns:
            raise NotConst(name)
        if name not in self.mutated_names():
            try:
                return fold(self.assigns[name], self)
            except NotConst:
                pass
        from .colls import module_constants

        mc = module_constants(getattr(self, "prog", None), self)
        if name in mc:
            return mc[name]
        raise NotConst(name)

    def mutated_names(self):
        """Module-level names that top-level statements change after (or instead of) binding them: subscript stores,
        augmented assignments, deletions, method calls on them, more than one assignment."""
        memo = getattr(self, "_mutated", None)
        if memo is None:
            memo, bound = set(), set()
            for st in self.tree.body:
                if isinstance(st, (ast.Assign, ast.AnnAssign, ast.AugAssign, ast.Delete)):
                    tgts = st.targets if isinstance(st, (ast.Assign, ast.Delete)) else [st.target]
                    for t in tgts:
                        root = t
                        while isinstance(root, (ast.Subscript, ast.Attribute)):
                            root = root.value
                        if not isinstance(root, ast.Name):
                            continue
                        if root is not t or isinstance(st, (ast.AugAssign, ast.Delete)) or root.id in bound:
                            memo.add(root.id)
                        bound.add(root.id)
                elif isinstance(st, ast.Expr) and isinstance(st.value, ast.Call) and isinstance(st.value.func, ast.Attribute) and isinstance(st.value.func.value, ast.Name):
                    memo.add(st.value.func.value.id)
            self._mutated = memo
        return memo

    def line(self, lineno):
        return self.lines[lineno - 1].strip() if 0 < lineno <= len(self.lines) else ""


_BIN = {
    ast.Add: lambda a, b: a + b,
    ast.Sub: lambda a, b: a - b,
    ast.Mult: lambda a, b: a * b,
    ast.LShift: lambda a, b: a << b,
    ast.RShift: lambda a, b: a >> b,
    ast.BitOr: lambda a, b: a | b,
    ast.BitAnd: lambda a, b: a & b,
    ast.BitXor: lambda a, b: a ^ b,
    ast.Pow: lambda a, b: a ** b if (isinstance(b, int) and abs(b) < 128) else (_ for _ in ()).throw(NotConst()),
    ast.FloorDiv: lambda a, b: a // b,
    ast.Mod: lambda a, b: a % b,
}


def fold(node, module=None, env=None):
    """Constant-fold an expression to a Python value.  Raises NotConst if not a literal."""
    if isinstance(node, ast.Constant):
        return node.value
    if isinstance(node, ast.Tuple):
        return tuple(fold(e, module, env) for e in node.elts)
    if isinstance(node, ast.List):
        return [fold(e, module, env) for e in node.elts]
    if isinstance(node, ast.Set):
        return frozenset(fold(e, module, env) for e in node.elts)
    if isinstance(node, ast.Dict):
        if any(k is None for k in node.keys):
            raise NotConst()
        return {fold(k, module, env): fold(v, module, env) for k, v in zip(node.keys, node.values)}
    if isinstance(node, ast.BinOp) and type(node.op) in _BIN:
        a, b = fold(node.left, module, env), fold(node.right, module, env)
        try:
            return _BIN[type(node.op)](a, b)
        except NotConst:
            raise
        except Exception:
            raise NotConst()
    if isinstance(node, ast.UnaryOp):
        v = fold(node.operand, module, env)
        try:
            if isinstance(node.op, ast.USub):
                return -v
            if isinstance(node.op, ast.Not):
                return not v
            if isinstance(node.op, ast.Invert):
                return ~v
            if isinstance(node.op, ast.UAdd):
                return +v
        except Exception:
            raise NotConst()
    if isinstance(node, ast.Name):
        if env is not None and node.id in env:
            return env[node.id]
        if module is not None and node.id in module.assigns:
            return module.const(node.id)
        if node.id in ("True", "False", "None"):
            return {"True": True, "False": False, "None": None}[node.id]
        raise NotConst(node.id)
    raise NotConst(type(node).__name__)


class Program:
    def __init__(self, root=None, overlay=None):
        self.root = root or REPO
        self.modules = {}
        overlay = overlay or {}
        self.overlay = dict(overlay)
        paths = sorted(glob.glob(os.path.join(self.root, PKG, "**", "*.py"), recursive=True))
        rels = [os.path.relpath(p, self.root) for p in paths]
        for r in overlay:
            if r not in rels:
                rels.append(r)
        for rel in rels:
            if rel.startswith(PKG + "/test/"):
                continue
            if rel in overlay:
                src = overlay[rel]
            else:
                with open(os.path.join(self.root, rel), encoding="utf8") as f:
                    src = f.read()
            self.modules[rel] = Module(rel, src)
        missing = [r for r in REQUIRED if r not in self.modules]
        if missing:
            raise AnalysisError("required modules missing from %s: %s" % (self.root, missing))
        self.by_name = {m.name: m for m in self.modules.values()}
        self.classes = {}
        for m in self.modules.values():
            for c in m.classes.values():
                self.classes.setdefault(c.name, c)
        for m_ in self.modules.values():
            m_.prog = self
        self.send_helpers = {}
        self._normalise_send_helpers()

    def _normalise_send_helpers(self):
        """A module-level function of client/base.py that wraps `<socket parameter>.sendall(<data parameter>)` is a send
        helper: its call sites are read as the send they stand for (`_sendall(self.sock, cmd)` as `self.sock.sendall(cmd)`),
        so that every rule that anchors on the send keeps its anchor.  That the helper is no more than that - one send
        of the data it was given, every failure passed on, no second attempt - is an obligation of its own (C01.R7)."""
        mod = self.modules.get(PKG + "/client/base.py")
        if mod is None:
            return
        for f in mod.functions.values():
            params = [a.arg for a in f.node.args.posonlyargs + f.node.args.args]
            sends = [n for n in ast.walk(f.node) if isinstance(n, ast.Call) and isinstance(n.func, ast.Attribute) and n.func.attr == "sendall" and isinstance(n.func.value, ast.Name) and n.func.value.id in params and len(n.args) == 1 and isinstance(n.args[0], ast.Name) and n.args[0].id in params]
            if sends and all((s_.func.value.id, s_.args[0].id) == (sends[0].func.value.id, sends[0].args[0].id) for s_ in sends):
                self.send_helpers[f.name] = (params.index(sends[0].func.value.id), params.index(sends[0].args[0].id))
        if not self.send_helpers:
            return
        for g in list(mod.functions.values()) + [m_ for c_ in mod.classes.values() for m_ in c_.methods.values()]:
            if g.name in self.send_helpers:
                continue
            for n in ast.walk(g.node):
                if isinstance(n, ast.Call) and isinstance(n.func, ast.Name) and n.func.id in self.send_helpers and not n.keywords and not any(isinstance(a, ast.Starred) for a in n.args):
                    si, di = self.send_helpers[n.func.id]
                    if max(si, di) < len(n.args):
                        sock, data = n.args[si], n.args[di]
                        new_func = ast.copy_location(ast.Attribute(value=sock, attr="sendall", ctx=ast.Load()), n.func)
                        new_func._parent = n
                        sock._parent = new_func
                        n._send_helper = n.func.id
                        n.func = new_func
                        n.args = [data]

    # ---- lookup helpers -------------------------------------------------
    def module(self, rel):
        if rel not in self.modules:
            raise AnalysisError("module %s not found" % rel)
        return self.modules[rel]

    def cls(self, name):
        if name not in self.classes:
            raise AnalysisError("class %s not found (anchor vanished)" % name)
        return self.classes[name]

    def has_cls(self, name):
        return name in self.classes

    def mro(self, cls):
        """Linearised ancestors inside the package (single inheritance is all the repo uses)."""
        out, seen = [], set()
        todo = [cls]
        while todo:
            c = todo.pop(0)
            if c.name in seen:
                continue
            seen.add(c.name)
            out.append(c)
            for b in c.bases:
                bn = b.split("[")[0].split(".")[-1]
                if bn in self.classes:
                    todo.append(self.classes[bn])
        return out

    def method(self, cls, name, required=True):
        """Resolve a method name along the MRO, following class-level aliases."""
        if isinstance(cls, str):
            cls = self.cls(cls)
        for c in self.mro(cls):
            n = name
            hops = 0
            while n in c.aliases and hops < 5:
                n = c.aliases[n]
                hops += 1
            if n in c.methods:
                return c.methods[n]
        if required:
            raise AnalysisError("method %s.%s not found (anchor vanished)" % (cls.name, name))
        return None

    def public_methods(self, cls, include_aliases=True):
        """name -> FuncInfo for public (non-underscore) methods along the MRO, alias names included."""
        if isinstance(cls, str):
            cls = self.cls(cls)
        out = {}
        for c in reversed(self.mro(cls)):
            for n, f in c.methods.items():
                out[n] = f
            if include_aliases:
                for a in c.aliases:
                    out[a] = self.method(c, a)
        return {n: f for n, f in out.items() if not n.startswith("_")}

    def function(self, rel, name, required=True):
        m = self.module(rel)
        if name in m.functions:
            return m.functions[name]
        if required:
            raise AnalysisError("function %s:%s not found (anchor vanished)" % (rel, name))
        return None

    def all_functions(self):
        for m in self.modules.values():
            for f in m.functions.values():
                yield f
            for c in m.classes.values():
                for f in c.methods.values():
                    yield f

    def exception_bases(self, name):
        """Ancestors (names) of an exception class defined in the package or a builtin."""
        out = [name]
        if name in self.classes:
            for b in self.classes[name].bases:
                out += self.exception_bases(b.split(".")[-1])
            return out
        import builtins

        obj = getattr(builtins, name, None)
        if isinstance(obj, type) and issubclass(obj, BaseException):
            return [c.__name__ for c in obj.__mro__ if c is not object]
        if name in ("socket.error", "error"):
            return ["OSError", "Exception", "BaseException"]
        if name in ("timeout", "socket.timeout"):
            return ["TimeoutError", "OSError", "Exception", "BaseException"]
        return out + ["Exception", "BaseException"] if name not in ("Exception", "BaseException") else out


def node_src(node, limit=120):
    try:
        s = ast.unparse(node)
    except Exception:
        s = type(node).__name__
    s = " ".join(s.split())
    return s if len(s) <= limit else s[: limit - 3] + "..."


def enclosing_function(node):
    n = getattr(node, "_parent", None)
    while n is not None and not isinstance(n, (ast.FunctionDef, ast.AsyncFunctionDef, ast.Lambda)):
        n = getattr(n, "_parent", None)
    return n


def is_self_attr(node, attr=None):
    return (
        isinstance(node, ast.Attribute)
        and isinstance(node.value, ast.Name)
        and node.value.id == "self"
        and (attr is None or node.attr == attr)
    )


def call_name(call):
    """Dotted textual name of a call's callee, e.g. 'self.sock.sendall', '_readline'."""
    f = call.func
    parts = []
    while isinstance(f, ast.Attribute):
        parts.append(f.attr)
        f = f.value
    if isinstance(f, ast.Name):
        parts.append(f.id)
    else:
        parts.append("<expr>")
    return ".".join(reversed(parts))
