"""C04 - what is stored is what is fetched: values and keys survive the round trip (partial: framing and key mapping)."""
import ast

from .model import AnalysisError, node_src, is_self_attr, call_name
from .report import walk_no_nested
from .paths import Const
from . import wire, spec, exchange

LEVEL = "other"
LEVEL_TEXT = (
    "Structural necessary conditions of the round trip: the length prefix and the data block of every store command "
    "are the same converted value (R1); caller-supplied iterables are traversed once or materialised first (R2); the "
    "public retrieval/storage methods interpreted end to end against scripted replies hand back, under the caller's own "
    "key object, deserialize(that key, the data block of its VALUE line, its flags) and the found value itself (R3); every key-addressed command applies the configured prefix (R4). "
    "Bit-for-bit equality of values of every size, serializer round trips (see C15) and 'exactly once' for multi-key "
    "replies against a server model are not decided."
)
TRUSTED = ["CPython ast", "pmcsa/wire.py fragment transformers"]


def run(chk):
    prog = chk.prog
    # ------------------------------------------------------------------ R1 length-prefix coupling
    r1 = chk.rule("C04.R1", "length-prefix coupling: in every store command LEN(d) and DATA(d) are the same value d, taken after the bytes conversion")
    n = 0
    for m in wire.wire_methods(prog):
        verb = spec.METHOD_VERB.get(m.name, m.name)
        if verb not in spec.STORE_VERBS + ("cas",):
            continue
        dom = wire.evaluate(prog, m)
        bad = None
        seen = 0
        for ev in dom.events:
            for cmd in wire.commands_of(ev["wire"]):
                if not cmd:
                    continue
                lens = [f for f in cmd if f[0] == "len"]
                datas = [f for f in cmd if f[0] == "data"]
                seen += 1
                if len(lens) != 1 or len(datas) != 1:
                    bad = bad or ("the command has %d length fields and %d data blocks (%r)" % (len(lens), len(datas), wire.render(cmd)))
                    continue
                ld, dd = lens[0][1], datas[0][1]
                if isinstance(ld, wire.AsBytes):
                    ld = wire.DataB(ld.of, "asis")
                if ld != dd:
                    bad = bad or ("the length written is that of `%s` but the block sent is `%s`: when they differ in byte length (non-bytes values, multi-byte encodings) the server frames the value wrongly and parses the rest as commands" % (wire.describe(ld), wire.describe(dd)))
                elif not isinstance(dd, wire.DataB):
                    bad = bad or "the data block `%s` is not a bytes-converted value" % wire.describe(dd)
        n += seen
        r1.expect(bad is None and seen > 0, "Client.%s: %d store variants, length and block are the same converted value" % (m.name, seen), "Client.%s:length-data-coupling" % m.name, "Client.%s: %s" % (m.name, bad or "no store variant derived"), fn=m, node=m.node)
    r1.floor("store command variants", n, 14)
    # flags the caller gives explicitly go on the wire as given - the value 0 included (it is not "no flags given")
    n_f = 0
    for m in wire.wire_methods(prog):
        if m.param("flags") is None or spec.METHOD_VERB.get(m.name, m.name) not in spec.STORE_VERBS + ("cas",):
            continue
        dom0 = wire.evaluate(prog, m, bind={"flags": Const(0)})
        badf = None
        for ev in dom0.events:
            for cmd in wire.commands_of(ev["wire"]):
                ints = [f for f in cmd if f[0] == "int" and f[2] == "check_integer"]
                if not ints:
                    continue
                n_f += 1
                if ints[0][1] != Const(0):
                    badf = badf or "with flags=0 given explicitly the command carries the flags `%s` (%r)" % (wire.describe(ints[0][1]), wire.render(cmd))
        r1.expect(badf is None, "Client.%s(flags=0): the command carries the flags 0" % m.name, "Client.%s:explicit-flags" % m.name, "Client.%s: %s: an explicit 0 is treated as 'not given' and replaced by the serializer's flags, so the item is later decoded as another type" % (m.name, badf), fn=m, node=m.node)
    r1.floor("store commands with explicit flags", n_f, 6)

    # ------------------------------------------------------------------ R2 one pass over caller iterables
    r2 = chk.rule("C04.R2", "caller-supplied key collections are traversed at most once unless materialised first")
    targets = []
    for cname in ("Client", "HashClient", "PooledClient"):
        for mname in ("get_many", "gets_many", "delete_many"):
            f = prog.method(cname, mname, required=False)
            if f is not None:
                targets.append((f, f.pos_params()[0].name))
    fetch = [f for f in exchange.reading_exchange_functions(prog) if f.param("noreply") is None]
    for f in fetch:
        if f.param("keys") is not None:
            targets.append((f, "keys"))
    r2.floor("functions taking a caller-supplied key collection", len(targets), 7)
    for f, pname in targets:
        uses = _consuming_uses(f, pname)
        r2.expect(len(uses) <= 1, "%s consumes `%s` %d time(s)" % (f.qualname, pname, len(uses)), "%s:iterates-%s-twice" % (f.qualname, pname), "%s traverses the caller's `%s` %d times (%s) without materialising it first: with a generator or other one-shot iterable the later passes see nothing, so keys are silently lost or not mapped back" % (f.qualname, pname, len(uses), "; ".join("`%s`" % node_src(u, 50) for u in uses)), fn=f, node=uses[1] if len(uses) > 1 else f.node)

    # ------------------------------------------------------------------ R3 key remapping / value identity on the fetch path
    r3 = chk.rule("C04.R3", "fetch: results are keyed by the caller's own key object, deserialised with that key, the bytes read for the same VALUE line and its flags; single-key reads return the found value itself")
    # decided by evaluating the public methods end to end against scripted replies on exact key collections (the
    # machinery of C05.R3): the value handed back for caller key K is deserialize(K, data block of K's VALUE line,
    # flags of that line) [, its cas token]; store results are reported under the caller's key objects
    from . import rules_C05

    n_rows = rules_C05.retrieval_rows(prog, r3) + rules_C05.storage_rows(prog, r3, keying_only=True, tier=chk.tier)
    rules_C05.size_thresholds(prog, r3)
    r3.floor("decision rows", n_rows, 40)

    # ------------------------------------------------------------------ R4 prefix symmetry
    r4 = chk.rule("C04.R4", "prefix symmetry: every key-addressed command validates and sends its key with self.key_prefix")
    prefix_symmetry(prog, r4)
    from .rules_C20 import wrapper_returns

    wrapper_returns(prog, r4)
    # ------------------------------------------------------------------ R5 serializer tables (re-run of the C15 rules)
    r5 = chk.rule("C04.R5", "values written through the pickle / compressed serializers are read back through the inverse decoder: the C15 dispatch and compression-flag tables hold")
    from . import rules_C15, report

    sub = report.Check("C04", prog, tier=chk.tier, seed=chk.seed)
    rules_C15.run(sub)
    n_sub = 0
    for r in sub.rules:
        if r.id in ("C15.R2", "C15.R3", "C15.R5"):
            n_sub += r.obligations
            for fnd in r.findings:
                r5.fail("via-" + fnd.key, "a stored value does not come back: " + fnd.msg, file=fnd.file, line=fnd.line)
    r5.ok("serializer writer/reader tables and the COMPRESSED flag decision agree (%d obligations of C15.R2/R3/R5 re-checked)" % n_sub)
    # a fetch answers from its own reply: a connection that stays in use after a failed exchange delivers an older
    # request's reply - the value of another key, or the value this key had before it was overwritten
    from . import rules_C01

    report.include_rules(chk, r5, rules_C01, ("C01.R1",), "a failed exchange closes the connection, so no later fetch reads the reply of an earlier request")
    # the value block is delivered as sent however the reply is cut into pieces (the sized reader's segmentation rows)
    from . import rules_C03

    report.include_rules(chk, r5, rules_C03, ("C03.R6",), "a value comes back byte for byte however the reply is cut into received pieces")
    # through FallbackClient a read returns the first cache's answer, not a merge in which an older cache's copy wins
    from . import rules_C18

    report.include_rules(chk, r5, rules_C18, ("C18.R2",), "a value fetched through FallbackClient is the first answering cache's value")
    from . import rules_C12

    report.include_rules(chk, r5, rules_C12, ("C12.R2",), "through HashClient a plain key - whatever its length and type - is routed and sent as it is; only a 2-tuple is a (server_key, key) pair")
    report.include_rules(chk, r5, rules_C12, ("C12.R3", "C12.R4"), "through HashClient every requested key is asked of its server and every answer is in the merged result")
    # the prefix never leaks into results: fetch results are keyed through the remap (R3); stats/cache_memlimit use b""
    chk.assume("a faithful memcached returns exactly the bytes it was given; serializer round trips are C15")


def prefix_symmetry(prog, r4):
    n_k = 0
    for m in wire.wire_methods(prog):
        first = m.pos_params()[0].name if m.pos_params() else None
        if first not in ("key", "keys", "values"):
            # not key-addressed (stats, cache_memlimit, ...): what is validated like a key there is an argument of the
            # command, not a name in the key space - it must go out as given, without the client's key_prefix
            dom = wire.evaluate(prog, m)
            badp = None
            for ev in dom.events:
                for cmd in wire.commands_of(ev["wire"]):
                    for fr in _flat(cmd):
                        if fr[0] == "key" and fr[2] != Const(b""):
                            badp = "an argument of the command is sent with the prefix %s" % wire.describe(fr[2])
            if badp is not None:
                r4.fail("Client.%s:argument-prefixed" % m.name, "Client.%s: %s; `%s` takes no keys, so the prefix turns e.g. `stats items` into `stats <prefix>items`" % (m.name, badp, m.name), fn=m, node=m.node)
            continue
        dom = wire.evaluate(prog, m)
        bad = None
        cnt = 0
        unknown = False
        for ev in dom.events:
            for cmd in wire.commands_of(ev["wire"]):
                unknown = unknown or wire.lost(_flat(cmd))
                for fr in _flat(cmd):
                    if fr[0] == "key":
                        cnt += 1
                        if fr[2] != wire.SelfAttr("key_prefix"):
                            bad = bad or "a key is validated and sent with prefix %s instead of self.key_prefix: the item lives under another name than the one set()/get() use, so it is not found (or found by the wrong client)" % wire.describe(fr[2])
        n_k += cnt
        if bad is None and cnt == 0 and unknown:
            r4.undecided("Client.%s:key-prefix" % m.name, "Client.%s: what is sent contains a piece the wire domain lost; whether and how the key reaches the wire is not known" % m.name)
            continue
        r4.expect(bad is None and cnt > 0, "Client.%s: %d key fragment(s), all with self.key_prefix" % (m.name, cnt), "Client.%s:key-prefix" % m.name, "Client.%s: %s" % (m.name, bad or "no key reaches the wire"), fn=m, node=m.node)
    r4.floor("key fragments", n_k, 18)


def _flat(frags):
    for f in frags:
        if f[0] == "rep":
            for p in f[1]:
                yield from _flat(wire.to_frags(p))
        else:
            yield f


def _consuming_uses(f, pname):
    """Expressions that traverse the iterable `pname` (in source order), up to a materialising re-binding."""
    uses = []
    stmts = sorted([n for n in walk_no_nested(f.node) if isinstance(n, ast.stmt)], key=lambda n: (n.lineno, n.col_offset))
    rebound_at = None
    for s in stmts:
        if isinstance(s, ast.Assign) and any(isinstance(x, ast.Name) and x.id == pname for t in s.targets for x in ast.walk(t)):
            v = s.value
            if isinstance(v, ast.Call) and call_name(v) in ("list", "tuple", "dict.fromkeys", "set", "frozenset", "sorted") and v.args and isinstance(v.args[0], ast.Name) and v.args[0].id == pname:
                uses.append(v)
            # from here on the name denotes another value (materialised copy or something else)
            rebound_at = (s.lineno, s.col_offset)
            break
        if isinstance(s, ast.For) and any(isinstance(x, ast.Name) and x.id == pname for x in ast.walk(s.target)):
            rebound_at = (s.lineno, s.col_offset)
            break
    def before(n):
        return rebound_at is None or (n.lineno, getattr(n, "col_offset", 0)) < rebound_at

    seen = set(id(u) for u in uses)
    for n in sorted(walk_no_nested(f.node), key=lambda n: (getattr(n, "lineno", 0), getattr(n, "col_offset", 0))):
        if not hasattr(n, "lineno") or not before(n):
            continue
        if isinstance(n, ast.For) and isinstance(n.iter, ast.Name) and n.iter.id == pname:
            uses.append(n.iter)
        elif isinstance(n, (ast.ListComp, ast.SetComp, ast.DictComp, ast.GeneratorExp)):
            for g in n.generators:
                if isinstance(g.iter, ast.Name) and g.iter.id == pname:
                    uses.append(n)
        elif isinstance(n, ast.Call) and id(n) not in seen:
            cn = call_name(n)
            args = list(n.args) + [k.value for k in n.keywords]
            direct = [a for a in args if isinstance(a, ast.Name) and a.id == pname]
            if direct and cn not in ("isinstance", "len", "bool", "type", "id", "iter"):
                uses.append(n)
    # de-duplicate nested reports
    out = []
    for u in uses:
        if not any(u is not v and any(x is u for x in ast.walk(v)) for v in uses):
            out.append(u)
    return out
