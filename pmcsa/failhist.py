"""HashClient failover on histories (C13.R7).

The gate tables of C13.R1-R4 decide what one call does in one bookkeeping state; the property speaks about *histories*
of failures, recoveries and elapsed time.  Here HashClient is interpreted on a concrete cluster: two servers (three in
the thorough tier) given as UNIX-socket style names, two keys with scripted placement preferences, a scripted clock, and
per-server health that the history switches.  `__init__` builds the client; then every sequence of

    get(K1) / get(K2)                     a key-addressed operation (through _run_cmd, the real routing and gates)
    tick 1 s / 15 s / 70 s                below retry_timeout (10), between it and dead_timeout (60), above it
    toggle A / toggle B                   the server starts failing (with the scenario's error kind) / recovers

is followed breadth-first to a depth bound, with states compared after times are made relative to `now` (and clamped
beyond every timeout), so that equal bookkeeping is one state.  After every operation:

  F1  a server that is failing was contacted at most twice within any retry_timeout and at most retry_attempts + 2
      times within any dead_timeout of its current failure episode
  F2  with retry_attempts >= 1 one failed contact does not take the server out of rotation
  F3  a key whose preferred server is out of rotation is answered by the next preferred server that is in rotation
  F4  a key whose preferred server never failed is answered by that server
  F5  what escapes is the contacted server's own error or MemcacheError('all servers down'), nothing else, and nothing
      at all with ignore_exc
  F6  from every reachable state, once all servers are healthy, two dead_timeout periods of traffic bring every key
      back to its preferred server

The hasher is summarised as what C11.R4 proves it to be (a set-like rotation; get_node = the most preferred node in
rotation).  Nothing of /repo is executed."""
import ast
import itertools

from .model import is_self_attr, call_name
from .spec import CLOCKS
from .paths import Interp, Domain, Env, TOP, NONE, Const, TupleV, Exc, ORD, Opaque
from .colls import ExactCollections, carry_over, deref, Ref, DictV, content

RETRY_TIMEOUT, DEAD_TIMEOUT = 10, 60
T0 = 1000
FAR = 200  # older than every timeout: all such ages behave alike
BoundCall = __import__("collections").namedtuple("BoundCall", "obj attr")
PREFS = {"K1": ("A", "B", "C"), "K2": ("B", "A", "C"), "K3": ("C", "B", "A")}


class FailDomain(ExactCollections, Domain):
    async_enabled = False
    subscript_may_raise = False
    unpack_may_raise = False
    max_inline_depth = 7

    owner = "HashClient"  # the class whose methods `self.<m>()` resolves to (the AWS subclass for C19.R6)

    def mark_imprecise(self, state, node):
        return state.set("#imprecise", 1)

    def is_global_key(self, k):
        return isinstance(k, tuple) or (isinstance(k, str) and (k.startswith("self.") or k.startswith("#")))

    def name_load(self, name, state, node=None):
        if state.has(name):
            return state.get(name)
        if name in ("PooledClient", "Client"):
            return Opaque("class:" + name)
        if name in ("tuple", "list", "str", "bytes", "dict"):
            return Opaque("type:" + name)
        if name == "_RE_AWS_ENDPOINT":
            return Opaque("regex")
        return TOP

    def attr_load(self, objval, node, state):
        b = self.coll_attr(objval, node)
        if b is not None:
            return b
        if is_self_attr(node):
            if state.has("self." + node.attr):
                return state.get("self." + node.attr)
            if node.attr == "client_class":
                return Opaque("class:Client")
            return TOP
        if isinstance(objval, Opaque) and objval.tag.startswith("client:"):
            if node.attr == "server":
                return state.get("#spec:" + objval.tag, Const(_srv(objval)))
            return BoundCall(objval, node.attr)
        if objval in (Opaque("hasher"), Opaque("regex")):
            return BoundCall(objval, node.attr)
        return TOP

    def attr_store(self, objval, node, value, state):
        if isinstance(objval, Opaque) and objval.tag.startswith("client:"):
            return state  # (client.client_class = ... under pooling)
        return super().attr_store(objval, node, value, state)

    def truth(self, v, state=None):
        if isinstance(v, (Opaque, BoundCall)):
            return True
        return super().truth(v, state)

    def never_none(self, v):
        return isinstance(v, (Opaque, BoundCall)) or super().never_none(v)

    def compare(self, node, op, l, r, state):
        if isinstance(op, (ast.Is, ast.IsNot)) and isinstance(l, (Opaque, Const)) and isinstance(r, (Opaque, Const)):
            same = l == r
            return Const(same if isinstance(op, ast.Is) else not same)
        return super().compare(node, op, l, r, state)

    def _ev(self, state, *e):
        return state.set("#ev", state.get("#ev", ()) + (tuple(e),))

    def binop(self, node, l, r, state):
        if isinstance(node.op, ast.Mod) and isinstance(l, Const) and isinstance(l.v, str) and isinstance(r, TupleV) and all(isinstance(x, Const) for x in r.items):
            try:
                return Const(l.v % tuple(x.v for x in r.items))  # "%s:%s" % (host, port)
            except (TypeError, ValueError):
                return TOP
        return super().binop(node, l, r, state)

    def call(self, node, fval, args, kwargs, state):
        name = call_name(node)
        if name in CLOCKS:
            return [("ok", Const(state.get("#clock", T0)), state)]
        if name.startswith("logger.") or name == "check_key_helper":
            return [("ok", NONE, state)]
        if name == "normalize_server_spec" and args:
            return [("ok", args[0], state)]
        if name == "isinstance" and len(args) == 2:
            v = args[0]
            if isinstance(v, Const) and isinstance(v.v, str):
                names = [t.tag[5:] for t in (args[1].items if isinstance(args[1], TupleV) else [args[1]]) if isinstance(t, Opaque) and t.tag.startswith("type:")]
                return [("ok", Const("str" in names), state)]
            if isinstance(v, TupleV):
                names = [t.tag[5:] for t in (args[1].items if isinstance(args[1], TupleV) else [args[1]]) if isinstance(t, Opaque) and t.tag.startswith("type:")]
                return [("ok", Const("tuple" in names), state)]
            if isinstance(v, Opaque) and v.tag.startswith("K"):
                return [("ok", Const(False), state)]  # the keys of the scenario are plain keys, not (server_key, key) pairs
            return [("ok", TOP, self.mark_imprecise(state, node))]
        if name == "getattr" and len(args) == 2 and isinstance(args[0], Opaque) and args[0].tag.startswith("client:") and isinstance(args[1], Const):
            return [("ok", BoundCall(args[0], args[1].v), state)]
        if isinstance(fval, Opaque) and fval.tag.startswith("class:"):
            if fval.tag == "class:hasher":
                return [("ok", Opaque("hasher"), state.set("#rotation", ()))]
            srv = args[0] if args else TOP
            if isinstance(srv, TupleV) and len(srv.items) == 2 and all(isinstance(x, Const) for x in srv.items):
                # a (host, port) spec: the client remembers it as given
                n = state.get("#nclients", 0) + 1
                tag = "client:%s:%s#%d" % (srv.items[0].v, srv.items[1].v, n)
                return [("ok", Opaque(tag), state.set("#nclients", n).set("#spec:" + tag, srv))]
            if isinstance(srv, Const) and isinstance(srv.v, str):
                # every client object has its own identity (a server can get a new client object later)
                n = state.get("#nclients", 0) + 1
                return [("ok", Opaque("client:%s#%d" % (srv.v, n)), state.set("#nclients", n))]
            return [("ok", TOP, self.mark_imprecise(state, node))]
        if isinstance(fval, BoundCall) and fval.obj == Opaque("hasher"):
            rot = state.get("#rotation", ())
            n = args[0] if args else TOP
            if fval.attr == "add_node" and isinstance(n, Const):
                return [("ok", NONE, state.set("#rotation", rot + ((n.v,) if n.v not in rot else ())))]
            if fval.attr == "remove_node" and isinstance(n, Const):
                if n.v not in rot:
                    return [("exc", Exc(ORD, "ValueError", node.lineno), state)]
                return [("ok", NONE, state.set("#rotation", tuple(x for x in rot if x != n.v)))]
            if fval.attr == "get_node" and isinstance(n, Opaque) and n.tag in PREFS:
                for s in PREFS[n.tag]:
                    if s in rot:
                        return [("ok", Const(s), state)]
                return [("ok", NONE, state)]
            return [("ok", TOP, self.mark_imprecise(state, node))]
        if isinstance(fval, BoundCall) and fval.obj == Opaque("regex"):
            return [("ok", Opaque("match"), state)]
        if name == "int" and len(args) == 1 and isinstance(args[0], Const):
            return [("ok", Const(int(args[0].v)), state)]
        if name == "self._get_nodes_list":
            return [("ok", TupleV(tuple(Const(x) for x in state.get("#advertised", ()))), state)]
        if isinstance(fval, BoundCall) and isinstance(fval.obj, Opaque) and fval.obj.tag.startswith("client:"):
            srv = _srv(fval.obj)
            if fval.attr in ("close", "quit"):
                return [("ok", NONE, self._ev(state, "close", fval.obj.tag))]
            status = dict(state.get("#health", ())).get(srv, "ok")
            st = self._ev(state, "contact", srv, status)
            if status == "ok":
                return [("ok", Opaque("value:%s" % srv), st)]
            return [("exc", Exc(ORD, "OSError" if status == "oserror" else "MemcacheUnknownError", "contact:" + srv), st)]
        r = self.coll_call(node, fval, args, kwargs, state)
        if r is not None:
            return r
        if name.startswith("self.") and name.count(".") == 1 and self.prog is not None:
            m = self.prog.method(self.owner, name[5:], required=False)
            if m is not None:
                # *list and **dict arguments that are heap objects are passed by content
                args = list(args)
                for i, an in enumerate(node.args):
                    if isinstance(an, ast.Starred) and i < len(args) and isinstance(args[i], Ref):
                        c = content(args[i], state)
                        args[i] = c if c is not None else TOP
                kw = {}
                for k, v in kwargs.items():
                    if k.startswith("**") and isinstance(v, Ref):
                        c = content(v, state)
                        if isinstance(c, DictV) and all(isinstance(kk, Const) for kk, vv in c.items):
                            kw.update({kk.v: vv for kk, vv in c.items})
                            continue
                    kw[k] = v
                kwargs = kw
                res = self.inline(node, m, args, kwargs, state)
                if res is not None:
                    return res
        if isinstance(node.func, ast.Name) and self.prog is not None:
            # a module-level helper of hash.py / aws_ec_client.py (e.g. an extracted legacy-argument normaliser)
            for modrel in ("pymemcache/client/hash.py", "pymemcache/client/ext/aws_ec_client.py"):
                mod = self.prog.modules.get(modrel)
                if mod is not None and node.func.id in mod.functions:
                    res = self.inline(node, mod.functions[node.func.id], args, kwargs, state)
                    if res is not None:
                        return res
        return [("ok", TOP, state)]


def _srv(client):
    return client.tag[7:].split("#")[0]


def _keep(k):
    return k.startswith("self.") or k.startswith("#spec:") or k in ("#rotation", "#nclients")


def _normalise(carried, now):
    """Times relative to `now` (so that equal bookkeeping at different clock values is one state), ages beyond every
    timeout clamped."""

    def conv(v):
        if isinstance(v, Const) and isinstance(v.v, (int, float)) and not isinstance(v.v, bool) and v.v >= T0 - FAR:
            age = min(now - v.v, FAR)
            return Const(T0 - age)
        if isinstance(v, TupleV):
            return TupleV(tuple(conv(x) for x in v.items))
        if isinstance(v, DictV):
            return DictV(tuple((k, conv(x)) for k, x in v.items))
        return v

    return {k: conv(v) for k, v in carried.items()}


class _Undecided(Exception):
    pass


def _explore(work):
    """One configuration (retry_attempts, ignore_exc, error kind), explored in its own process.
    -> (findings [(construct, msg)], undecided [(construct, msg)], states, calls)"""
    root, overlay, tier, R, ign, kind = work
    from .model import Program

    prog = Program(root=root, overlay=overlay)
    hc = prog.cls("HashClient")
    init = prog.method(hc, "__init__")
    runcmd = prog.method(hc, "_run_cmd")
    thorough = tier == "thorough"
    servers = ("A", "B", "C") if thorough else ("A", "B")
    keys = ("K1", "K2", "K3") if thorough else ("K1", "K2")
    depth = 7
    reported = {}
    undecided = []
    n_calls = [0]
    n_states = 0

    class _Rule:
        def undecided(self, construct, msg):
            undecided.append((construct, msg))

    rule = _Rule()

    def fail(construct, msg, f=None):
        reported.setdefault(construct, msg)

    def run(f, carried, extra, **argv):
        dom = FailDomain(prog, f)
        env = dict(carried)
        env.update(extra)
        for p in f.params:
            if p.name == "self":
                continue
            if p.name in argv:
                env[p.name] = argv[p.name]
            elif p.kind == "vararg":
                env[p.name] = TupleV(())
            elif p.kind == "kwarg":
                from .colls import new_object

                new_object(env, p.name, "dict", DictV(()))
            elif p.has_default:
                env[p.name] = Const(p.default.value) if isinstance(p.default, ast.Constant) else NONE
            else:
                env[p.name] = TOP
        n_calls[0] += 1
        return Interp(dom, f.node, prog).run(Env(env))

    def books(carried):
        def d(name):
            v = carried.get("self." + name)
            c = carried.get(("heap", v)) if isinstance(v, Ref) else None
            return {k.v: x for k, x in c.items} if isinstance(c, DictV) and all(isinstance(k, Const) for k, x in c.items) else None

        return d("_failed_clients"), d("_dead_clients"), tuple(carried.get("#rotation", ()))

    def operation(carried, health, clock, key):
        """-> (kind, value, contacts, carried2) or None when not exactly known"""
        outs = run(runcmd, carried, {"#clock": clock, "#health": tuple(sorted(health.items())), "#ev": ()}, cmd=Const("get"), key=Opaque(key), default_val=Opaque("default"))
        rets, excs = outs.of("ret"), outs.of("exc")
        if len(rets) + len(excs) != 1 or any(s.get("#imprecise", 0) for s, v, t in rets + excs):
            return None
        s2, v2, _ = (rets or excs)[0]
        contacts = [e for e in s2.get("#ev", ()) if e[0] == "contact"]
        return ("ret" if rets else "exc"), (deref(v2, s2) if rets else v2), contacts, carry_over(s2, _keep)

    for _once in (1,):
        cfg = "retry_attempts=%d, ignore_exc=%s, servers fail with %s" % (R, ign, "OSError" if kind == "oserror" else "a non-socket error")
        outs = run(init, {}, {"#clock": T0}, servers=TupleV(tuple(Const(s) for s in servers)), hasher=Opaque("class:hasher"), retry_attempts=Const(R), retry_timeout=Const(RETRY_TIMEOUT), dead_timeout=Const(DEAD_TIMEOUT), ignore_exc=Const(ign))
        rets = outs.of("ret")
        if len(rets) != 1 or outs.of("exc") or rets[0][0].get("#imprecise", 0):
            rule.undecided("HashClient.__init__:histories", "the constructor does not leave one exactly known client (%s: %d normal exits, %d raising)" % (cfg, len(rets), len(outs.of("exc"))))
            return sorted(reported.items()), undecided, n_states, n_calls[0]
        start = carry_over(rets[0][0], _keep)
        if books(start)[0] is None or tuple(start.get("#rotation", ())) != servers:
            rule.undecided("HashClient.__init__:histories", "after construction the failover bookkeeping is not exactly known (rotation %s)" % (start.get("#rotation"),))
            return sorted(reported.items()), undecided, n_states, n_calls[0]
        # explored state: (carried bookkeeping [times relative], health, failed-contact ages per server, servers that ever failed)
        seen = set()
        # two explorations: every kind of event to depth 7, and - because the probing bounds speak about windows of
        # dead_timeout, which take many steps to fill - a long one (depth 14) in which the first server fails from the
        # start and never recovers and only its key is used, with clock steps just above retry_timeout
        passes = [
            (tuple((s, "ok") for s in servers), None, depth, ()),
            (tuple((s, kind if s == servers[0] else "ok") for s in servers), [("get", keys[0]), ("tick", RETRY_TIMEOUT + 1)], 14, ("%s fails from the start" % servers[0],)),
        ]
        if kind != "oserror":
            passes = passes[:1]
        for health0, only_events, pass_depth, hist0 in passes:
          init_state = (tuple(sorted(_normalise(start, T0).items(), key=str)), health0, tuple((s, ()) for s in servers), frozenset())
          frontier = [(init_state, hist0)]
          seen.add(init_state)
          for d in range(pass_depth):
              nxt = []
              for (frozen, health_t, ages_t, ever), hist in frontier:
                  carried = dict(frozen)
                  health = dict(health_t)
                  ages = dict(ages_t)
                  where = "%s; after %s" % (cfg, ", ".join(hist) or "construction")
                  # (quick tier: only the first server's health changes - by symmetry of the two servers and keys nothing is
                  # lost for single-server failures; the thorough tier lets every server fail)
                  events = [("get", k) for k in keys] + [("tick", dt) for dt in (1, 15, 70)] + [("toggle", s) for s in (servers if thorough else servers[:1])]
                  if only_events is not None:
                      events = only_events
                  for ev, arg in events:
                      h2 = hist + ("%s(%s)" % (ev, arg),)
                      if ev == "tick":
                          # the clock moves: every recorded time gets older (the state stores ages through _normalise)
                          c2 = _normalise(carried, T0 + arg)
                          a2 = {s: tuple(min(a + arg, FAR) for a in ages[s]) for s in servers}
                          st = (tuple(sorted(c2.items(), key=str)), health_t, tuple(sorted(a2.items())), ever)
                      elif ev == "toggle":
                          hl = dict(health)
                          hl[arg] = kind if hl[arg] == "ok" else "ok"
                          st = (frozen, tuple(sorted(hl.items())), ages_t, ever)
                      else:
                          failed_b, dead_b, rot_b = books(carried)
                          res = operation(carried, health, T0, arg)
                          if res is None:
                              rule.undecided("HashClient._run_cmd:histories", "%s: %s does not have one exactly known outcome" % (where, h2[-1]))
                              return sorted(reported.items()), undecided, n_states, n_calls[0]
                          okind, val, contacts, c2 = res
                          failed_a, dead_a, rot_a = books(c2)
                          if failed_a is None or dead_a is None:
                              rule.undecided("HashClient._run_cmd:histories", "%s: after %s the failover bookkeeping is not exactly known" % (where, h2[-1]))
                              return sorted(reported.items()), undecided, n_states, n_calls[0]
                          a2 = dict(ages)
                          ever2 = set(ever)
                          bad = False
                          for _, srv, status in contacts:
                              if status != "ok":
                                  a2[srv] = a2[srv] + (0,)
                                  ever2.add(srv)
                              else:
                                  a2[srv] = ()  # the client has seen the server answer: a later failure starts a new episode
                          # F1 bounded probing
                          for srv in servers:
                              if not a2[srv] or kind != "oserror":
                                  # (only connection-level failures - OSError, which includes time-outs - count as the
                                  # server failing; an error reply is the caller's business and changes no bookkeeping)
                                  continue
                              in_rt = sum(1 for a in a2[srv] if a < RETRY_TIMEOUT)
                              in_dt = sum(1 for a in a2[srv] if a < DEAD_TIMEOUT)
                              if in_rt > 2:
                                  fail("probing:retry-window", "%s: with %s the failing server %s has been contacted %d times within %d s (retry_timeout); at most 2 are allowed" % (where, h2[-1], srv, in_rt, RETRY_TIMEOUT))
                                  bad = True
                              if in_dt > R + 2:
                                  fail("probing:dead-window", "%s: with %s the failing server %s has been contacted %d times within %d s (dead_timeout); at most retry_attempts + 2 = %d are allowed" % (where, h2[-1], srv, in_dt, DEAD_TIMEOUT, R + 2))
                                  bad = True
                              # F2 one failure does not evict
                              if R >= 1 and len(a2[srv]) == 1 and srv in rot_b and srv not in rot_a:
                                  fail("eviction:single-failure", "%s: %s takes server %s out of rotation after a single failed contact although retry_attempts=%d" % (where, h2[-1], srv, R))
                                  bad = True
                          # F3 / F4 who answers
                          pref = [s for s in PREFS[arg] if s in servers]
                          in_rot = [s for s in pref if s in rot_b]
                          contacted = [c[1] for c in contacts]
                          if pref[0] not in ever and pref[0] not in ever2 - set(ever) and health[pref[0]] == "ok":
                              if contacted != [pref[0]] or okind != "ret" or val != Opaque("value:%s" % pref[0]):
                                  fail("bypass:healthy-server", "%s: %s is owned by server %s, which never failed, but the call contacts %s and %s" % (where, h2[-1], pref[0], contacted or "nobody", "returns %s" % (val,) if okind == "ret" else "raises %s" % val.cls))
                                  bad = True
                          # (a dead server whose dead_timeout has run out may be revived by this very call: then it is asked)
                          out_for_now = pref[0] in (dead_b or {}) and isinstance(dead_b[pref[0]], Const) and T0 - dead_b[pref[0]].v <= DEAD_TIMEOUT
                          if out_for_now and in_rot and in_rot[0] != pref[0] and health[in_rot[0]] == "ok" and in_rot[0] not in (failed_b or {}):
                              if contacted != [in_rot[0]] or okind != "ret" or val != Opaque("value:%s" % in_rot[0]):
                                  fail("reroute:not-served", "%s: the preferred server of %s is out of rotation; the call should be answered by %s, but it contacts %s and %s" % (where, h2[-1], in_rot[0], contacted or "nobody", "returns %s" % (val,) if okind == "ret" else "raises %s" % val.cls))
                                  bad = True
                          # F5 what escapes
                          if okind == "exc":
                              own = isinstance(val.origin, str) and val.origin.startswith("contact:")
                              alldown = val.cls == "MemcacheError" and not rot_b
                              if ign:
                                  fail("escape:ignore_exc", "%s: %s raises %s although ignore_exc is set" % (where, h2[-1], val.cls))
                                  bad = True
                              elif not own and not alldown:
                                  fail("escape:internal-error", "%s: %s raises %s, which is neither the contacted server's own error nor 'all servers down': an internal bookkeeping error reaches the caller" % (where, h2[-1], val.cls))
                                  bad = True
                          if bad:
                              continue
                          st = (tuple(sorted(_normalise(c2, T0).items(), key=str)), health_t, tuple(sorted(a2.items())), frozenset(ever2))
                      if st not in seen:
                          seen.add(st)
                          nxt.append((st, h2))
              frontier = nxt
              if not frontier:
                  break
        # F6 recovery, probed from every reached state
        for frozen in sorted({st[0] for st in seen}, key=str):
            carried = dict(frozen)
            health = {s: "ok" for s in servers}
            clock = T0
            ok = True
            for rnd in range(2):
                clock += DEAD_TIMEOUT + 1
                for k in keys:
                    res = operation(_normalise(carried, clock) if False else carried, health, clock, k)
                    if res is None:
                        ok = None
                        break
                    carried = res[3]
                if ok is None:
                    break
            if ok is None:
                rule.undecided("HashClient:recovery", "%s: the recovery probe does not have an exactly known outcome" % cfg)
                return sorted(reported.items()), undecided, n_states, n_calls[0]
            clock += 1
            for k in keys:
                res = operation(carried, health, clock, k)
                if res is None:
                    rule.undecided("HashClient:recovery", "%s: the recovery probe does not have an exactly known outcome" % cfg)
                    return sorted(reported.items()), undecided, n_states, n_calls[0]
                okind, val, contacts, carried = res
                owner = [s for s in PREFS[k] if s in servers][0]
                if okind != "ret" or val != Opaque("value:%s" % owner):
                    fb, db, rot = books(dict(frozen))
                    fail("recovery:placement-not-restored", "%s: from the bookkeeping state (rotation %s, failing %s, dead %s) with every server healthy again, two dead_timeout periods of traffic later %s is still %s instead of being answered by its own server %s" % (cfg, list(rot), sorted(fb or {}), sorted(db or {}), k, "answered by %s" % val.tag[6:] if okind == "ret" and isinstance(val, Opaque) and val.tag.startswith("value:") else ("returning %s" % (val,) if okind == "ret" else "raising %s" % val.cls), owner))
                    break
        n_states += len(seen)
    return sorted(reported.items()), undecided, n_states, n_calls[0]


def failover_histories(prog, rule, tier):
    from concurrent.futures import ProcessPoolExecutor

    runcmd = prog.method("HashClient", "_run_cmd")
    work = [(prog.root, getattr(prog, "overlay", None) or None, tier, R, ign, kind) for R, ign, kind in itertools.product((0, 1, 2), (False, True), ("oserror", "other"))]
    with ProcessPoolExecutor(min(16, len(work))) as ex:
        parts = list(ex.map(_explore, work))
    seen_f, n_states, n_calls = set(), 0, 0
    for findings, undecided, st, calls in parts:
        n_states += st
        n_calls += calls
        for construct, msg in undecided:
            rule.undecided(construct, msg)
        for construct, msg in findings:
            if construct not in seen_f:
                seen_f.add(construct)
                rule.fail("HashClient:" + construct, msg, fn=runcmd, node=runcmd.node)
    rule.count("failover states reached by histories", n_states)
    rule.count("HashClient calls interpreted", n_calls)
    rule.floor("failover states reached by histories", n_states, 2000)
    if not seen_f and not any(u for f_, u, s_, c_ in parts):
        rule.ok("every history of operations, clock steps and failures / recoveries up to depth 7 (%d bookkeeping states over 12 configurations): probing is bounded, one failure does not evict, keys of an evicted server are served by the next one, healthy servers are never bypassed, only the server's own error escapes, placement is restored after recovery" % n_states)
    return n_calls


# =====================================================================================================================
# C19.R6: AWSElastiCacheHashClient under histories of re-discoveries, failures and elapsed time
# =====================================================================================================================
class AwsDomain(FailDomain):
    owner = "AWSElastiCacheHashClient"


def reconfigure_histories(prog, rule, tier):
    """The AWS client interpreted on a concrete cluster: the constructor (with the first advertised node list), then
    every sequence of get(K) / reconfigure_nodes() with a new advertised list / a server starting or ceasing to fail /
    70 s passing, to a depth bound.  After every re-discovery the rotation and the client table are exactly the
    advertised nodes and every client object that was dropped has been closed, once, while no client still in use is
    closed; every operation, at any later time, contacts an advertised node only - the preferred one in rotation - and
    nothing but that node's own error (or 'all servers down') escapes."""
    aws = prog.cls("AWSElastiCacheHashClient")
    init = prog.method(aws, "__init__")
    reconf = prog.method(aws, "reconfigure_nodes")
    runcmd = prog.method(aws, "_run_cmd")
    thorough = tier == "thorough"
    lists = [("A", "B"), ("B",), ("A", "B", "C"), ("C", "A")] if thorough else [("A", "B"), ("B",), ("B", "C")]
    keys = ("K1", "K2")
    depth = 8 if thorough else 7
    reported = set()
    n_calls = [0]
    total_states = 0

    def fail(construct, msg, f):
        if construct not in reported:
            reported.add(construct)
            rule.fail("AWSElastiCacheHashClient:" + construct, msg, fn=f, node=f.node)

    def run(f, carried, extra, **argv):
        dom = AwsDomain(prog, f)
        env = dict(carried)
        env.update(extra)
        for p in f.params:
            if p.name == "self":
                continue
            if p.name in argv:
                env[p.name] = argv[p.name]
            elif p.kind == "vararg":
                env[p.name] = TupleV(())
            elif p.kind == "kwarg":
                from .colls import new_object

                new_object(env, p.name, "dict", DictV(()))
            elif p.has_default:
                env[p.name] = Const(p.default.value) if isinstance(p.default, ast.Constant) else NONE
            else:
                env[p.name] = TOP
        n_calls[0] += 1
        return Interp(dom, f.node, prog).run(Env(env))

    def table(carried, name):
        v = carried.get("self." + name)
        c = carried.get(("heap", v)) if isinstance(v, Ref) else None
        return {k.v: x for k, x in c.items} if isinstance(c, DictV) and all(isinstance(k, Const) for k, x in c.items) else None

    def one(outs, what):
        rets, excs = outs.of("ret"), outs.of("exc")
        if len(rets) + len(excs) != 1 or any(s.get("#imprecise", 0) for s, v, t in rets + excs):
            rule.undecided("AWSElastiCacheHashClient:histories", "%s does not have one exactly known outcome (%d normal, %d raising)" % (what, len(rets), len(excs)))
            return None
        s2, v2, _ = (rets or excs)[0]
        return ("ret" if rets else "exc"), v2, s2

    def after_reconf(where, carried_before, s2, adv, f):
        """The obligations of one re-discovery; -> carried state or None (reported)."""
        c2 = carry_over(s2, _keep)
        clients_a, rot = table(c2, "clients"), tuple(c2.get("#rotation", ()))
        if clients_a is None:
            rule.undecided("AWSElastiCacheHashClient:histories", "%s: the client table is not exactly known afterwards" % where)
            return None
        ok = True
        if sorted(rot) != sorted(adv):
            fail("rediscovery:rotation", "%s: the rotation is %s, the endpoint advertises %s: keys are routed to a node that is no longer (or not yet) part of the cluster" % (where, list(rot), list(adv)), f)
            ok = False
        if sorted(clients_a) != sorted(adv):
            fail("rediscovery:clients", "%s: there are clients for %s, the endpoint advertises %s" % (where, sorted(clients_a), list(adv)), f)
            ok = False
        closed = [e[1] for e in s2.get("#ev", ()) if e[0] == "close"]
        before = set(x.tag for x in (table(carried_before, "clients") or {}).values() if isinstance(x, Opaque))
        now = set(x.tag for x in clients_a.values() if isinstance(x, Opaque))
        for obj in sorted(before - now):
            if closed.count(obj) != 1:
                fail("rediscovery:dropped-client-not-closed", "%s: the client object %s is dropped from the table and closed %d time(s): its connection stays open (or is closed twice)" % (where, obj, closed.count(obj)), f)
                ok = False
        for obj in sorted(now):
            if obj in closed:
                fail("rediscovery:live-client-closed", "%s: the client object %s is closed although it is still the client of an advertised node" % (where, obj), f)
                ok = False
        return c2 if ok else None

    for ign in (False, True):
        cfg = "ignore_exc=%s" % ign
        outs = run(init, {}, {"#clock": T0, "#advertised": lists[0], "#ev": ()}, cfg_node=Const("cluster.cfg.use1.cache.amazonaws.com:11211"), hasher=Opaque("class:hasher"), retry_attempts=Const(1), retry_timeout=Const(RETRY_TIMEOUT), dead_timeout=Const(DEAD_TIMEOUT), ignore_exc=Const(ign))
        r = one(outs, "%s: the constructor" % cfg)
        if r is None:
            return None
        if r[0] == "exc":
            rule.undecided("AWSElastiCacheHashClient:histories", "%s: the constructor raises %s in the scenario" % (cfg, r[1].cls))
            return None
        start = after_reconf("%s: after construction with the advertised nodes %s" % (cfg, list(lists[0])), {}, r[2], lists[0], init)
        if start is None:
            continue
        seen = set()
        st0 = (tuple(sorted(_normalise(start, T0).items(), key=str)), lists[0], (("A", "ok"), ("B", "ok"), ("C", "ok")))
        seen.add(st0)
        frontier = [(st0, ())]
        for d in range(depth):
            nxt = []
            for (frozen, adv, health_t), hist in frontier:
                carried = dict(frozen)
                health = dict(health_t)
                where0 = "%s; after %s" % (cfg, ", ".join(hist) or "construction")
                events = [("get", k) for k in keys] + [("tick", 70)] + [("toggle", "B")] + [("reconf", L) for L in lists if L != adv]
                for ev, arg in events:
                    h2 = hist + ("%s(%s)" % (ev, ",".join(arg) if isinstance(arg, tuple) else arg),)
                    if ev == "tick":
                        st = (tuple(sorted(_normalise(carried, T0 + arg).items(), key=str)), adv, health_t)
                    elif ev == "toggle":
                        hl = dict(health)
                        hl[arg] = "oserror" if hl[arg] == "ok" else "ok"
                        st = (frozen, adv, tuple(sorted(hl.items())))
                    elif ev == "reconf":
                        r = one(run(reconf, carried, {"#clock": T0, "#advertised": arg, "#health": health_t, "#ev": ()}), "%s: %s" % (where0, h2[-1]))
                        if r is None:
                            return None
                        if r[0] == "exc":
                            fail("rediscovery:raises", "%s: %s raises %s" % (where0, h2[-1], r[1].cls), reconf)
                            continue
                        c2 = after_reconf("%s: %s" % (where0, h2[-1]), carried, r[2], arg, reconf)
                        if c2 is None:
                            continue
                        st = (tuple(sorted(_normalise(c2, T0).items(), key=str)), arg, health_t)
                    else:
                        rot_b = tuple(carried.get("#rotation", ()))
                        dead_b = table(carried, "_dead_clients") or {}
                        failed_b = table(carried, "_failed_clients") or {}
                        r = one(run(runcmd, carried, {"#clock": T0, "#health": health_t, "#ev": ()}, cmd=Const("get"), key=Opaque(arg), default_val=Opaque("default")), "%s: %s" % (where0, h2[-1]))
                        if r is None:
                            return None
                        okind, val, s2 = r
                        contacted = [e[1] for e in s2.get("#ev", ()) if e[0] == "contact"]
                        bad = False
                        for srv in contacted:
                            if srv not in adv:
                                fail("routing:unadvertised-node", "%s: %s contacts node %s, which the endpoint no longer advertises (advertised: %s)" % (where0, h2[-1], srv, list(adv)), runcmd)
                                bad = True
                        if okind == "exc":
                            own = isinstance(val.origin, str) and val.origin.startswith("contact:")
                            alldown = val.cls == "MemcacheError"
                            if ign or not (own or alldown):
                                fail("routing:internal-error", "%s: %s raises %s, which is not the contacted node's own error%s" % (where0, h2[-1], val.cls, " (and ignore_exc is set)" if ign else ""), runcmd)
                                bad = True
                        pref = [x for x in PREFS[arg] if x in adv]
                        if not bad and pref and health[pref[0]] == "ok" and pref[0] in rot_b and pref[0] not in dead_b and pref[0] not in failed_b and all(health[x] == "ok" for x in adv):
                            if okind != "ret" or deref(val, s2) != Opaque("value:%s" % pref[0]):
                                fail("routing:wrong-node", "%s: %s should be answered by %s, the preferred advertised node; it %s" % (where0, h2[-1], pref[0], "returns %s" % (deref(val, s2),) if okind == "ret" else "raises %s" % val.cls), runcmd)
                                bad = True
                        if bad:
                            continue
                        st = (tuple(sorted(_normalise(carry_over(s2, _keep), T0).items(), key=str)), adv, health_t)
                    if st not in seen:
                        seen.add(st)
                        nxt.append((st, h2))
            frontier = nxt
            if not frontier:
                break
        total_states += len(seen)
    rule.count("cluster states reached by re-discovery histories", total_states)
    rule.count("AWS client calls interpreted", n_calls[0])
    rule.floor("cluster states reached by re-discovery histories", total_states, 100)
    if not reported:
        rule.ok("every history of operations, re-discoveries (%d advertised lists), failures of a node and elapsed time up to depth %d (%d states): rotation and clients are exactly the advertised nodes, dropped clients are closed once, only advertised nodes are contacted" % (len(lists), depth, total_states))
    return n_calls[0]


def registration_rows(prog, rule):
    """C12.R3's registration clause, decided by interpretation: after construction with two servers the client table and
    the rotation hold exactly those two nodes, every key is answered by the client of its preferred server, and a server
    that is removed and added again is answered by its own (new) client - whatever helpers do the bookkeeping."""
    hc = prog.cls("HashClient")
    init, runcmd, add, rem = (prog.method(hc, n) for n in ("__init__", "_run_cmd", "add_server", "remove_server"))

    def run(f, carried, extra, **argv):
        dom = FailDomain(prog, f)
        env = dict(carried)
        env.update(extra)
        for p in f.params:
            if p.name == "self":
                continue
            if p.name in argv:
                env[p.name] = argv[p.name]
            elif p.kind == "vararg":
                env[p.name] = TupleV(())
            elif p.kind == "kwarg":
                from .colls import new_object

                new_object(env, p.name, "dict", DictV(()))
            elif p.has_default:
                env[p.name] = Const(p.default.value) if isinstance(p.default, ast.Constant) else NONE
            else:
                env[p.name] = TOP
        outs = Interp(dom, f.node, prog).run(Env(env))
        rets, excs = outs.of("ret"), outs.of("exc")
        if len(rets) != 1 or excs or rets[0][0].get("#imprecise", 0):
            return None
        return rets[0]

    def table(carried):
        v = carried.get("self.clients")
        c = carried.get(("heap", v)) if isinstance(v, Ref) else None
        return {k.v: x for k, x in c.items} if isinstance(c, DictV) and all(isinstance(k, Const) for k, x in c.items) else None

    base = {"#clock": T0, "#health": (("A", "ok"), ("B", "ok")), "#ev": ()}
    r = run(init, {}, base, servers=TupleV((Const("A"), Const("B"))), hasher=Opaque("class:hasher"), retry_attempts=Const(2), retry_timeout=Const(RETRY_TIMEOUT), dead_timeout=Const(DEAD_TIMEOUT), ignore_exc=Const(False))
    if r is None:
        rule.undecided("HashClient.add_server:registration", "the constructor with two servers does not have one exactly known outcome")
        return
    carried = carry_over(r[0], _keep)

    def check(carried, what, servers):
        tab, rot = table(carried), tuple(carried.get("#rotation", ()))
        ok = tab is not None and sorted(tab) == sorted(rot) == sorted(servers) and all(isinstance(tab[s], Opaque) and _srv(tab[s]) == s for s in servers)
        rule.expect(ok, "%s: clients and rotation are exactly %s, each node with the client built for it" % (what, list(servers)), "HashClient.add_server:registration", "%s: the client table is %s and the rotation %s; every server in rotation needs the client that was built for it under the name the hasher knows it by (routing looks the client up by that name)" % (what, {k: str(v) for k, v in (tab or {}).items()}, list(rot)), fn=add, node=add.node)
        if not ok:
            return False
        for k in ("K1", "K2"):
            rr = run(runcmd, carried, base, cmd=Const("get"), key=Opaque(k), default_val=Opaque("default"))
            want = [s for s in PREFS[k] if s in servers][0]
            got = [e[1] for e in rr[0].get("#ev", ()) if e[0] == "contact"] if rr is not None else None
            rule.expect(got == [want], "%s: get(%s) is answered by the client of %s" % (what, k, want), "HashClient.add_server:registration", "%s: get(%s) contacts %s instead of the client of its server %s" % (what, k, got, want), fn=add, node=add.node)
        return True

    if not check(carried, "after HashClient([A, B])", ("A", "B")):
        return
    # out and in again: the failover path (remove_server needs a failure record to pop)
    fc = carried.get("self._failed_clients")
    r2 = run(prog.method(hc, "_mark_failed_server"), carried, base, server=Const("A"))
    if r2 is not None:
        c2 = carry_over(r2[0], _keep)
        r3_ = run(rem, c2, base, server=Const("A"))
        if r3_ is not None:
            c3 = carry_over(r3_[0], _keep)
            r4_ = run(add, c3, base, server=Const("A"))
            if r4_ is not None:
                check(carry_over(r4_[0], _keep), "after remove_server(A) and add_server(A)", ("A", "B"))
                return
    rule.undecided("HashClient.add_server:registration", "removing and re-adding a server does not have one exactly known outcome in the scenario")


def node_name_rows(prog, rule):
    """C11.R5: a server given as (host, port) is known to the hasher - and filed in the client table - under the one name
    _make_client_key gives it, on the way in and on the way out."""
    hc = prog.cls("HashClient")
    init, add, rem, mck, mark = (prog.method(hc, n) for n in ("__init__", "add_server", "remove_server", "_make_client_key", "_mark_failed_server"))
    spec = TupleV((Const("10.1.2.3"), Const(11211)))

    def run(f, carried, **argv):
        dom = FailDomain(prog, f)
        env = dict(carried)
        env.update({"#clock": T0, "#health": (), "#ev": ()})
        for p in f.params:
            if p.name == "self":
                continue
            if p.name in argv:
                env[p.name] = argv[p.name]
            elif p.kind == "vararg":
                env[p.name] = TupleV(())
            elif p.kind == "kwarg":
                from .colls import new_object

                new_object(env, p.name, "dict", DictV(()))
            elif p.has_default:
                env[p.name] = Const(p.default.value) if isinstance(p.default, ast.Constant) else NONE
            else:
                env[p.name] = TOP
        outs = Interp(dom, f.node, prog).run(Env(env))
        rets, excs = outs.of("ret"), outs.of("exc")
        if len(rets) != 1 or excs or rets[0][0].get("#imprecise", 0):
            return None
        return rets[0]

    r0 = run(init, {}, servers=TupleV(()), hasher=Opaque("class:hasher"), retry_attempts=Const(2), retry_timeout=Const(RETRY_TIMEOUT), dead_timeout=Const(DEAD_TIMEOUT), ignore_exc=Const(False))
    rk = run(mck, {}, server=spec)
    if r0 is None or rk is None or not isinstance(rk[1], Const):
        rule.undecided("HashClient.add_server:node-name", "the constructor without servers / _make_client_key((host, port)) do not have exactly known outcomes")
        return
    name = rk[1].v
    c0 = carry_over(r0[0], _keep)
    r1 = run(add, c0, server=spec)
    if r1 is None:
        rule.undecided("HashClient.add_server:node-name", "add_server((host, port)) does not have one exactly known outcome")
        return
    c1 = carry_over(r1[0], _keep)
    rot = tuple(c1.get("#rotation", ()))
    v = c1.get("self.clients")
    tab = c1.get(("heap", v)) if isinstance(v, Ref) else None
    keys = [k.v if isinstance(k, Const) else str(k) for k, x in tab.items] if isinstance(tab, DictV) else None
    rule.expect(rot == (name,) and keys == [name], "HashClient.add_server names the node by _make_client_key(server)", "HashClient.add_server:node-name", "after add_server(('10.1.2.3', 11211)) the rotation is %s and the client table has %s; both must hold exactly the name _make_client_key gives the server (%r): a server known under two spellings is two nodes" % (list(rot), keys, name), fn=add, node=add.node)
    r2 = run(mark, c1, server=spec)
    r3 = run(rem, carry_over(r2[0], _keep), server=spec) if r2 is not None else None
    if r3 is None:
        rule.undecided("HashClient.remove_server:node-name", "remove_server((host, port)) after a failure does not have one exactly known outcome")
        return
    rot3 = tuple(carry_over(r3[0], _keep).get("#rotation", ()))
    rule.expect(rot3 == (), "HashClient.remove_server names the node by _make_client_key(server)", "HashClient.remove_server:node-name", "after remove_server(('10.1.2.3', 11211)) the rotation is %s: the node was not removed under the name it was added with" % list(rot3), fn=rem, node=rem.node)
