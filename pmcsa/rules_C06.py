"""C06 - connection lifecycle: errors close, next call reconnects, no socket leaks.

Typestate analysis of socket objects in Client._connect / Client.close and of the
`self.sock is None => _connect()` guard in front of every sendall.  Decided per path, for all
16 configurations (tcp|unix) x tls x no_delay x keepalive and for any number of resolved
addresses (loop fixpoint)."""
import ast
from collections import namedtuple

from .model import AnalysisError, node_src, is_self_attr, call_name
from .paths import Interp, Domain, Env, TOP, Const, Neq, NONE, Opaque, TupleV, Exc, ORD, ASYNC, fmt_trace
from .report import walk_no_nested

LEVEL = "other"
LEVEL_TEXT = (
    "Static typestate analysis (structured path interpreter with exception edges) of every socket object created in "
    "Client._connect, of Client.close, and of the lazy-reconnect guard in front of each sendall; decides the structural "
    "clauses R1-R6 for every path, configuration and number of resolved addresses. It does not decide that the next call "
    "'works' against a healthy server (behavioural)."
)
TRUSTED = ["CPython ast", "pmcsa/paths.py interpreter and its exception-edge model", "socket API summary in pmcsa/rules_C06.py (close() does not raise inside cleanup handlers)"]

Ref = namedtuple("Ref", "id")
Bound = namedtuple("Bound", "id meth")
Truthiness = namedtuple("Truthiness", "b")
CfgVal = namedtuple("CfgVal", "name isnone")  # a constructor option whose None-ness is part of the configuration

SOCKMOD = Opaque("socket_module")


class SockDomain(Domain):
    async_enabled = False
    subscript_may_raise = True
    global_keys = ("cfg.tcp",)

    def __init__(self, prog, fn, close_may_raise=False, connect_summary=None):
        super().__init__(prog, fn)
        self.close_may_raise = close_may_raise
        self.violations = []  # (construct, msg, node, state)
        self.creations = 0
        self.connect_summary = connect_summary

    # -- values -----------------------------------------------------------
    def truth(self, v, state=None):
        if isinstance(v, Truthiness):
            return v.b
        if isinstance(v, CfgVal):
            return False if v.isnone else None
        if isinstance(v, (Ref, Bound)):
            return True
        return super().truth(v, state)

    def compare(self, node, op, l, r, state):
        for a, b in ((l, r), (r, l)):
            if isinstance(a, CfgVal) and b == NONE and isinstance(op, (ast.Is, ast.IsNot, ast.Eq, ast.NotEq)):
                return Const(a.isnone if isinstance(op, (ast.Is, ast.Eq)) else not a.isnone)
        return super().compare(node, op, l, r, state)

    def never_none(self, v):
        if isinstance(v, CfgVal):
            return not v.isnone
        return isinstance(v, (Ref, Bound)) or (isinstance(v, Truthiness) and v.b) or super().never_none(v)

    def assume_name(self, key, value, branch, state):
        if key.startswith("self.") and value is TOP:
            return state.set(key, Truthiness(branch))
        return super().assume_name(key, value, branch, state)

    def attr_load(self, objval, node, state):
        if is_self_attr(node):
            if node.attr == "socket_module":
                return SOCKMOD
            if node.attr == "server":
                return state.get("self." + node.attr, Opaque("self." + node.attr))
            return state.get("self." + node.attr, TOP)
        if objval == SOCKMOD:
            return Opaque("socket_module." + node.attr)
        if isinstance(objval, Ref):
            return Bound(objval.id, node.attr)
        return TOP

    def unpack(self, value, n, node, state):
        if value == Opaque("self.server") and n == 2:
            return [Opaque("server.host"), Opaque("server.port")], False
        return super().unpack(value, n, node, state)

    # -- object helpers ---------------------------------------------------
    def status(self, state, oid):
        return state.get(("obj", oid), None)

    def close_obj(self, state, oid):
        state = state.set(("obj", oid), "closed")
        inner = state.get(("inner", oid), None)
        if inner is not None:
            state = self.close_obj(state, inner)
        return state

    def event(self, state, oid, ev):
        evs = state.get(("ev", oid), ())
        if evs and evs[-1] == ev:
            return state  # the same operation repeated (e.g. one setsockopt per option in a loop) is one fact
        return state.set(("ev", oid), evs + (ev,))

    # -- calls ----------------------------------------------------------------
    def call(self, node, fval, args, kwargs, state):
        name = call_name(node)
        # isinstance(self.server, tuple): the configuration kind
        if name == "isinstance" and len(node.args) == 2 and is_self_attr(node.args[0], "server"):
            k = state.get("cfg.tcp", None)
            if k is None:
                return [("ok", TOP, state)]
            return [("ok", Const(bool(k)), state)]
        if fval == Opaque("socket_module.socket"):
            self.creations += 1
            oid = "socket@%d" % node.lineno
            cur = state.get("self.sock", TOP)
            if isinstance(cur, Ref) and self.status(state, cur.id) == "open":
                self.violations.append(("second-socket-while-one-open", "a socket is created while self.sock still holds an open socket (close() must come first)", node, state))
            # a fresh object per creation site; re-creation in a loop re-uses the id only if the old one is closed
            if self.status(state, oid) == "open":
                self.violations.append(("socket-recreated-while-open", "socket created again while the previous one from the same site is still open", node, state))
            s2 = state.set(("obj", oid), "open").set(("ev", oid), ()).drop(("inner", oid))
            return [("ok", Ref(oid), s2), ("exc", Exc(ORD, None, node.lineno), state)]
        if fval == Opaque("socket_module.getaddrinfo"):
            return [("ok", TOP, state), ("exc", Exc(ORD, None, node.lineno), state)]
        if isinstance(fval, Bound):
            oid, meth = fval.id, fval.meth
            if meth == "close":
                s2 = self.close_obj(state, oid)
                out = [("ok", NONE, s2)]
                if self.close_may_raise:
                    out.append(("exc", Exc(ORD, None, node.lineno), s2))
                return out
            if meth == "settimeout":
                which = "other"
                if args:
                    a = args[0]
                    if isinstance(a, CfgVal):
                        which = a.name
                s2 = self.event(state, oid, "settimeout:" + which)
                return [("ok", NONE, s2), ("exc", Exc(ORD, None, node.lineno), state)]
            if meth == "connect":
                s2 = self.event(state, oid, "connect")
                return [("ok", NONE, s2), ("exc", Exc(ORD, None, node.lineno), state)]
            if meth in ("sendall", "recv"):
                s2 = self.event(state, oid, meth)
                return [("ok", TOP, s2), ("exc", Exc(ORD, None, node.lineno), s2)]
            s2 = self.event(state, oid, meth)
            return [("ok", TOP, s2), ("exc", Exc(ORD, None, node.lineno), state)]
        if isinstance(node.func, ast.Attribute) and node.func.attr == "wrap_socket":
            if args and isinstance(args[0], Ref):
                inner = args[0].id
                wid = "tls-wrapper@%d" % node.lineno
                hn = kwargs.get("server_hostname", None)
                s2 = state.set(("obj", wid), "open").set(("inner", wid), inner).set(("obj", inner), "owned").set(("ev", wid), state.get(("ev", inner), ()))
                s2 = s2.set(("hostname", wid), "host" if hn == Opaque("server.host") else "other")
                return [("ok", Ref(wid), s2), ("exc", Exc(ORD, None, node.lineno), state)]
            self.violations.append(("wrap-socket-of-unknown", "wrap_socket called on something that is not a tracked socket", node, state))
            return [("ok", TOP, state), ("exc", Exc(ORD, None, node.lineno), state)]
        if name == "self.close" or name == "self.disconnect_all":
            cur = state.get("self.sock", TOP)
            s2 = state
            if isinstance(cur, Ref):
                s2 = self.close_obj(s2, cur.id)
            s2 = s2.set("self.sock", NONE)
            return [("ok", NONE, s2)]
        if name == "self._connect" and self.connect_summary is not None:
            out = []
            for kind in self.connect_summary:
                if kind == "ok":
                    cur = state.get("self.sock", TOP)
                    s2 = state
                    if isinstance(cur, Ref):
                        s2 = self.close_obj(s2, cur.id)
                    oid = "connected@%d" % node.lineno
                    s2 = s2.set(("obj", oid), "open").set("self.sock", Ref(oid))
                    out.append(("ok", NONE, s2))
                else:
                    cur = state.get("self.sock", TOP)
                    s2 = state
                    if isinstance(cur, Ref):
                        s2 = self.close_obj(s2, cur.id)
                    out.append(("exc", Exc(ORD, None, node.lineno), s2.set("self.sock", NONE)))
            return out
        if name.startswith("self._") and name.count(".") == 1 and name not in ("self._connect",):
            # a private helper of Client (e.g. the socket-creation half of _connect): interpreted in line, socket
            # objects created inside it are tracked like those created here
            m = self.prog.cls("Client").methods.get(name[5:]) if self.prog is not None else None
            if m is not None:
                res = self.inline(node, m, args, kwargs, state)
                if res is not None:
                    return res
        # calls on self.sock when it is None
        if isinstance(node.func, ast.Attribute) and is_self_attr(node.func.value, "sock") and node.func.attr in ("sendall", "recv"):
            cur = state.get("self.sock", TOP)
            if cur == NONE or cur is TOP:
                self.violations.append(("io-without-connection", "%s reachable with self.sock %s (lazy-reconnect guard missing)" % (node.func.attr, "None" if cur == NONE else "unknown"), node, state))
        return [("ok", TOP, state), ("exc", Exc(ORD, None, node.lineno), state)]


def leaked(state):
    """Objects that are open and not reachable from self.sock."""
    held = set()
    cur = state.get("self.sock", TOP)
    if isinstance(cur, Ref):
        oid = cur.id
        while oid is not None:
            held.add(oid)
            oid = state.get(("inner", oid), None)
    out = []
    for k, v in state.d.items():
        if isinstance(k, tuple) and k[0] == "obj" and v == "open" and k[1] not in held:
            out.append(k[1])
    return sorted(out)


def configs():
    for tcp in (True, False):
        for tls in (True, False):
            for nd in (True, False):
                for ka in (True, False):
                    for old in (False, True):
                        for ct in (False, True):
                            for to in (False, True):
                                yield {"tcp": tcp, "tls": tls, "no_delay": nd, "keepalive": ka, "old_sock": old, "connect_timeout": ct, "timeout": to}


def init_state(cfg):
    d = {
        "cfg.tcp": cfg["tcp"],
        "self.tls_context": Truthiness(cfg["tls"]),
        "self.no_delay": Truthiness(cfg["no_delay"]),
        "self.socket_keepalive": Neq(None) if cfg["keepalive"] else NONE,
        "self.sock": NONE,
        "self.connect_timeout": CfgVal("connect_timeout", not cfg["connect_timeout"]),
        "self.timeout": CfgVal("timeout", not cfg["timeout"]),
    }
    if cfg["old_sock"]:
        d["self.sock"] = Ref("previous")
        d[("obj", "previous")] = "open"
    return Env(d)


def cfg_name(cfg):
    return ",".join("%s=%s" % (k, int(v)) for k, v in sorted(cfg.items()))


def run(chk):
    prog = chk.prog
    client = prog.cls("Client")
    connect = prog.method(client, "_connect")
    close = prog.method(client, "close")

    # ---------------- R6 first: close() is idempotent and swallows (its summary is used by R1) --------
    r6 = chk.rule("C06.R6", "Client.close never raises an ordinary error and always leaves self.sock None")
    paths6 = 0
    for old in (False, True):
        dom = SockDomain(prog, close, close_may_raise=True)
        st = Env({"self.sock": Ref("previous"), ("obj", "previous"): "open"}) if old else Env({"self.sock": NONE})
        outs = Interp(dom, close.node, prog).run(st)
        for s, exc, t in outs.of("exc"):
            paths6 += 1
            if exc.colour == ORD:
                r6.fail("Client.close:ordinary-exception-escapes", "an ordinary exception (%s) can escape close()" % (exc,), fn=close, line=exc.origin, witness=fmt_trace(t))
        for s, v, t in outs.of("ret"):
            paths6 += 1
            ok = s.get("self.sock", TOP) == NONE
            r6.expect(ok, "close(): exit with self.sock None (initial sock %s)" % ("open" if old else "None"), "Client.close:sock-not-reset", "close() can return with self.sock not reset to None", fn=close, witness=fmt_trace(t))
            if old and s.get(("obj", "previous")) != "closed":
                r6.fail("Client.close:socket-not-closed", "close() can return without having called close() on the socket", fn=close, witness=fmt_trace(t))
        for s, exc, t in outs.of("exc"):
            if s.get("self.sock", TOP) != NONE and exc.colour == ORD:
                r6.fail("Client.close:sock-not-reset-on-error", "close() can raise with self.sock still set", fn=close, witness=fmt_trace(t))
    r6.floor("exit paths of close()", paths6, 2)

    # ---------------- R1/R2/R3/R4 on _connect -------------------------------------------------
    r1 = chk.rule("C06.R1", "every socket created in _connect is closed or stored in self.sock on every exit (no leak; address fallback)")
    r2 = chk.rule("C06.R2", "at most one socket: self.sock written only by __init__/close/_connect, previous socket closed before a new one is created")
    r3 = chk.rule("C06.R3", "settimeout(connect_timeout) -> connect -> settimeout(timeout) on every path that stores the socket")
    r4 = chk.rule("C06.R4", "TLS: with a tls_context a TCP connection is only ever used through the wrapper (wrapped before connect, server_hostname=host)")
    n_exits = n_cfg = creations = 0
    wrapped_exits = 0
    stale_raise = False
    for cfg in configs():
        n_cfg += 1
        dom = SockDomain(prog, connect)
        interp = Interp(dom, connect.node, prog)
        outs = interp.run(init_state(cfg))
        creations = max(creations, dom.creations)
        for construct, msg, node, s in dom.violations:
            r = r2 if "second-socket" in construct or "recreated" in construct else r4
            r.fail("Client._connect:" + construct, msg + " [config %s]" % cfg_name(cfg), fn=connect, node=node)
        for kind in ("ret", "exc"):
            for s, v, t in outs.of(kind):
                n_exits += 1
                lk = leaked(s)
                if kind == "exc" and v.colour != ORD:
                    continue
                if lk:
                    where = "raise" if kind == "exc" else "return"
                    # name the construct by the kind of exit and the statement that exits
                    origin = v.origin if kind == "exc" else None
                    stmt = stmt_at(connect.node, origin) if origin else "return"
                    construct = "Client._connect:%s-with-open-socket:%s" % (where, _norm(stmt))
                    r1.fail(construct, "socket %s is neither closed nor stored in self.sock when _connect exits by `%s` [config %s]" % (",".join(lk), stmt, cfg_name(cfg)), fn=connect, line=origin, witness=fmt_trace(t))
                else:
                    r1.ok("exit(%s) of _connect under %s: no open socket outside self.sock" % (kind, cfg_name(cfg)), sample=(n_exits % 37 == 1))
                if kind == "exc":
                    cur = s.get("self.sock", TOP)
                    if isinstance(cur, Ref):
                        r1.fail("Client._connect:raises-with-self.sock-set", "_connect can raise while self.sock refers to a socket (%s): the next call does not reconnect but uses that socket" % s.get(("obj", cur.id)), fn=connect, line=v.origin, witness=fmt_trace(t))
                if kind == "ret":
                    cur = s.get("self.sock", TOP)
                    if not isinstance(cur, Ref) or s.get(("obj", cur.id)) != "open":
                        r1.fail("Client._connect:returns-without-connection", "_connect can return normally without an open socket in self.sock (state %s)" % (cur,), fn=connect, witness=fmt_trace(t))
                        continue
                    evs = [e for e in s.get(("ev", cur.id), ()) if e.startswith("settimeout") or e == "connect"]
                    want = ["settimeout:connect_timeout", "connect", "settimeout:timeout"]
                    r3.expect(evs == want, "stored socket under %s saw %s" % (cfg_name(cfg), evs), "Client._connect:timeout-order", "socket stored in self.sock saw %s, expected %s [config %s]" % (evs, want, cfg_name(cfg)), fn=connect, witness=fmt_trace(t))
                    is_wrapper = s.get(("inner", cur.id), None) is not None
                    if cfg["tcp"] and cfg["tls"]:
                        ok = is_wrapper and s.get(("hostname", cur.id)) == "host"
                        r4.expect(ok, "tcp+tls exit stores the wrapper with server_hostname=host", "Client._connect:tls-not-applied", "with tls_context set, a TCP connection is stored that is %s [config %s]" % ("wrapped with the wrong server_hostname" if is_wrapper else "not wrapped by tls_context.wrap_socket", cfg_name(cfg)), fn=connect, witness=fmt_trace(t))
                        if is_wrapper:
                            wrapped_exits += 1
                            # wrapped before connect: the connect event must be on the wrapper's own history after wrapping
                            inner = s.get(("inner", cur.id))
                            if "connect" in s.get(("ev", inner), ()):
                                r4.fail("Client._connect:wrap-after-connect", "the raw socket was connected before being wrapped", fn=connect, witness=fmt_trace(t))
                    elif not cfg["tls"] and is_wrapper:
                        r4.fail("Client._connect:wrapped-without-context", "socket wrapped although no tls_context is configured", fn=connect, witness=fmt_trace(t))
    r1.floor("socket creation sites", creations, 1)
    r1.count("configurations", n_cfg)
    r1.count("exit paths examined", n_exits)
    r4.floor("tcp+tls exits that store a wrapper", wrapped_exits, 1)
    chk.assume("UNIX-domain sockets are never TLS-wrapped (the property lists TLS as a TCP kind)")
    chk.assume("socket.close() called inside a cleanup handler does not itself raise")
    chk.assume("leaks on BaseException during connection establishment are out of the property's fault list (noted, not reported)")

    # R2 structural part: who writes self.sock
    writers = {}
    for f in prog.all_functions():
        for n in walk_no_nested(f.node):
            tgts = []
            if isinstance(n, ast.Assign):
                tgts = n.targets
            elif isinstance(n, (ast.AnnAssign, ast.AugAssign)):
                tgts = [n.target]
            for t in tgts:
                for x in ast.walk(t):
                    if isinstance(x, ast.Attribute) and x.attr == "sock" and isinstance(x.ctx, ast.Store):
                        writers.setdefault(f.qualname, []).append((f, n))
    allowed = {"Client.__init__", "Client.close", "Client._connect"}
    for q, sites in writers.items():
        for f, n in sites:
            if q in allowed:
                if q != "Client._connect" and not (isinstance(n.value, ast.Constant) and n.value.value is None):
                    r2.fail("%s:writes-self.sock-non-None" % q, "%s assigns something other than None to .sock" % q, fn=f, node=n)
                else:
                    r2.ok("%s writes .sock (%s)" % (q, node_src(n)))
            else:
                r2.fail("%s:writes-.sock" % q, ".sock is written outside Client.__init__/close/_connect: `%s`" % node_src(n), fn=f, node=n)
    r2.floor("writers of .sock", len(writers), 3)
    # timeouts: self.connect_timeout / self.timeout only written in __init__ from the same-named parameter
    for attr in ("connect_timeout", "timeout"):
        n_w = 0
        for f in prog.all_functions():
            if f.cls is None or f.cls.name != "Client":
                continue
            for n in walk_no_nested(f.node):
                if isinstance(n, ast.Assign):
                    for t in n.targets:
                        if is_self_attr(t, attr):
                            n_w += 1
                            ok = f.name == "__init__" and isinstance(n.value, ast.Name) and n.value.id == attr
                            r3.expect(ok, "Client.%s set from constructor parameter" % attr, "Client.%s:%s-rewritten" % (f.name, attr), "self.%s is assigned `%s` in %s (must only be the constructor parameter)" % (attr, node_src(n.value), f.qualname), fn=f, node=n)
        r3.floor("writes of self.%s" % attr, n_w, 1)

    # ---------------- R5 lazy reconnect ---------------------------------------------------------
    r5 = chk.rule("C06.R5", "every sendall is preceded on all paths by the guard `self.sock is None => _connect()`")
    exch = exchange_functions(prog)
    r5.floor("functions that contain a sendall", len(exch), 1)
    for f in exch:
        for old in (False, True):
            dom = SockDomain(prog, f, connect_summary=("ok", "exc"))
            st = Env({"self.sock": Ref("previous"), ("obj", "previous"): "open"}) if old else Env({"self.sock": NONE})
            o5 = Interp(dom, f.node, prog).run(st)
            bad = [v for v in dom.violations if v[0] == "io-without-connection"]
            for s5, e5, t5 in o5.of("exc"):
                if e5.cls == "AttributeError":
                    stmt = stmt_at(f.node, e5.origin)
                    if "self.sock." in stmt:
                        bad.append(("io-without-connection", "`%s` is reachable with self.sock None (lazy-reconnect guard missing): the call fails with AttributeError instead of reconnecting" % stmt, ast.parse("0").body[0], s5))
            for construct, msg, node, s in bad:
                r5.fail("%s:%s" % (f.qualname, construct), msg, fn=f, node=node)
            if not bad:
                r5.ok("%s: sendall/recv never reached with self.sock None (initial sock %s)" % (f.qualname, "open" if old else "None"))
    _r7(chk)


def _r7(chk):
    from . import rules_C01, report

    r7 = chk.rule("C06.R7", "errors close: after any failed exchange (re-raised or swallowed by ignore_exc) the socket was closed, so the next call reconnects (= C01.R1)")
    report.include_rules(chk, r7, rules_C01, ("C01.R1",), "a failed exchange must leave self.sock None so that the next call opens a fresh connection")
    from . import rules_C19

    report.include_rules(chk, r7, rules_C19, ("C19.R3",), "a client that is dropped from a HashClient (server removed, node list rebuilt) is closed there: nobody else holds it, its socket would stay open")


def exchange_functions(prog):
    """Functions of class Client that contain a call <x>.sendall(...)."""
    out = []
    for f in prog.cls("Client").methods.values():
        for n in walk_no_nested(f.node):
            if isinstance(n, ast.Call) and isinstance(n.func, ast.Attribute) and n.func.attr == "sendall":
                out.append(f)
                break
    return out


def stmt_at(fn_node, lineno):
    """Source of the innermost simple statement of the function that covers `lineno`."""
    best = None
    for n in ast.walk(fn_node):
        if isinstance(n, ast.stmt) and not isinstance(n, (ast.If, ast.For, ast.While, ast.Try, ast.With, ast.FunctionDef)):
            if n.lineno <= lineno <= (n.end_lineno or n.lineno):
                if best is None or (n.end_lineno - n.lineno) < (best.end_lineno - best.lineno):
                    best = n
    return node_src(best, 80) if best is not None else "line %d" % lineno


def _norm(s):
    return " ".join(s.split())[:60]
