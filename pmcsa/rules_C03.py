"""C03 - reply parsing does not depend on how the byte stream is split (partial: carry-over state rules)."""
import ast
from collections import namedtuple

from .model import AnalysisError, node_src, is_self_attr, call_name, fold, NotConst
from .paths import Interp, Domain, Env, TOP, NONE, Const, TupleV, Exc, ORD, ASYNC, fmt_trace, Opaque, Ctx, FuncRef
from .report import walk_no_nested
from . import exchange

LEVEL = "other"
LEVEL_TEXT = (
    "Carry-over state rules of the three readers and the three exchange loops, decided on every path: no received byte "
    "is overwritten or left behind before it has flowed into the result or the returned leftover (liveness of chunks); "
    "the single recv site retries EINTR and nothing else; no decision depends on the receive size; the end-token search "
    "of the segment reader sees all unconsumed bytes (accumulate-then-search, offset bounded by the token length); the "
    "value reader applies no content-dependent operation to payload bytes. Segmentation rows (R6): each reader's syntax "
    "tree interpreted over exact byte strings for every way a short reply stream can be cut into pieces and every split "
    "between leftover and pieces (about 30 000 rows: every string over {a, CR, LF} up to 4-5 bytes for the line reader, "
    "every content of sized values up to 2-3 bytes with tails and truncations, seven end tokens with partial-token "
    "bodies): same result and leftover, no piece asked for beyond the completing one, hang-up raises. Streams longer "
    "than those, sizes around the receive size, and the composition of readers inside the exchange loops rest on the "
    "liveness rules, not on rows."
)
TRUSTED = ["CPython ast", "pmcsa/paths.py", "chunk-liveness transfer functions in pmcsa/rules_C03.py", "exact transformers for bytes slicing / find / join / len in pmcsa/seghist.py and pmcsa/colls.py (Python's own operations on constants)"]

Chunk = namedtuple("Chunk", "status")  # fresh / saved / empty / split
Part = namedtuple("Part", "owner part")  # a piece of the chunk held by variable `owner`, cut off by partition(): 'prefix' / 'suffix'
FRESH, SAVED, EMPTY, SPLIT = Chunk("fresh"), Chunk("saved"), Chunk("empty"), Chunk("split")
CHUNKS = Opaque("chunk-generator")
CONTENT_OPS = ("strip", "rstrip", "lstrip", "replace", "split", "rsplit", "splitlines", "translate", "decode", "partition", "rpartition", "removesuffix", "removeprefix", "expandtabs", "lower", "upper")


class ByteDomain(exchange.ExchangeDomain):
    """Chunk liveness.  Private helper methods are inlined (a chunk passed to a helper flows into it; the helper's
    returned leftover is a fresh chunk of the caller); readers are followed by value (FuncRef)."""

    global_keys = exchange.ExchangeDomain.global_keys

    def __init__(self, prog, fn, readers, reader_methods, is_reader):
        super().__init__(prog, fn, readers, None, with_async=False)
        self.subscript_may_raise = False
        self.unpack_may_raise = False
        self.is_reader = is_reader
        mod = prog.module(exchange.READERS_BASE)
        self.byte_sources = {n for n in readers if mod.functions[n].param("buf") is None}
        self.chunk_generators = {n for n in self.byte_sources if any(isinstance(x, (ast.Yield, ast.YieldFrom)) for x in walk_no_nested(mod.functions[n].node))}
        self.kills = []
        self.sources = 0

    def call_raises(self, node, state, ord_=True, async_=None):
        return []  # exceptions are irrelevant for liveness: a raising path delivers nothing

    def for_next(self, node, itval, state):
        if itval in (CHUNKS, Opaque("chunk-iter")):
            self.sources += 1
            return [(FRESH, state)]
        return super().for_next(node, itval, state)

    def for_exhausted(self, node, itval, state):
        if itval == CHUNKS:
            return None  # the chunk generator never ends normally (it raises when the peer hangs up)
        return super().for_exhausted(node, itval, state)

    def truth(self, v, state=None):
        if isinstance(v, Chunk):
            return False if v.status == "empty" else None
        return super().truth(v, state)

    def assume(self, expr, value, branch, state):
        if isinstance(value, Chunk) and isinstance(expr, ast.Name):
            if not branch:
                return state.set(expr.id, EMPTY)
            return state
        return super().assume(expr, value, branch, state)

    def name_store(self, name, value, state, node=None):
        cur = state.get(name, None)
        if isinstance(cur, Chunk) and cur.status == "fresh":
            aug = isinstance(node, ast.AugAssign)
            if not aug:
                self.kills.append((name, node, state, self.fn))
        moved = state.get("#moved", None)
        if moved is not None and moved != name:
            # `name = moved`: the bytes are held by `name` from here on
            state = state.drop("#moved")
            if isinstance(state.get(moved, None), Chunk) and state.get(moved).status == "fresh" and value == FRESH:
                state = state.set(moved, SAVED)
        return state.set(name, value)

    def _save(self, state, expr):
        """The bytes denoted by `expr` flow somewhere that keeps them."""
        if isinstance(expr, ast.Name) and isinstance(state.get(expr.id, None), Chunk):
            cur = state.get(expr.id)
            if cur.status == "fresh":
                return state.set(expr.id, SAVED)
        if isinstance(expr, ast.Name) and isinstance(state.get(expr.id, None), Part):
            # what partition() cut off the chunk in `owner` flows on: as for the slices below
            pv = state.get(expr.id)
            if isinstance(state.get(pv.owner, None), Chunk):
                parts = tuple(sorted(set(state.get(("parts", pv.owner), ())) | {pv.part}))
                st = state.set(("parts", pv.owner), parts)
                if "suffix" in parts and state.get(pv.owner).status == "fresh":
                    st = st.set(pv.owner, SPLIT)
                return st
        if isinstance(expr, ast.Subscript) and isinstance(expr.value, ast.Name) and isinstance(state.get(expr.value.id, None), Chunk) and isinstance(expr.slice, ast.Slice):
            nm = expr.value.id
            part = "prefix" if expr.slice.lower is None or _is_zero(expr.slice.lower) else ("suffix" if expr.slice.upper is None else "middle")
            parts = state.get(("parts", nm), ())
            parts = tuple(sorted(set(parts) | {part}))
            st = state.set(("parts", nm), parts)
            if "suffix" in parts and state.get(nm).status == "fresh":
                # the tail flows on; what precedes it was consumed (a prefix that flowed, or a terminator that was inspected)
                st = st.set(nm, SPLIT)
            return st
        return state

    def is_global_key(self, k):
        if isinstance(k, tuple) and k and k[0] == "parts":
            return False
        return super().is_global_key(k)

    def binop(self, node, l, r, state):
        return TOP

    def make_tuple(self, items, node, state):
        return TupleV(tuple(items))

    def subscript_load(self, objval, idxval, node, state):
        return TOP, False

    def call(self, node, fval, args, kwargs, state):
        if isinstance(node.func, ast.Name) and node.func.id in self.byte_sources:
            # the recv helper, or a wrapper of it that takes no buffer (e.g. recv + hang-up test): newly received bytes
            self.sources += 1
            if node.func.id in self.chunk_generators:
                return [("ok", CHUNKS, state)]  # a generator function: an endless iterator of received chunks
            return [("ok", FRESH, state)]
        if call_name(node) in ("itertools.chain", "chain"):
            # the buffers listed in a display flow into the iterator, which hands them out again one by one
            st = state
            for a in node.args:
                if isinstance(a, (ast.Tuple, ast.List)):
                    for e in a.elts:
                        st = self._save(st, e)
            endless = any(v == CHUNKS for v in args)
            return [("ok", CHUNKS if endless else Opaque("chunk-iter"), st)]
        if call_name(node) == "next" and args and args[0] in (CHUNKS, Opaque("chunk-iter")):
            self.sources += 1
            return [("ok", FRESH, state)]
        if self.is_reader_call(node, fval):
            self.sources += 1
            st = state
            for a in list(node.args) + [k.value for k in node.keywords]:
                st = self._save(st, a)
            return [("ok", TupleV((FRESH, TOP)), st)]
        if isinstance(node.func, ast.Attribute) and node.func.attr in ("append", "extend", "write") and node.args:
            return [("ok", NONE, self._save(state, node.args[0]))]
        if isinstance(node.func, ast.Attribute) and node.func.attr == "join":
            return [("ok", TOP, state)]
        if isinstance(node.func, ast.Attribute) and node.func.attr in ("partition", "rpartition") and isinstance(node.func.value, ast.Name) and isinstance(state.get(node.func.value.id, None), Chunk):
            # (before, separator, after): views of the chunk, which stays where it is
            own = node.func.value.id
            return [("ok", TupleV((Part(own, "prefix"), TOP, Part(own, "suffix"))), state)]
        name = call_name(node)
        if name.startswith("self.") and name.count(".") == 1:
            m = self.prog.cls("Client").methods.get(name[5:])
            if m is not None and name[5:].startswith("_") and name[5:] not in exchange.SUMMARISED:
                # chunks handed to the helper flow into it
                st = state
                for a in list(node.args) + [k.value for k in node.keywords]:
                    st = self._save(st, a)
                res = self.inline(node, m, args, kwargs, st)
                if res is not None:
                    return [r for r in res if r[0] == "ok"]
        if name in ("partial", "functools.partial") and args and isinstance(args[0], FuncRef):
            return [("ok", args[0], state)]
        if isinstance(node.func, ast.Name) and node.func.id in self.module.functions and node.func.id not in self.readers and any(isinstance(a, ast.Name) and isinstance(state.get(a.id, None), Chunk) for a in node.args):
            # a module-level helper that is handed a chunk (e.g. one that cuts it around the terminator): the chunk flows
            # into it, what it hands back of it is fresh in the caller
            st = state
            for a in list(node.args) + [k.value for k in node.keywords]:
                st = self._save(st, a)
            res = self.inline(node, self.module.functions[node.func.id], args, kwargs, st)
            if res is not None:
                return [r for r in res if r[0] == "ok"]
        return [("ok", TOP, state)]

    def apply_lambda(self, node, lam, args, kwargs, state):
        # chunks handed to a local function value (a lambda / nested def wrapping a reader) flow into it, as into a helper
        st = state
        for a in list(node.args) + [k.value for k in node.keywords]:
            st = self._save(st, a)
        res = super().apply_lambda(node, lam, args, kwargs, st)
        return res

    def on_stmt(self, node, state):
        if state.has("#moved"):
            state = state.drop("#moved")
        if isinstance(node, ast.Assign) and isinstance(node.value, ast.Name) and len(node.targets) == 1 and isinstance(node.targets[0], ast.Name) and node.targets[0].id != node.value.id and isinstance(state.get(node.value.id, None), Chunk):
            return state.set("#moved", node.value.id)  # X = chunk : see name_store
        # X += chunk / X = X + chunk : the right operand flows into X
        if isinstance(node, ast.AugAssign) and isinstance(node.op, ast.Add):
            return self._save(state, node.value)
        if isinstance(node, ast.Assign) and isinstance(node.value, ast.BinOp) and isinstance(node.value.op, ast.Add):
            st = state
            for side in (node.value.left, node.value.right):
                if not (isinstance(side, ast.Name) and any(isinstance(t, ast.Name) and t.id == side.id for t in node.targets)):
                    st = self._save(st, side)
                else:
                    # X = X + y : X keeps its bytes
                    if isinstance(st.get(side.id, None), Chunk) and st.get(side.id).status == "fresh":
                        st = st.set(side.id, SAVED)
            return st
        if isinstance(node, ast.Assign) and isinstance(node.value, ast.Tuple):
            st = state
            for e in node.value.elts:
                st = self._save(st, e) if isinstance(e, ast.Subscript) else st
            return st
        if isinstance(node, ast.Return) and node.value is not None:
            st = state
            for e in ast.walk(node.value):
                if isinstance(e, (ast.Name, ast.Subscript)):
                    st = self._save(st, e)
            if self.frames:
                # a helper of an exchange function returns: a leftover it holds and does not hand back is gone, and
                # with it the beginning of the next reply whenever two replies arrive in one piece
                for k, v in st.d.items():
                    if isinstance(k, str) and isinstance(v, Chunk) and v.status == "fresh":
                        self.kills.append((k, node, st, self.fn, "dropped"))
            return st
        return state

    def ret_value(self, st, v, s):
        """What a function hands back: a leftover component is a fresh chunk of the caller."""
        if not self.frames:
            return TOP
        val = st.value
        if isinstance(val, ast.Tuple):
            items = []
            for e in val.elts:
                # a returned buffer / tail slice of a buffer carries unread bytes
                if isinstance(e, ast.Name) and isinstance(s.get(e.id, None), Chunk):
                    items.append(FRESH)
                elif isinstance(e, ast.Subscript) and isinstance(e.value, ast.Name) and isinstance(s.get(e.value.id, None), Chunk):
                    items.append(FRESH)
                else:
                    items.append(TOP)
            return TupleV(tuple(items))
        return TOP


def _is_zero(e):
    return isinstance(e, ast.Constant) and e.value == 0


def run(chk):
    prog = chk.prog
    mod = prog.module(exchange.READERS_BASE)
    direct, readers = exchange.recv_reaching_functions(prog)
    rmeth = exchange.methods_reaching_readers(prog, readers)
    exch = exchange.exchange_functions(prog)
    reader_fns = [mod.functions[n] for n in sorted(readers) if mod.functions[n].param("buf") is not None]

    # ------------------------------------------------------------------ R1
    r1 = chk.rule("C03.R1", "no received byte is dropped: every chunk / leftover flows into the result, the next reader or the returned leftover before it is overwritten or the reader returns")
    r1.floor("reader functions", len(reader_fns), 3)
    n_src = 0
    scope = [(f, True) for f in reader_fns] + [(f, False) for f in exch]
    for f, is_reader in scope:
        dom = ByteDomain(prog, f, readers, rmeth, is_reader)
        init = {}
        for p in f.params:
            if p.name == "buf":
                init["buf"] = FRESH
        outs = Interp(dom, f.node, prog).run(Env(init))
        n_src += dom.sources
        seen = set()
        for kill in dom.kills:
            name, node, st, where = kill[:4]
            if len(kill) > 4:
                key = "%s:drops-leftover:%s" % (where.qualname if where is not None else f.qualname, name)
                if key not in seen:
                    seen.add(key)
                    r1.fail(key, "%s returns while `%s` holds bytes received beyond the reply it was reading (the reader's leftover) without handing them back: when two replies arrive in one piece the second one is lost and the next read blocks or mis-frames" % (where.qualname if where is not None else f.qualname, name), fn=where or f, node=node)
                continue
            key = "%s:overwrites-unsaved:%s" % (where.qualname if where is not None else f.qualname, name)
            if key in seen:
                continue
            seen.add(key)
            r1.fail(key, "`%s` overwrites `%s` while it still holds received bytes that have not flowed into the result, the next reader call or the returned leftover: everything received before this point is lost whenever the reply arrives in more than one piece" % (node_src(getattr(node, "_parent", node) if not isinstance(node, ast.stmt) else node, 80), name), fn=f, node=node)
        if is_reader:
            for s, v, t in outs.of("ret"):
                for k, val in s.d.items():
                    if isinstance(k, str) and isinstance(val, Chunk) and val.status == "fresh":
                        key = "%s:returns-with-unsaved:%s" % (f.qualname, k)
                        if key not in seen:
                            seen.add(key)
                            r1.fail(key, "%s can return while `%s` holds received bytes that are neither part of the result nor of the returned leftover" % (f.qualname, k), fn=f, witness=fmt_trace(t))
        if not seen:
            r1.ok("%s: every chunk/leftover is saved before being overwritten%s" % (f.qualname, " or returned" if is_reader else ""))
    r1.floor("byte sources (recv results and reader leftovers) tracked", n_src, 8)

    # ------------------------------------------------------------------ R2 EINTR
    r2 = chk.rule("C03.R2", "the single recv site retries EINTR and propagates every other error")
    recv_sites = []
    for f in prog.all_functions():
        for c in walk_no_nested(f.node):
            if isinstance(c, ast.Call) and isinstance(c.func, ast.Attribute) and c.func.attr in ("recv", "recv_into"):
                recv_sites.append((f, c))
    r2.expect(len(recv_sites) == 1 and recv_sites[0][0].name in direct, "one recv call site, in the retrying helper", "recv-call-sites", "recv is called at %s" % [f.qualname for f, c in recv_sites], fn=recv_sites[0][0] if recv_sites else None)
    if recv_sites:
        rf = recv_sites[0][0]
        for eintr in (True, False):
            dom = _RecvDomain(prog, rf, eintr)
            outs = Interp(dom, rf.node, prog).run(Env({"#n": 0}))
            rets, excs = outs.of("ret"), outs.of("exc")
            if eintr:
                ok = len(rets) >= 1 and all(v == Opaque("data-of-call-2") for s, v, t in rets) and not excs
                r2.expect(ok, "EINTR: recv is called again and its data returned", "%s:EINTR-not-retried" % rf.qualname, "after an interrupted system call (EINTR) %s %s instead of calling recv again and returning its data" % (rf.qualname, ("returns %s" % [v for s, v, t in rets]) if rets else ("raises %s" % [e for s, e, t in excs])), fn=rf, node=rf.node)
            else:
                ok = not rets and len(excs) >= 1 and all(e.cls == "OSError" for s, e, t in excs)
                r2.expect(ok, "other OSError: propagated", "%s:error-swallowed" % rf.qualname, "an OSError other than EINTR is not propagated by %s (%s)" % (rf.qualname, [v for s, v, t in rets]), fn=rf, node=rf.node)

    # ------------------------------------------------------------------ R3 segment-size independence
    r3 = chk.rule("C03.R3", "no decision depends on the receive size: RECV_SIZE is only an argument of the recv helper; fresh chunks are only tested for emptiness")
    n_use = 0
    byte_sources = {n for n in readers if mod.functions[n].param("buf") is None}
    for f in prog.all_functions():
        for n in walk_no_nested(f.node):
            if isinstance(n, ast.Name) and n.id == "RECV_SIZE" and isinstance(n.ctx, ast.Load):
                n_use += 1
                p = getattr(n, "_parent", None)
                ok = isinstance(p, ast.Call) and isinstance(p.func, ast.Name) and p.func.id in byte_sources and n in p.args
                r3.expect(ok, "%s passes RECV_SIZE to the recv helper" % f.qualname, "%s:RECV_SIZE-in-logic" % f.qualname, "%s uses RECV_SIZE in `%s`: parsing would depend on how the stream is cut into pieces" % (f.qualname, node_src(p)), fn=f, node=n)
    r3.floor("uses of RECV_SIZE", n_use, 1)
    for f in reader_fns:
        for n in walk_no_nested(f.node):
            if isinstance(n, ast.Compare) and any(isinstance(x, ast.Call) and call_name(x) == "len" for x in ast.walk(n)) and any(isinstance(c, ast.Constant) and isinstance(c.value, int) and c.value > 8 for c in ast.walk(n)):
                r3.fail("%s:len-vs-large-constant" % f.qualname, "%s compares a length with a large constant (`%s`)" % (f.qualname, node_src(n)), fn=f, node=n)

    # ------------------------------------------------------------------ R4 token search sees all unconsumed bytes
    r4 = chk.rule("C03.R4", "a reader whose terminator is a parameter searches a buffer into which every byte received since the call began has flowed; a search offset never skips more than len(token)-1 bytes back")
    seg = [f for f in reader_fns if any(p.name == "end_tokens" for p in f.params)]
    r4.floor("readers with a terminator parameter", len(seg), 1)
    for f in seg:
        dom = AccDomain(prog, f, byte_sources)
        init = {p.name: (ACC if p.name == "buf" else (TOKEN if p.name == "end_tokens" else TOP)) for p in f.params}
        init["#pending"] = 0
        outs = Interp(dom, f.node, prog).run(Env(init))
        r4.floor("terminator searches reached in %s" % f.name, dom.n_search, 1)
        seen = set()
        for kind, msg, node in dom.problems:
            if kind in seen:
                continue
            seen.add(kind)
            r4.fail("%s:%s" % (f.qualname, kind), msg, fn=f, node=node)
        # a search offset, where one is used, must not skip bytes that could begin a straddling token
        for fc in [c for c in walk_no_nested(f.node) if isinstance(c, ast.Call) and isinstance(c.func, ast.Attribute) and c.func.attr in ("find", "index") and len(c.args) > 1 and isinstance(c.func.value, ast.Name)]:
            loop = next((a_ for a_ in _ancestors(fc) if isinstance(a_, (ast.While, ast.For))), None)
            msg = _offset_problem(f, loop, fc, fc.func.value.id) if loop is not None else "the search for the end token starts at an offset outside any receive loop"
            if msg and "search-offset" not in seen:
                seen.add("search-offset")
                r4.fail("%s:search-offset" % f.qualname, msg, fn=f, node=fc)
        if not seen:
            r4.ok("%s: every search for end_tokens runs on a buffer into which all bytes received so far have flowed" % f.qualname)
    # the straddle idiom of the fixed two-byte terminator
    rl = [f for f in reader_fns if f.name == "_readline"]
    for f in rl:
        # either the reader accumulates and searches the whole buffer (as the segment reader does) ...
        adom = AccDomain(prog, f, byte_sources, tokens=(Const(b"\r\n"),))
        ainit = {p.name: (ACC if p.name == "buf" else TOP) for p in f.params}
        ainit["#pending"] = 0
        Interp(adom, f.node, prog).run(Env(ainit))
        if adom.n_search and not adom.problems and not any(isinstance(c, ast.Call) and isinstance(c.func, ast.Attribute) and c.func.attr in ("find", "index") and len(c.args) > 1 for c in walk_no_nested(f.node)):
            r4.ok("_readline: every search for CR LF runs on a buffer into which all bytes received so far have flowed (%d searches)" % adom.n_search)
            continue
        # ... or it searches piece by piece and carries the last character over
        has_last = any(isinstance(n, ast.Compare) and any(isinstance(c, ast.Constant) and c.value == b"\r" for c in ast.walk(n)) for n in walk_no_nested(f.node))
        has_find = any(isinstance(n, ast.Call) and isinstance(n.func, ast.Attribute) and n.func.attr == "find" and n.args and isinstance(n.args[0], ast.Constant) and n.args[0].value == b"\r\n" for n in walk_no_nested(f.node))
        if has_last and has_find:
            r4.ok("_readline: piece-wise search for CR LF plus the carried last character (recognised straddle idiom)")
        elif not any(isinstance(x, (ast.Yield, ast.YieldFrom)) for n_ in readers for x in walk_no_nested(mod.functions[n_].node)):
            # another way of finding a CR LF that is cut between two pieces: whether it works is decided by the
            # segmentation rows (R6), which contain every cut of every short stream - CR | LF among them
            r4.ok("_readline: a piece-wise search of another shape - the straddling CR LF is decided by the segmentation rows (C03.R6)")
        else:
            r4.undecided("_readline:straddle-idiom", "_readline searches piece by piece in a form the analysis does not recognise, and the segmentation rows are not evaluated for a lazy chunk source: whether a CR LF cut between two pieces is found is not decided")

    # ------------------------------------------------------------------ R5 binary safety of the sized reader
    r5 = chk.rule("C03.R5", "the sized value reader handles payload bytes by position only (slicing, len, append, join): no content-dependent operation")
    sized = [f for f in reader_fns if any(p.name == "size" for p in f.params)]
    r5.floor("sized readers", len(sized), 1)
    for f in sized:
        bad = [c for c in walk_no_nested(f.node) if isinstance(c, ast.Call) and isinstance(c.func, ast.Attribute) and c.func.attr in CONTENT_OPS + ("find", "index", "startswith", "endswith", "count")]
        for c in bad:
            r5.fail("%s:content-dependent:%s" % (f.qualname, c.func.attr), "%s applies `.%s(...)` to received payload (`%s`): a value is binary data whose bytes may be anything (it may end in CR, contain CR LF or protocol keywords), so trimming or searching by content changes or truncates values for particular contents and splits" % (f.qualname, c.func.attr, node_src(c, 60)), fn=f, node=c)
        if not bad:
            r5.ok("%s uses positions only" % f.qualname)
    # ------------------------------------------------------------------ R6 every segmentation of short reply streams
    r6 = chk.rule("C03.R6", "segmentation rows: each reader, interpreted on exact byte strings for every way a short reply stream can be cut into pieces (and every split between the leftover handed in and the pieces to come), returns the same result and leftover, asks for no piece beyond the one that completes the reply, and raises when the peer hangs up first")
    from . import seghist

    lazy = sorted(n for n in readers if any(isinstance(x, (ast.Yield, ast.YieldFrom)) for x in walk_no_nested(mod.functions[n].node)))
    if lazy:
        # the readers pull their pieces from a generator: the exact interpreter evaluates generator functions eagerly,
        # which is not what a lazy, endless chunk source does - no rows; the liveness rules R1 / R4 (which know chunk
        # generators) are what decides this form
        r6.ok("not evaluated: the pieces come from the generator function(s) %s, which the exact interpreter does not follow lazily (R1 / R4 decide this form)" % ", ".join(lazy))
        chk.assume("C03.R6 was not evaluated on this tree: received pieces come from a lazy generator (%s)" % ", ".join(lazy))
        return
    rows = seghist.segmentation_rows(prog, reader_fns, byte_sources, tier=getattr(chk, "tier", "quick"))
    total = 0
    for fname in sorted(rows):
        kind, n, bad = rows[fname]
        f = mod.functions[fname]
        if kind is None:
            r6.undecided("%s:reader-kind" % f.qualname, "%s reaches recv and takes a buffer, but its signature is none of (sock, buf), (sock, buf, size: int), (sock, buf, end_tokens: bytes): no segmentation rows are known for it" % f.qualname)
            continue
        total += n
        fails = [b for b in bad if b[0] == "fail"]
        undec = [b for b in bad if b[0] == "undecided"]
        if fails:
            st, text, buf0, pieces, third = min(fails, key=lambda b: (len(b[3]), len(b[2]) + sum(map(len, b[3]))))
            r6.fail("%s:segmentation" % f.qualname, "%s (%s reader): with the leftover %r handed in%s and the pieces %s arriving, it %s [%d of %d rows fail]" % (f.qualname, kind, buf0, "" if third is None else ", third argument %r" % (third,), list(pieces), text, len(fails), n), fn=f, node=f.node, witness="buf=%r pieces=%r arg=%r" % (buf0, list(pieces), third))
        elif undec:
            st, text, buf0, pieces, third = undec[0]
            r6.undecided("%s:segmentation" % f.qualname, "%s (%s reader): %d of %d rows are not evaluated exactly, e.g. leftover %r, pieces %s: %s" % (f.qualname, kind, len(undec), n, buf0, list(pieces), text))
        else:
            r6.ok("%s (%s reader): %d rows (stream x segmentation x leftover split), all as specified" % (f.qualname, kind, n))
    r6.floor("segmentation rows evaluated", total, 20000)
    chk.assume("segmentation equivalence is decided for the streams of C03.R6 (every string over {a, CR, LF} up to 4-5 bytes, sized values up to 2-3 bytes with every content, seven end tokens with partial-token bodies; every segmentation of the short ones, up to two cuts of the longer ones); streams beyond those, and the exchange loops' composition of readers, rest on the liveness rules R1/R4")


ACC, NEW, TOKEN = Opaque("all-bytes-so-far"), Opaque("new-chunk"), Opaque("end-token")


class AccDomain(Domain):
    """The token-terminated reader: which value holds *all* bytes received since the call began (ACC), which is only
    a newly received piece (NEW).  `pending` = pieces received that have not flowed into the accumulated buffer yet.
    Every search for the end token must run on ACC with nothing pending."""

    async_enabled = False
    subscript_may_raise = False
    unpack_may_raise = False

    def __init__(self, prog, fn, byte_sources, tokens=()):
        super().__init__(prog, fn)
        self.byte_sources = set(byte_sources)
        self.tokens = (TOKEN,) + tuple(tokens)
        mod = fn.module
        self.generators = {n for n in self.byte_sources if any(isinstance(x, (ast.Yield, ast.YieldFrom)) for x in walk_no_nested(mod.functions[n].node))}
        self.problems = []
        self.n_search = 0

    def truth(self, v, state=None):
        if v == CHUNKS:
            return True
        if v in (ACC, NEW, TOKEN):
            return None  # (possibly empty) bytes
        return super().truth(v, state)

    def never_none(self, v):
        return v in (ACC, NEW, TOKEN, CHUNKS) or super().never_none(v)

    def _new(self, state):
        return NEW, state.set("#pending", min(2, state.get("#pending", 0) + 1))

    def binop_s(self, node, l, r, state):
        if isinstance(node.op, ast.Add):
            if l == ACC and r == NEW:
                return ACC, state.set("#pending", max(0, state.get("#pending", 0) - 1))
            if l == ACC and r not in (NEW, ACC):
                return ACC, state
            if l == NEW and r == ACC:
                self.problems.append(("search-buffer-not-accumulated", "`%s` puts newly received bytes in front of the bytes received earlier" % node_src(node), node))
                return TOP, state
        return TOP, state

    def subscript_load(self, objval, idxval, node, state):
        return TOP, False  # a slice of the buffer is not the whole buffer

    def attr_load(self, objval, node, state):
        if objval in (ACC, NEW) or objval is TOP:
            return ("meth", objval, node.attr, node_src(node.value))
        return TOP

    def for_next(self, node, itval, state):
        if itval == CHUNKS:
            v, st = self._new(state)
            return [(v, st)]
        return [(TOP, state)]

    def for_exhausted(self, node, itval, state):
        return None if itval == CHUNKS else state

    def call(self, node, fval, args, kwargs, state):
        name = call_name(node)
        if isinstance(node.func, ast.Name) and node.func.id in self.byte_sources:
            if node.func.id in self.generators:
                return [("ok", CHUNKS, state)]
            v, st = self._new(state)
            return [("ok", v, st)]
        if name in ("itertools.chain", "chain") and any(a == CHUNKS for a in args):
            return [("ok", CHUNKS, state)]
        if name == "next" and args and args[0] == CHUNKS:
            v, st = self._new(state)
            return [("ok", v, st)]
        if isinstance(fval, tuple) and fval and fval[0] == "meth" and fval[2] in ("find", "index", "rfind", "partition", "split", "endswith", "count") and args and args[0] in self.tokens:
            self.n_search += 1
            recv, pend = fval[1], state.get("#pending", 0)
            if recv != ACC:
                self.problems.append(("search-buffer-not-accumulated", "`%s` looks for the end token in `%s`, which does not hold all bytes received since the call began (only the newest piece, or a part of the buffer): an end token that straddles two pieces is never found" % (node_src(node, 70), fval[3]), node))
            elif pend:
                self.problems.append(("search-buffer-not-accumulated", "`%s` runs while a received piece has not been appended to `%s` yet: the search does not see all unconsumed bytes" % (node_src(node, 70), fval[3]), node))
            return [("ok", TOP, state)]
        if name == "len":
            return [("ok", TOP, state)]
        return [("ok", TOP, state)]

    def name_store(self, name, value, state, node=None):
        cur = state.get(name, None)
        if cur == ACC and value != ACC and isinstance(node, (ast.Name, ast.AugAssign)) and value == NEW:
            self.problems.append(("search-buffer-not-accumulated", "`%s` is re-bound to newly received data instead of having it appended: the bytes received earlier are searched no more, so an end token that straddles two pieces is never found" % name, node))
        return state.set(name, value)


class _RecvDomain(Domain):
    """sock.recv raises OSError on its first call and returns data on the second."""

    async_enabled = False

    def __init__(self, prog, fn, eintr):
        super().__init__(prog, fn)
        self.eintr = eintr

    def call(self, node, fval, args, kwargs, state):
        if isinstance(node.func, ast.Attribute) and node.func.attr in ("recv", "recv_into"):
            n = state.get("#n", 0)
            st = state.set("#n", min(3, n + 1))
            if n == 0:
                return [("exc", Exc(ORD, "OSError", node.lineno), st)]
            return [("ok", Opaque("data-of-call-%d" % (n + 1)), st)]
        return [("ok", TOP, state)]

    def attr_load(self, objval, node, state):
        if node.attr == "errno" and isinstance(node.value, ast.Name) and node.value.id != "errno":
            return Opaque("errno-of-exc")
        if isinstance(node.value, ast.Name) and node.value.id == "errno":
            return Opaque("errno." + node.attr)
        return TOP

    def compare(self, node, op, l, r, state):
        vals = {l, r} if isinstance(l, Opaque) and isinstance(r, Opaque) else set()
        if Opaque("errno-of-exc") in vals and Opaque("errno.EINTR") in vals and isinstance(op, (ast.Eq, ast.NotEq, ast.Is, ast.IsNot)):
            eq = self.eintr
            return Const(eq if isinstance(op, (ast.Eq, ast.Is)) else not eq)
        if Opaque("errno-of-exc") in vals:
            return Const(False) if isinstance(op, (ast.Eq, ast.Is)) else Const(True)
        return super().compare(node, op, l, r, state)


def _ancestors(n):
    n = getattr(n, "_parent", None)
    while n is not None:
        yield n
        n = getattr(n, "_parent", None)


def _offset_problem(f, loop, fc, V):
    """The start offset of the search must not skip bytes that could begin a straddling token:
    start <= len(V before the new piece) - (len(token) - 1).  Linear normal form over len(V), len(token)."""
    start = fc.args[1]
    if not isinstance(start, ast.Name):
        return "the search for the end token starts at offset `%s`, which this rule cannot relate to the buffer and token lengths" % node_src(start)
    defs = [n for n in ast.walk(loop) if isinstance(n, ast.Assign) and any(isinstance(t, ast.Name) and t.id == start.id for t in n.targets)]
    if len(defs) != 1:
        return "the search offset `%s` has %d definitions inside the loop" % (start.id, len(defs))
    v = defs[0].value
    # max(A, 0) or A
    if isinstance(v, ast.Call) and call_name(v) == "max" and len(v.args) == 2:
        a = [x for x in v.args if not _is_zero(x)]
        if len(a) != 1:
            return "unrecognised offset expression `%s`" % node_src(v)
        v = a[0]

    def lin(e):
        if isinstance(e, ast.Constant) and isinstance(e.value, int):
            return {"1": e.value}
        if isinstance(e, ast.Call) and call_name(e) == "len" and len(e.args) == 1 and isinstance(e.args[0], ast.Name):
            return {"len:" + e.args[0].id: 1}
        if isinstance(e, ast.BinOp) and isinstance(e.op, (ast.Add, ast.Sub)):
            l, r = lin(e.left), lin(e.right)
            if l is None or r is None:
                return None
            s = 1 if isinstance(e.op, ast.Add) else -1
            out = dict(l)
            for k, c in r.items():
                out[k] = out.get(k, 0) + s * c
            return out
        return None

    L = lin(v)
    if L is None:
        return "unrecognised offset expression `%s`" % node_src(v)
    # safe iff  (len(V) - len(tok) + 1) - start >= 0 for every token length >= 1, i.e. coefficient of len(tok) in start
    # is <= -1 ... precisely: start = len(V) + a*len(tok) + c  with  a <= -1 and c <= 1 - (a+1)*1 ... evaluate for tok = 1..64
    lv = L.get("len:" + V, 0)
    lt = L.get("len:end_tokens", 0)
    c = L.get("1", 0)
    if lv != 1:
        return "the search offset `%s` is not measured from the end of the buffer" % node_src(v)
    for tok in range(1, 65):
        start_minus_len = lt * tok + c  # start - len(V)
        if start_minus_len > -(tok - 1):
            return "after each piece the search resumes at `%s`, i.e. only %d byte(s) before the old end of the buffer; an end token of %d bytes cut %d or more bytes into the token is then never found (offset must go back len(end_tokens)-1 bytes)" % (node_src(defs[0].value), -start_minus_len, tok, -start_minus_len + 1)
    return None
