"""Path analysis of the exchange functions of Client (those that call <sock>.sendall) shared by
C01 (ORD colour), C10 (ASYNC colour) and C07 (swallow coverage)."""
import ast
from collections import namedtuple

from .model import AnalysisError, node_src, is_self_attr, call_name
from .paths import Interp, Domain, Env, TOP, Const, Neq, NONE, Opaque, Exc, ORD, ASYNC, fmt_trace, Ctx
from .report import walk_no_nested

Truthiness = namedtuple("Truthiness", "b")

READERS_BASE = "pymemcache/client/base.py"


def _has_sendall(f):
    return any(isinstance(n, ast.Call) and isinstance(n.func, ast.Attribute) and n.func.attr == "sendall" for n in walk_no_nested(f.node))


def send_helpers(prog):
    """Client methods that send (contain <sock>.sendall) but read no reply: wrappers around the send step.
    A call of such a helper is a send event of its caller."""
    direct, readers = recv_reaching_functions(prog)
    rm = methods_reaching_readers(prog, readers)
    out = {}
    for f in prog.cls("Client").methods.values():
        if not _has_sendall(f):
            continue
        reads = False
        al = local_reader_aliases(f, readers) | set(readers)
        for n in walk_no_nested(f.node):
            if isinstance(n, ast.Call) and ((isinstance(n.func, ast.Name) and n.func.id in al) or (isinstance(n.func, ast.Attribute) and is_self_attr(n.func) and n.func.attr in rm)):
                reads = True
        if not reads:
            out[f.name] = f
    return out


def exchange_functions(prog):
    """Client methods that send: directly (<sock>.sendall) or through a send helper."""
    helpers = send_helpers(prog)
    out = []
    for f in prog.cls("Client").methods.values():
        if _has_sendall(f):
            out.append(f)
            continue
        for n in walk_no_nested(f.node):
            if isinstance(n, ast.Call) and isinstance(n.func, ast.Attribute) and is_self_attr(n.func) and n.func.attr in helpers:
                out.append(f)
                break
    return sorted(out, key=lambda f: f.node.lineno)


def reading_exchange_functions(prog):
    """Exchange functions that also read replies (the request/response functions proper)."""
    helpers = send_helpers(prog)
    return [f for f in exchange_functions(prog) if f.name not in helpers]


_SUMMARY = {}


def helper_summary(prog, fn, readers, reader_methods):
    """For a send helper: does every exit by an exception of the given colour, after sendall started, pass close?"""
    key = (id(prog), fn.qualname)
    if key in _SUMMARY:
        return _SUMMARY[key]
    res = {}
    runs = analyse_exchange(prog, fn, readers, reader_methods, with_async=True, helpers={})
    for colour in (ORD, ASYNC):
        obs = close_obligations(prog, fn, runs, colour)
        res[colour] = all(o[0] for o in obs) if obs else True
    _SUMMARY[key] = res
    return res


def recv_reaching_functions(prog):
    """Module functions of base.py from which <sock>.recv is reachable (transitively), by name."""
    mod = prog.module(READERS_BASE)
    direct = set()
    for f in mod.functions.values():
        for n in walk_no_nested(f.node):
            if isinstance(n, ast.Call) and isinstance(n.func, ast.Attribute) and n.func.attr in ("recv", "recv_into"):
                direct.add(f.name)
    reach = set(direct)
    changed = True
    while changed:
        changed = False
        for f in mod.functions.values():
            if f.name in reach:
                continue
            for n in walk_no_nested(f.node):
                if isinstance(n, ast.Call) and isinstance(n.func, ast.Name) and n.func.id in reach:
                    reach.add(f.name)
                    changed = True
                    break
    return direct, reach


def local_reader_aliases(fn, readers):
    """Names inside fn bound to a reader: `_reader = _readline`, `_reader = partial(_readsegment, ...)`."""
    al = set()
    for n in walk_no_nested(fn.node):
        if isinstance(n, ast.Assign) and len(n.targets) == 1 and isinstance(n.targets[0], ast.Name):
            v = n.value
            if isinstance(v, ast.Name) and v.id in readers:
                al.add(n.targets[0].id)
            elif isinstance(v, ast.Call) and call_name(v) in ("partial", "functools.partial") and v.args and isinstance(v.args[0], ast.Name) and v.args[0].id in readers:
                al.add(n.targets[0].id)
    return al


def methods_reaching_readers(prog, readers):
    """Client methods that call a reader function directly (e.g. _extract_value)."""
    out = set()
    for f in prog.cls("Client").methods.values():
        for n in walk_no_nested(f.node):
            if isinstance(n, ast.Call) and isinstance(n.func, ast.Name) and n.func.id in readers:
                out.add(f.name)
    return out


class ExchangeDomain(Domain):
    """Tracked facts: sent (a sendall was started), closed (Client.close passed since), caught (colour of an
    exception intercepted since the sendall), reads (reader calls since the sendall: 0 / 1 = one or more)."""

    def __init__(self, prog, fn, readers, reader_methods, with_async=True, helpers=None):
        super().__init__(prog, fn)
        if helpers is None:
            helpers = {n: helper_summary(prog, h, readers, reader_methods) for n, h in send_helpers(prog).items() if n != fn.name}
        self.helpers = helpers
        self.readers = set(readers) | local_reader_aliases(fn, readers)
        self.reader_methods = reader_methods
        self.async_enabled = with_async
        self.events = []  # (kind, node, state)
        self.n_sendall = 0
        self.n_reader_calls = set()
        self.n_close_calls = set()

    def init_state(self, fn_node):
        return Env({"sent": 0, "closed": 0, "caught": None, "reads": 0})

    def truth(self, v, state=None):
        if isinstance(v, Truthiness):
            return v.b
        return super().truth(v, state)

    def never_none(self, v):
        return (isinstance(v, Truthiness) and v.b) or super().never_none(v)

    def assume_name(self, key, value, branch, state):
        if value is TOP and (key.startswith("self.") or key in ("noreply",)):
            return state.set(key, Truthiness(branch))
        return super().assume_name(key, value, branch, state)

    def on_catch(self, handler, exc, state):
        if state.get("sent"):
            cur = state.get("caught")
            if cur != ASYNC:
                state = state.set("caught", exc.colour)
        return state

    def call(self, node, fval, args, kwargs, state):
        name = call_name(node)
        if isinstance(node.func, ast.Attribute) and node.func.attr == "sendall":
            self.n_sendall += 1
            s2 = state.update({"sent": 1, "closed": 0, "caught": None, "reads": 0})
            return [("ok", NONE, s2.set("self.sock", Neq(None)))] + self.call_raises(node, s2)
        if name.startswith("self.") and name[5:] in self.helpers:
            # a send helper: the request goes out here; whether a failing helper has already closed is its summary
            self.n_sendall += 1
            summ = self.helpers[name[5:]]
            s2 = state.update({"sent": 1, "closed": 0, "caught": None, "reads": 0})
            out = [("ok", NONE, s2.set("self.sock", Neq(None)))]
            out.append(("exc", Exc(ORD, None, node.lineno), s2.set("closed", 1 if summ.get(ORD) else 0)))
            if self.async_enabled:
                out.append(("exc", Exc(ASYNC, None, node.lineno), s2.set("closed", 1 if summ.get(ASYNC) else 0)))
            return out
        if name in ("self.close", "self.disconnect_all"):
            self.n_close_calls.add(node.lineno)
            s2 = state.set("closed", 1).set("self.sock", NONE)
            # Client.close is summarised as not raising (C06.R6); an interruption inside the cleanup call itself is
            # not an interruption point of the property's quantifier.
            return [("ok", NONE, s2)]
        is_reader = (isinstance(node.func, ast.Name) and node.func.id in self.readers) or (
            isinstance(node.func, ast.Attribute) and is_self_attr(node.func) and node.func.attr in self.reader_methods
        )
        if is_reader:
            self.n_reader_calls.add(node.lineno)
            self.events.append(("read", node, state))
            s2 = state.set("reads", 1)
            return [("ok", TOP, s2)] + self.call_raises(node, state)
        if name == "self._connect":
            return [("ok", NONE, state.set("self.sock", Neq(None)))] + self.call_raises(node, state)
        if name in ("isinstance", "len", "logger.debug", "partial"):
            return [("ok", TOP, state)]
        return [("ok", TOP, state)] + self.call_raises(node, state)


def analyse_exchange(prog, fn, readers, reader_methods, with_async=True, helpers=None):
    """Run the path interpreter on one exchange function for every truthiness of noreply / ignore_exc / self.sock.
    Returns list of (config, outs, dom)."""
    runs = []
    has_noreply = fn.param("noreply") is not None
    for noreply in ((True, False) if has_noreply else (None,)):
        for ign in (True, False):
            dom = ExchangeDomain(prog, fn, readers, reader_methods, with_async=with_async, helpers=helpers)
            st = dom.init_state(fn.node).set("self.ignore_exc", Truthiness(ign))
            if noreply is not None:
                st = st.set("noreply", Truthiness(noreply))
            interp = Interp(dom, fn.node, prog)
            outs = interp.run(st)
            runs.append(({"noreply": noreply, "ignore_exc": ign}, outs, dom, interp))
    return runs


def close_obligations(prog, fn, runs, colour):
    """For each exit of the function: (ok, construct, message, witness).  colour = ORD or ASYNC."""
    res = []
    for cfg, outs, dom, interp in runs:
        for s, exc, t in outs.of("exc"):
            if exc.colour != colour or not s.get("sent"):
                continue
            ok = bool(s.get("closed"))
            res.append((ok, "raise", exc, cfg, t, s))
        for s, v, t in outs.of("ret"):
            if s.get("sent") and s.get("caught") == colour:
                ok = bool(s.get("closed"))
                res.append((ok, "swallow", None, cfg, t, s))
    return res


def handler_desc(trace):
    hs = [x for x in trace if isinstance(x, str) and x.startswith("except@")]
    return hs[-1] if hs else "no handler"
