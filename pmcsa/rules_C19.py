"""C19 - ElastiCache auto-discovery: rotation equals the advertised node list (partial: path and structure rules)."""
import ast

from .model import AnalysisError, node_src, is_self_attr, call_name, fold, NotConst
from .paths import Interp, Domain, Env, TOP, NONE, Const, TupleV, Exc, ORD, ASYNC, fmt_trace, Opaque, Ctx, FuncRef, LambdaV
from .colls import ExactCollections, GenV, deref, fold_method, lower_value, NotConcrete
from .report import walk_no_nested

LEVEL = "other"
LEVEL_TEXT = (
    "Path and structure rules on AWSElastiCacheHashClient: definite assignment with exception edges (an ERROR reply must "
    "surface as the memcached error, not as an unbound local), the coupled update of clients / hasher / failover state in "
    "reconfigure_nodes on every path before any advertised node is added (and every advertised node is added "
    "unconditionally), replaced clients and the discovery client closed, host/port selection by use_vpc, and the "
    "terminator wiring of the config command (whose delivery independence is C03.R1/R4). Routing of key corpora after "
    "reconfiguration sequences is a runtime statement and not decided."
)
TRUSTED = ["CPython ast", "pmcsa/paths.py", "C11/C12 for routing once hasher nodes == clients keys", "C03.R1/R4 for the segment reader"]

AWS = "pymemcache/client/ext/aws_ec_client.py"


class _Truth:
    """A value of which only the truth value is known."""

    __slots__ = ("b",)

    def __init__(self, b):
        self.b = b

    def __eq__(self, other):
        return isinstance(other, _Truth) and other.b == self.b

    def __hash__(self):
        return hash(("_Truth", self.b))

    def __repr__(self):
        return "Truth(%s)" % self.b


class DefDomain(Domain):
    """Possibly-undefined analysis: a local that is read on a path that has not assigned it."""

    async_enabled = False
    subscript_may_raise = True

    def __init__(self, prog, fn):
        super().__init__(prog, fn)
        self.locals = set()
        for n in ast.walk(fn.node):
            if isinstance(n, ast.Name) and isinstance(n.ctx, (ast.Store, ast.Del)):
                self.locals.add(n.id)
            if isinstance(n, ast.ExceptHandler) and n.name:
                self.locals.add(n.name)
            if isinstance(n, (ast.ListComp, ast.SetComp, ast.DictComp, ast.GeneratorExp, ast.Lambda)):
                pass
        comp_locals = set()
        for n in ast.walk(fn.node):
            if isinstance(n, (ast.ListComp, ast.SetComp, ast.DictComp, ast.GeneratorExp)):
                for g in n.generators:
                    for x in ast.walk(g.target):
                        if isinstance(x, ast.Name):
                            comp_locals.add(x.id)
        self.comp_locals = comp_locals
        self.params = {a.arg for a in fn.node.args.args + fn.node.args.kwonlyargs + fn.node.args.posonlyargs}
        if fn.node.args.vararg:
            self.params.add(fn.node.args.vararg.arg)
        if fn.node.args.kwarg:
            self.params.add(fn.node.args.kwarg.arg)
        self.undefined = []

    def init_state(self, fn_node):
        return Env({p: TOP for p in self.params})

    def name_load(self, name, state, node=None):
        if name in self.locals and name not in self.params and not state.has(name):
            if name in self.comp_locals and node is not None and _in_comprehension(node):
                return TOP
            self.undefined.append((name, node, state))
        return state.get(name, TOP)

    def name_store(self, name, value, state, node=None):
        # keep what decides later branches (None-ness, constants, remembered truth values), forget the rest
        return state.set(name, value if isinstance(value, (Const, _Truth)) else TOP)

    def name_del(self, name, state):
        return state.drop(name)

    def truth(self, v, state=None):
        if isinstance(v, _Truth):
            return v.b
        return super().truth(v, state)

    def never_none(self, v):
        return (isinstance(v, _Truth) and v.b) or super().never_none(v)

    def assume_name(self, key, value, branch, state):
        # the same parameter / local tested twice takes the same branch twice (correlated conditions)
        if value is TOP:
            return state.set(key, _Truth(branch))
        return super().assume_name(key, value, branch, state)

    def call(self, node, fval, args, kwargs, state):
        if call_name(node).startswith(("logger.", "logging.")):
            return [("ok", TOP, state)]
        return [("ok", TOP, state), ("exc", Exc(ORD, None, node.lineno), state)]

    def lambda_(self, node, state):
        return TOP

    def comprehension(self, node, elem_values, state):
        return TOP


def _in_comprehension(node):
    p = getattr(node, "_parent", None)
    while p is not None:
        if isinstance(p, (ast.ListComp, ast.SetComp, ast.DictComp, ast.GeneratorExp)):
            return True
        if isinstance(p, (ast.FunctionDef, ast.AsyncFunctionDef)):
            return False
        p = getattr(p, "_parent", None)
    return False


class ReconfDomain(Domain):
    async_enabled = False
    subscript_may_raise = False
    unpack_may_raise = False

    def __init__(self, prog, fn):
        super().__init__(prog, fn)
        self.problems = []

    def attr_load(self, objval, node, state):
        if is_self_attr(node):
            return Opaque("self." + node.attr)
        if isinstance(objval, Opaque):
            return Opaque(objval.tag + "." + node.attr)
        return TOP

    def attr_store(self, objval, node, value, state):
        if is_self_attr(node, "hasher"):
            return state.set("#hasher_clean", True)
        if is_self_attr(node, "clients"):
            return state.set("#clients_cleared", True)
        return state

    def _ev(self, state, e):
        return state.set("#ev", state.get("#ev", ()) + (e,))

    def call(self, node, fval, args, kwargs, state):
        name = call_name(node)
        if name == "self.clients.copy" or (name in ("dict", "list") and args and args[0] == Opaque("self.clients")):
            return [("ok", Opaque("snapshot"), state.set("#snapshot_before_clear", not state.get("#clients_cleared", False)))]
        if name == "self.clients.clear":
            return [("ok", NONE, state.set("#clients_cleared", True))]
        if name == "self._failed_clients.clear":
            return [("ok", NONE, state.set("#failed_cleared", True))]
        if name == "self._dead_clients.clear":
            return [("ok", NONE, state.set("#dead_cleared", True))]
        if name == "self.hasher.remove_node":
            it = state.get("#iterating", None)
            st = state
            if it == "snapshot" and args and args[0] == Opaque("snapshot-elem"):
                # this old node is out of the hasher now (removed, or - ValueError - it already was); the hasher is
                # clean once the loop has gone through *all* old nodes, i.e. when it is exhausted (see for_exhausted)
                st = st.set("#elem_removed", True)
            return [("ok", NONE, st), ("exc", Exc(ORD, "ValueError", node.lineno), st)]
        if name in ("self.hasher.nodes.clear",):
            return [("ok", NONE, state.set("#hasher_clean", True))]
        if name == "self._get_nodes_list":
            return [("ok", Opaque("advertised"), state), ("exc", Exc(ORD, None, node.lineno), state)]
        if name == "normalize_server_spec":
            return [("ok", ("normalized", args[0] if args else None), state)]
        if name == "self.add_server":
            a = args[0] if args else None
            st = state
            if not (state.get("#clients_cleared", False) and state.get("#hasher_clean", False)):
                self.problems.append(("add-before-rotation-reset", "a node is added while %s: keys keep being routed to nodes that are no longer advertised (the hasher, not the clients dict, decides where keys go), and operations on them fail with KeyError" % ("the old node names are still in the hasher" if not state.get("#hasher_clean", False) else "self.clients still holds the old clients"), node))
            if not state.get("#dead_cleared", False) or not state.get("#failed_cleared", False):
                self.problems.append(("add-before-failover-reset", "nodes are added while the dead/failing bookkeeping of the previous configuration is kept: an evicted old node is brought back into rotation later by the dead-server scan although it is no longer advertised", node))
            ok_arg = isinstance(a, tuple) and a and a[0] == "normalized" and a[1] == Opaque("advertised-elem")
            if not ok_arg:
                self.problems.append(("add-unnormalised", "add_server is not given normalize_server_spec(<advertised node>)", node))
            if state.get("#guarded", 0):
                self.problems.append(("conditional-add", "an advertised node is added only under a condition (`%s`): a node that is advertised but, e.g., was evicted as dead or already known is not put (back) into rotation" % state.get("#guard_src", "?"), node))
            return [("ok", NONE, self._ev(st, "add")), ("exc", Exc(ORD, None, node.lineno), st)]
        if isinstance(node.func, ast.Attribute) and node.func.attr == "close":
            recv = node.func.value
            if isinstance(recv, ast.Name) and state.get(recv.id, None) == Opaque("snapshot-value"):
                return [("ok", NONE, state.set("#closed_old", True))]
            return [("ok", NONE, state)]
        if name in ("old_clients.values", "old_clients.items", "old_clients.keys") or (isinstance(node.func, ast.Attribute) and node.func.attr in ("values", "items", "keys") and isinstance(node.func.value, ast.Name) and state.get(node.func.value.id, None) == Opaque("snapshot")):
            return [("ok", Opaque("snapshot-" + node.func.attr), state)]
        if name.startswith("self._") and name.count(".") == 1 and self.prog is not None and self.fn is not None and self.fn.cls is not None:
            # a private helper of the class (e.g. the reset of the old configuration extracted): interpreted in line,
            # the facts it establishes are the caller's
            m = self.prog.method(self.fn.cls, name[5:], required=False)
            if m is not None and m is not self.fn and getattr(m, "cls", None) is not None and m.module is self.fn.module:
                res = self.inline(node, m, args, kwargs, state)
                if res is not None:
                    return res
        return [("ok", TOP, state)]

    def is_global_key(self, k):
        return (isinstance(k, str) and k.startswith("#")) or super().is_global_key(k)

    def for_next(self, node, itval, state):
        key = ("visited", node.lineno)
        if state.get(key, False):
            return []
        st = state.set(key, True)
        if itval == Opaque("snapshot") or itval == Opaque("snapshot-keys"):
            return [(Opaque("snapshot-elem"), st.set("#iterating", "snapshot"))]
        if itval == Opaque("snapshot-values"):
            return [(Opaque("snapshot-value"), st.set("#iterating", "snapshot-values"))]
        if itval == Opaque("snapshot-items"):
            return [(TupleV((Opaque("snapshot-elem"), Opaque("snapshot-value"))), st.set("#iterating", "snapshot"))]
        if itval == Opaque("advertised"):
            return [(Opaque("advertised-elem"), st.set("#iterating", "advertised"))]
        return [(TOP, st)]

    def for_exhausted(self, node, itval, state):
        if isinstance(itval, Opaque) and (itval.tag.startswith("snapshot") or itval.tag == "advertised") and not state.get(("visited", node.lineno), False):
            return None
        if isinstance(itval, Opaque) and itval.tag in ("snapshot", "snapshot-keys", "snapshot-items") and state.get("#elem_removed", False):
            # every old node was visited and taken out (an exception that leaves the loop does not come through here)
            state = state.set("#hasher_clean", True)
        return state.drop("#iterating") if state.has("#iterating") else state

    def assume(self, expr, value, branch, state):
        # any branch inside the loop over the advertised nodes guards what follows
        if state.get("#iterating", None) == "advertised":
            return state.set("#guarded", state.get("#guarded", 0) + 1).set("#guard_src", node_src(expr, 60))
        return state

    def refine_compare(self, node, op, lexpr, l, rexpr, r, branch, state):
        if state.get("#iterating", None) == "advertised":
            return state.set("#guarded", state.get("#guarded", 0) + 1).set("#guard_src", node_src(node, 60))
        return state


class CloseDomain(Domain):
    async_enabled = False
    global_keys = ("#created", "#closed")

    def close_value(self, obj, item, state):
        if obj == Opaque("discovery-client"):
            return state.set("#closed", True)
        return state

    def call(self, node, fval, args, kwargs, state):
        name = call_name(node)
        if name in ("Client", "self.client_class"):
            return [("ok", Opaque("discovery-client"), state.set("#created", True)), ("exc", Exc(ORD, None, node.lineno), state)]
        if isinstance(node.func, ast.Attribute) and node.func.attr == "close" and isinstance(node.func.value, ast.Name) and state.get(node.func.value.id, None) == Opaque("discovery-client"):
            return [("ok", NONE, state.set("#closed", True))]
        if name.startswith("logger."):
            return [("ok", NONE, state)]
        if name.startswith("self._") and name.count(".") == 1 and self.fn is not None and self.fn.cls is not None:
            # a private helper of the class (e.g. the part that talks to the configuration endpoint): in line
            m = self.prog.method(self.fn.cls, name[5:], required=False)
            if m is not None and m is not self.fn:
                res = self.inline(node, m, args, kwargs, state)
                if res is not None:
                    return res
        return [("ok", TOP, state), ("exc", Exc(ORD, None, node.lineno), state)]

    def attr_load(self, objval, node, state):
        return TOP if not isinstance(objval, Opaque) else ("meth", objval, node.attr)


class DiscoveryDomain(ExactCollections, Domain):
    """_get_nodes_list interpreted on a scripted `config get cluster` reply: pure str/bytes methods on constants are
    folded, the discovery client is an object whose construction and commands are recorded."""

    async_enabled = False
    subscript_may_raise = False
    unpack_may_raise = False
    global_keys = ("#log", "#imprecise")

    def __init__(self, prog, fn, use_vpc, reply, fails=None):
        super().__init__(prog, fn)
        self.use_vpc = use_vpc
        self.reply = reply
        self.fails = fails  # None | the exception class raw_command raises (the client has closed its socket by then)

    def mark_imprecise(self, state, node):
        return state.set("#imprecise", 1)

    def name_load(self, name, state, node=None):
        if state.has(name):
            return state.get(name)
        if name in ("Client", "PooledClient"):
            return Opaque("class:" + name)
        if self.fn is not None and name in self.fn.module.functions:
            return FuncRef(name)
        return TOP

    def attr_load(self, objval, node, state):
        b = self.coll_attr(objval, node)
        if b is not None:
            return b
        if is_self_attr(node, "_use_vpc"):
            return Const(self.use_vpc)
        if is_self_attr(node, "_cfg_node"):
            return Const("cluster.abc123.cfg.use1.cache.amazonaws.com:11211")
        if is_self_attr(node):
            return state.get("self." + node.attr, TOP)
        if isinstance(objval, Const):
            return ("cmeth", objval, node.attr)
        if objval == Opaque("cfg-client"):
            if node.attr == "sock":
                # a Client that failed has closed its connection: there is no socket on it (C01.R1 / C06)
                return NONE if self.fails else Opaque("cfg-client.sock")
            if node.attr == "server":
                return TupleV((Const("cluster.abc123.cfg.use1.cache.amazonaws.com"), Const("11211")))
            return ("client-meth", node.attr)
        if isinstance(node.value, ast.Name) and node.value.id in ("operator", "logger", "logging"):
            return Opaque("%s.%s" % (node.value.id, node.attr))
        return TOP

    def close_value(self, value, item, state):
        # `with contextlib.closing(client):` - the exit closes the client
        if value == Opaque("cfg-client"):
            return state.set("#log", state.get("#log", ()) + (("closed",),))
        return state

    def _apply(self, node, f, arg, state):
        """f(arg) for the callables that can be mapped over the node descriptions."""
        if isinstance(f, tuple) and f and f[0] == "methodcaller":
            r = fold_method(arg, f[1], list(f[2]), {}, node.lineno)
            if r is not None and r[0][0] == "ok":
                return r[0][1]
        return TOP

    def call(self, node, fval, args, kwargs, state):
        r = self.coll_call(node, fval, args, kwargs, state)
        if r is not None:
            return r
        name = call_name(node)
        if isinstance(fval, Opaque) and fval.tag.startswith("class:"):
            srv = args[0] if args else kwargs.get("server", TOP)
            try:
                ep = lower_value(srv)
            except NotConcrete:
                ep = str(srv)
            return [("ok", Opaque("cfg-client"), state.set("#log", state.get("#log", ()) + (("client", ep),)))]
        if isinstance(fval, tuple) and fval and fval[0] == "client-meth":
            if fval[1] == "raw_command":
                cmd = args[0] if args else kwargs.get("command", TOP)
                et = args[1] if len(args) > 1 else kwargs.get("end_tokens", Const(None))
                rec = ("command", (cmd.v if isinstance(cmd, Const) else str(cmd), et.v if isinstance(et, Const) else str(et)))
                if self.fails:
                    return [("exc", Exc(ORD, self.fails, node.lineno), state.set("#log", state.get("#log", ()) + (rec,)))]
                return [("ok", Const(self.reply), state.set("#log", state.get("#log", ()) + (rec,)))]
            if fval[1] in ("close", "quit", "disconnect_all"):
                return [("ok", NONE, state.set("#log", state.get("#log", ()) + (("closed",),)))]
            return [("ok", NONE, state)]
        if isinstance(fval, tuple) and fval and fval[0] == "cmeth":
            r = fold_method(fval[1], fval[2], args, kwargs, node.lineno)
            if r is not None:
                return [(k, v, state) for k, v in r]
            return [("ok", TOP, state)]
        if fval == Opaque("operator.methodcaller") and args and isinstance(args[0], Const):
            return [("ok", ("methodcaller", args[0].v, tuple(args[1:])), state)]
        if fval == Opaque("operator.itemgetter") and args:
            return [("ok", TOP, state)]
        if name == "map" and len(args) == 2:
            seq, st = self.consume(args[1], state)
            if seq is not None:
                if isinstance(args[0], LambdaV):
                    out = []
                    for x in seq:
                        rr = self.apply_lambda(node, args[0], [x], {}, st)
                        if not rr or len(rr) != 1 or rr[0][0] != "ok":
                            return [("ok", TOP, st)]
                        out.append(rr[0][1])
                        st = rr[0][2]
                    return [("ok", GenV((node.lineno, node.col_offset), tuple(out)), st)]
                return [("ok", GenV((node.lineno, node.col_offset), tuple(self._apply(node, args[0], x, st) for x in seq)), st)]
            return [("ok", TOP, state)]
        if name in ("int", "str") and len(args) == 1 and isinstance(args[0], Const):
            try:
                return [("ok", Const(int(args[0].v) if name == "int" else str(args[0].v)), state)]
            except Exception as e:
                return [("exc", Exc(ORD, type(e).__name__, node.lineno), state)]
        if isinstance(fval, Opaque) and (fval.tag.startswith("logger.") or fval.tag.startswith("logging.")):
            return [("ok", NONE, state)]
        if isinstance(fval, FuncRef) and self.fn is not None and fval.name in self.fn.module.functions:
            res = self.inline(node, self.fn.module.functions[fval.name], args, kwargs, state)
            if res is not None:
                return res
        if name.startswith("self._") and name.count(".") == 1 and self.prog is not None and self.fn is not None and self.fn.cls is not None:
            m = self.prog.method(self.fn.cls, name[5:], required=False)
            if m is not None and m is not self.fn:
                res = self.inline(node, m, args, kwargs, state)
                if res is not None:
                    return res
        return [("ok", TOP, state)]


def discovery_rows(prog, gnl):
    """-> [(use_vpc, description of the reply, node list returned | text, expected node list, [info per path])]"""
    replies = [
        ("two nodes", b"CONFIG cluster 0 147\r\n12\nnode1.cache.amazonaws.com|10.0.0.1|11211 node2.cache.amazonaws.com|10.0.0.2|11212", [("node1.cache.amazonaws.com", "10.0.0.1", "11211"), ("node2.cache.amazonaws.com", "10.0.0.2", "11212")]),
        ("one node", b"CONFIG cluster 0 64\r\n3\nn.cache.amazonaws.com|172.16.0.9|11300", [("n.cache.amazonaws.com", "172.16.0.9", "11300")]),
    ]
    rows = []
    for use_vpc in (0, 1):
        for desc, reply, triples in replies:
            dom = DiscoveryDomain(prog, gnl, use_vpc, reply)
            outs = Interp(dom, gnl.node, prog).run(Env())
            want = tuple((t[use_vpc], t[2]) for t in triples)
            got, info = None, []
            rets = outs.of("ret")
            vals = set()
            for s_, v, t in rets:
                log = s_.get("#log", ())
                info.append({"command": next((x[1] for x in log if x[0] == "command"), None) if sum(1 for x in log if x[0] == "command") == 1 else tuple(x[1] for x in log if x[0] == "command"), "endpoint": next((x[1] for x in log if x[0] == "client"), None)})
                try:
                    vals.add(lower_value(deref(v, s_)))
                except NotConcrete:
                    vals.add("<not a constant list: %s>" % (deref(v, s_),))
            if outs.of("exc"):
                vals.add("<raises %s>" % sorted({str(e.cls) for s_, e, t in outs.of("exc")}))
            got = next(iter(vals)) if len(vals) == 1 else tuple(sorted(map(str, vals)))
            if isinstance(got, tuple) and all(isinstance(x, tuple) and len(x) == 2 for x in got):
                got = tuple((x[0], str(x[1])) for x in got)  # a port converted to int is the same address
            rows.append((use_vpc, desc, got, want, info))
    return rows


def run(chk):
    prog = chk.prog
    aws = prog.cls("AWSElastiCacheHashClient")
    gnl = prog.method(aws, "_get_nodes_list")
    rn = prog.method(aws, "reconfigure_nodes")

    # ------------------------------------------------------------------ R1 definite assignment
    r1 = chk.rule("C19.R1", "definite assignment with exception edges: no local is read on a path that has not bound it (an ERROR reply surfaces as the memcached error)")
    targets = [f for f in prog.all_functions() if f.module.rel == AWS]
    if chk.tier == "thorough":
        targets = list(prog.all_functions())
    n_f = 0
    for f in targets:
        dom = DefDomain(prog, f)
        try:
            Interp(dom, f.node, prog).run(dom.init_state(f.node))
        except AnalysisError as e:
            if f.module.rel == AWS:
                raise
            r1.note("%s skipped: %s" % (f.qualname, e))
            continue
        n_f += 1
        seen = set()
        for name, node, st in dom.undefined:
            if name in seen:
                continue
            seen.add(name)
            r1.fail("%s:possibly-undefined:%s" % (f.qualname, name), "`%s` can be read at line %s of %s on a path that never assigned it (e.g. after a handler that logs an exception and falls through): the caller sees UnboundLocalError instead of the memcached error" % (name, getattr(node, "lineno", "?"), f.qualname), fn=f, node=node)
        if not seen:
            r1.ok("%s: every local is bound on every path that reads it" % f.qualname, sample=(n_f < 3))
    r1.floor("functions analysed", n_f, 3)
    # what escapes when the discovery command fails: the discovery interpreted with raw_command raising
    gnl_ = prog.method(prog.cls("AWSElastiCacheHashClient"), "_get_nodes_list", required=False)
    if gnl_ is None:
        r1.undecided("AWSElastiCacheHashClient._get_nodes_list:missing", "the discovery method was not found")
    else:
        for exc_cls in ("MemcacheUnknownCommandError", "MemcacheUnexpectedCloseError", "ConnectionRefusedError"):
            for use_vpc in (0, 1):
                dom = DiscoveryDomain(prog, gnl_, use_vpc, b"", fails=exc_cls)
                outs = Interp(dom, gnl_.node, prog).run(Env())
                escaped = sorted({str(e.cls) for s_, e, t in outs.of("exc")})
                imprecise = any(s_.get("#imprecise", 0) for s_, e, t in outs.of("exc")) or any(s_.get("#imprecise", 0) for s_, v, t in outs.of("ret"))
                what = "the config command fails with %s (use_vpc=%d)" % (exc_cls, use_vpc)
                key = "AWSElastiCacheHashClient._get_nodes_list:failure-escapes:%s" % exc_cls
                if outs.of("ret"):
                    r1.fail(key, "%s: _get_nodes_list returns %s instead of passing the error on: the client is configured from a reply that never came" % (what, sorted({str(deref(v, s_)) for s_, v, t in outs.of("ret")})[:2]), fn=gnl_)
                elif escaped == [exc_cls]:
                    closed = all(any(x[0] == "closed" for x in s_.get("#log", ())) for s_, e, t in outs.of("exc"))
                    r1.expect(closed, "%s: the error escapes as it is, the discovery client is closed" % what, "AWSElastiCacheHashClient._get_nodes_list:failure-leaves-client-open", "%s: the error is passed on but the discovery client is not closed on that path" % what, fn=gnl_)
                elif imprecise:
                    r1.undecided(key, "%s: what escapes (%s) lies on a path the analysis does not follow exactly" % (what, escaped))
                else:
                    r1.fail(key, "%s: what escapes is %s - the handler itself fails (the client has closed its connection by then: there is no socket, nothing to read from it), so the caller sees an internal error instead of the memcached error" % (what, escaped), fn=gnl_)

    # ------------------------------------------------------------------ R2 coupled rotation state
    r2 = chk.rule("C19.R2", "reconfigure_nodes: on every path the old nodes leave self.clients, the hasher and the failover bookkeeping before any advertised node is added; every advertised node is added, unconditionally and normalised")
    dom = ReconfDomain(prog, rn)
    outs = Interp(dom, rn.node, prog).run(Env({"#ev": ()}))
    seen = set()
    for construct, msg, node in dom.problems:
        if construct in seen:
            continue
        seen.add(construct)
        r2.fail("AWSElastiCacheHashClient.reconfigure_nodes:%s" % construct, "reconfigure_nodes: %s" % msg, fn=rn, node=node)
    adds = 0
    for s, v, t in outs.of("ret"):
        ev = s.get("#ev", ())
        adds += ev.count("add")
        r2.expect("add" in ev, "normal completion adds the advertised nodes", "AWSElastiCacheHashClient.reconfigure_nodes:no-add", "a normal path of reconfigure_nodes adds no advertised node", fn=rn, witness=fmt_trace(t))
        r2.expect(s.get("#snapshot_before_clear", False), "the old clients are snapshotted before self.clients is cleared", "AWSElastiCacheHashClient.reconfigure_nodes:no-snapshot", "the old clients are not copied before self.clients is cleared: they can no longer be closed or removed from the hasher", fn=rn, witness=fmt_trace(t))
    if not seen:
        r2.ok("clients, hasher nodes, failing and dead sets are reset together before the first add_server")
    r2.floor("add_server events on normal paths", adds, 1)

    # ------------------------------------------------------------------ R3 closing
    r3 = chk.rule("C19.R3", "connections to replaced nodes are closed; the discovery client is closed on every exit")
    for s, v, t in outs.of("ret"):
        r3.expect(s.get("#closed_old", False), "every client of the previous configuration is closed on the normal path", "AWSElastiCacheHashClient.reconfigure_nodes:old-clients-not-closed", "reconfigure_nodes can complete without closing the clients of the previous configuration: their sockets leak", fn=rn, witness=fmt_trace(t))
    cd = CloseDomain(prog, gnl)
    o2 = Interp(cd, gnl.node, prog).run(Env({}))
    n_ex = 0
    for kind in ("ret", "exc"):
        for s, v, t in o2.of(kind):
            if not s.get("#created", False):
                continue
            n_ex += 1
            if kind == "exc" and v.colour != ORD:
                continue
            r3.expect(s.get("#closed", False), "_get_nodes_list: %s exit closes the discovery client" % kind, "AWSElastiCacheHashClient._get_nodes_list:discovery-client-not-closed:%s" % kind, "_get_nodes_list can %s without closing the discovery client" % ("return" if kind == "ret" else "raise"), fn=gnl, witness=fmt_trace(t))
    r3.floor("exits of _get_nodes_list after the client was created", n_ex, 2)

    # a client dropped from .clients anywhere in the package must be closed there: nothing else refers to it afterwards,
    # so neither reconfigure_nodes nor close() can close its connection later
    n_rm = 0
    for f in prog.all_functions():
        for n in walk_no_nested(f.node):
            removed = None
            if isinstance(n, ast.Call) and isinstance(n.func, ast.Attribute) and n.func.attr in ("pop", "popitem", "clear") and isinstance(n.func.value, ast.Attribute) and n.func.value.attr == "clients":
                removed = n
            if isinstance(n, ast.Delete) and any(isinstance(t, ast.Subscript) and isinstance(t.value, ast.Attribute) and t.value.attr == "clients" for t in n.targets):
                removed = n
            if removed is None:
                continue
            n_rm += 1
            if f.qualname == rn.qualname and isinstance(n, ast.Call) and n.func.attr == "clear":
                continue  # the snapshot/close of reconfigure_nodes is checked above
            if isinstance(n, ast.Call) and n.func.attr == "clear" and f.cls is not None and f.name.startswith("_") and not f.name.startswith("__") and prog.method(rn.cls, f.name, required=False) is f:
                # the reset extracted into a private helper: if reconfigure_nodes is its only caller, it was interpreted
                # in line above (snapshot before, close after) and is not a removal site of its own
                sites = [(g, c) for g in prog.all_functions() for c in walk_no_nested(g.node) if isinstance(c, ast.Call) and isinstance(c.func, ast.Attribute) and c.func.attr == f.name]
                if sites and all(g.qualname == rn.qualname and is_self_attr(c.func) for g, c in sites):
                    continue
            closes = False
            par = getattr(n, "_parent", None)
            if isinstance(par, ast.Assign) and isinstance(par.targets[0], ast.Name):
                var = par.targets[0].id
                closes = any(isinstance(c, ast.Call) and isinstance(c.func, ast.Attribute) and c.func.attr == "close" and isinstance(c.func.value, ast.Name) and c.func.value.id == var for c in walk_no_nested(f.node))
            if isinstance(par, ast.Attribute) and par.attr == "close":
                closes = True
            r3.expect(closes, "%s closes the client it drops from .clients" % f.qualname, "%s:drops-client-without-close" % f.qualname, "%s removes a client from .clients (`%s`) without closing it: nothing refers to that client afterwards, so its connection is never closed (neither by reconfigure_nodes nor by close())" % (f.qualname, node_src(n, 60)), fn=f, node=n)
    r3.floor("removal sites of .clients", n_rm, 1)

    # ------------------------------------------------------------------ R4 address selection
    r4 = chk.rule("C19.R4", "host is element int(use_vpc) (1 = IP address, 0 = host name) and port is element 2 of each `|`-separated triple of the space-separated config line")
    init = prog.method(aws, "__init__")
    asg = [n for n in walk_no_nested(init.node) if isinstance(n, ast.Assign) and any(is_self_attr(t, "_use_vpc") for t in n.targets)]
    ok = len(asg) == 1 and isinstance(asg[0].value, ast.Call) and call_name(asg[0].value) in ("int", "bool") and len(asg[0].value.args) == 1 and isinstance(asg[0].value.args[0], ast.Name) and asg[0].value.args[0].id == "use_vpc"
    r4.expect(ok, "self._use_vpc = int(use_vpc)", "AWSElastiCacheHashClient.__init__:use_vpc", "self._use_vpc is `%s`, not int(use_vpc)" % (node_src(asg[0].value) if asg else None), fn=init)
    # the configuration of the client is what the constructor was given: no later call rewrites it (an address mode that
    # one odd reply switches stays switched for every later re-discovery)
    CONFIG = ("_use_vpc", "_cfg_node", "default_kwargs")
    for m in aws.methods.values():
        if m.name == "__init__":
            continue
        for n in ast.walk(m.node):
            w = None
            if isinstance(n, ast.Attribute) and isinstance(n.ctx, (ast.Store, ast.Del)) and is_self_attr(n) and n.attr in CONFIG:
                w = n.attr
            elif isinstance(n, ast.Subscript) and isinstance(n.ctx, (ast.Store, ast.Del)) and is_self_attr(n.value) and n.value.attr in CONFIG:
                w = n.value.attr
            elif isinstance(n, ast.Call) and isinstance(n.func, ast.Attribute) and is_self_attr(n.func.value) and n.func.value.attr in CONFIG and n.func.attr in ("update", "pop", "clear", "setdefault", "popitem"):
                w = n.func.value.attr
            if w is not None:
                r4.fail("AWSElastiCacheHashClient.%s:rewrites-configuration:%s" % (m.name, w), "%s changes self.%s: the configuration given to the constructor (address mode, endpoint, client options) no longer holds for the re-discoveries that follow" % (m.qualname, w), fn=m, node=n)
    rows = discovery_rows(prog, gnl)
    for use_vpc, desc, got, want, info in rows:
        r4.expect(got == want, "use_vpc=%d, %s -> %s" % (use_vpc, desc, want), "AWSElastiCacheHashClient._get_nodes_list:address-selection", "with use_vpc=%d and the config reply %s the node list is %s; documented: host = element %d (%s) and port = element 2 of each `name|ip|port` triple, i.e. %s" % (use_vpc, desc, got, use_vpc, "the IP address" if use_vpc else "the host name", want), fn=gnl)
    r4.floor("discovery rows", len(rows), 4)

    # ------------------------------------------------------------------ R5 reply framing
    r5 = chk.rule("C19.R5", "the config command is `config get cluster` framed by the terminator b'\\n\\r\\nEND\\r\\n', sent to the configuration endpoint; the last line of the reply is the node list")
    cmds = {i["command"] for r_ in rows for i in r_[4]}
    ok = cmds == {(b"config get cluster", b"\n\r\nEND\r\n")}
    r5.expect(ok, "raw_command(b'config get cluster', end_tokens=b'\\n\\r\\nEND\\r\\n') exactly once per discovery", "AWSElastiCacheHashClient._get_nodes_list:config-command", "the discovery command / end token / number of commands differ from one `config get cluster` framed by b'\\n\\r\\nEND\\r\\n' (observed: %s): the reply is cut at the wrong place" % sorted(map(str, cmds)), fn=gnl)
    eps = {i["endpoint"] for r_ in rows for i in r_[4]}
    r5.expect(eps == {("cluster.abc123.cfg.use1.cache.amazonaws.com", "11211")}, "the discovery client connects to (host, port) of the configuration endpoint", "AWSElastiCacheHashClient._get_nodes_list:endpoint", "the discovery client is built for %s instead of the (host, port) of the configured endpoint" % sorted(map(str, eps)), fn=gnl)
    # (that the node list is the *last* line of the reply is part of the rows above: the scripted replies carry the
    # `CONFIG cluster 0 <n>` header and the version line in front of it)
    # delivery independence of the reader behind raw_command: the C03 rules for the token-terminated reader
    from . import rules_C03, report

    sub = report.Check("C19", prog, tier=chk.tier, seed=chk.seed)
    rules_C03.run(sub)
    n_sub = 0
    for r in sub.rules:
        if r.id in ("C03.R1", "C03.R4", "C03.R6"):
            n_sub += r.obligations
            for fnd in r.findings:
                if "_readsegment" in fnd.key or "_misc_cmd" in fnd.key:
                    r5.fail("via-" + fnd.key, "the reader that delivers the config reply is split-dependent: " + fnd.msg, file=fnd.file, line=fnd.line)
    for key, msg in sub.undecided:
        if key.split(":")[0] == "C03.R6" and "_readsegment" in key:
            chk.undecided.append(("via-" + key, msg))
    r5.ok("the token-terminated reader behind raw_command satisfies C03.R1/R4 and the segmentation rows of C03.R6 (%d obligations re-checked here)" % n_sub)
    # ------------------------------------------------------------------ R7 raw_command honours the end token it is given
    from . import rules_C01

    rules_C01.framing_rows(chk, rule_id="C19.R7")
    # ------------------------------------------------------------------ R6 histories of re-discoveries
    r6 = chk.rule("C19.R6", "histories: the AWS client interpreted on a concrete cluster under every sequence of operations, re-discoveries with another advertised node list, failures of a node and elapsed time (depth 7): after every re-discovery rotation and client table are exactly the advertised nodes, dropped client objects are closed once and live ones never; every operation contacts advertised nodes only and nothing but the node's own error escapes")
    from . import failhist

    failhist.reconfigure_histories(prog, r6, chk.tier)
    chk.assume("delivery independence of raw_command's reader is decided by the C03.R1/R4 rules and the segmentation rows C03.R6, re-run here for the segment reader")
    chk.assume("once hasher nodes == clients keys == advertised nodes, routing is C11/C12")
