"""C01 - a call only ever consumes the server's reply to its own request (structural clauses)."""
import ast

from .model import AnalysisError, node_src, is_self_attr, call_name
from .paths import Interp, Env, ORD, ASYNC, fmt_trace, Ctx
from . import exchange
from .report import walk_no_nested

LEVEL = "other"
LEVEL_TEXT = (
    "Static path and structure rules that are necessary conditions of reply ownership: close-before-escape on every "
    "ordinary-exception exit after sendall (R1), noreply <=> no read, coupled with the wire token at every call site "
    "(R2), one reply read per command sent, in order (R3), no receive state survives a call (R4), only Client talks to "
    "sockets (R5). Parsing correctness under every segmentation is C03; misbehaving servers are not decided."
)
TRUSTED = ["CPython ast", "pmcsa/paths.py interpreter", "pmcsa/wire.py fragment evaluator (R2b)", "summary: Client.close does not raise (decided by C06.R6)"]

TERMINATORS = (b"END", b"OK")


def run(chk):
    prog = chk.prog
    direct, readers = exchange.recv_reaching_functions(prog)
    rmeth = exchange.methods_reaching_readers(prog, readers)
    exch = exchange.exchange_functions(prog)

    # ------------------------------------------------------------------ R1
    r1 = chk.rule("C01.R1", "after sendall every exit reached through an ordinary exception (re-raise or ignore_exc return) passes Client.close")
    r1.floor("exchange functions", len(exch), 3)
    r1.floor("recv-reaching reader functions", len(readers), 4)
    runs_by_fn = {}
    for fn in exch:
        runs = exchange.analyse_exchange(prog, fn, readers, rmeth, with_async=False)
        runs_by_fn[fn.qualname] = runs
        obs = exchange.close_obligations(prog, fn, runs, ORD)
        if not obs:
            raise AnalysisError("C01.R1: no ORD exit after sendall found in %s" % fn.qualname)
        seen = set()
        for ok, kind, exc, cfg, t, s in obs:
            if ok:
                continue
            if kind == "raise":
                stmt = stmt_at(fn.node, exc.origin)
                key = "%s:ORD-exit-without-close:%s" % (fn.qualname, stmt)
                if key in seen:
                    continue
                seen.add(key)
                r1.fail("%s:ORD-exit-without-close:%s" % (fn.qualname, stmt), "an ordinary exception raised by `%s` after sendall escapes %s without Client.close: the reply stays queued on a socket that remains in use (handler path: %s)" % (stmt, fn.qualname, exchange.handler_desc(t)), fn=fn, line=exc.origin, witness=fmt_trace(t))
            else:
                key = "%s:swallow-without-close" % fn.qualname
                if key in seen:
                    continue
                seen.add(key)
                r1.fail(key, "%s swallows an exception raised after sendall and returns normally without Client.close (config %s)" % (fn.qualname, cfg), fn=fn, witness=fmt_trace(t))
        n_ok = len([o for o in obs if o[0]])
        if not seen:
            r1.ok("%s: %d ORD exits after sendall, all pass Client.close" % (fn.qualname, n_ok))
        r1.count("ORD exits examined", len(obs))

    # ------------------------------------------------------------------ R2a / R3(reads)
    r2 = chk.rule("C01.R2a", "noreply truthy => no reader call is reachable; noreply falsy => no normal return after sendall without reading")
    helpers = exchange.send_helpers(prog)
    rr_fns = [f for f in exch if f.name not in helpers]
    r2.floor("request/response functions", len(rr_fns), 3)
    for fn in rr_fns:
        for cfg, outs, dom, interp in runs_by_fn[fn.qualname]:
            nr = cfg["noreply"]
            if nr is True:
                bad = [e for e in dom.events if e[0] == "read"]
                if bad:
                    r2.fail("%s:read-with-noreply" % fn.qualname, "%s reaches the reader call `%s` although noreply is truthy: it would block on a reply that never comes" % (fn.qualname, node_src(bad[0][1])), fn=fn, node=bad[0][1])
                else:
                    r2.ok("%s(noreply=True, ignore_exc=%s): no reader call reachable" % (fn.qualname, cfg["ignore_exc"]))
            else:
                # a for-loop over the commands that runs zero times has sent an empty batch: nothing to read (R3 couples
                # the number of reads to the number of commands); only paths that iterate count here
                rloops = [l for l, c in _loops_with_reader(fn, readers, rmeth) if isinstance(l, ast.For)]
                skip = lambda t: any(("for@%d:exhausted" % l.lineno) in t and ("for@%d:iter" % l.lineno) not in t for l in rloops)
                bad = [(s, t) for s, v, t in outs.of("ret") if s.get("sent") and not s.get("reads") and s.get("caught") is None and not skip(t)]
                if not [e for e in dom.events if e[0] == "read"]:
                    bad = bad or [(None, ("no reader call is reachable at all",))]
                if bad:
                    r2.fail("%s:return-without-read" % fn.qualname, "%s can return normally after sendall without having read any reply although it did not ask for noreply" % fn.qualname, fn=fn, witness=fmt_trace(bad[0][1]))
                else:
                    r2.ok("%s(noreply=%s, ignore_exc=%s): every normal return after sendall has read" % (fn.qualname, nr, cfg["ignore_exc"]))
        if not any(True for cfg, outs, dom, interp in runs_by_fn[fn.qualname] if dom.n_sendall):
            raise AnalysisError("C01.R2a: sendall never reached in %s" % fn.qualname)

    # ------------------------------------------------------------------ R2b noreply coupling at call sites
    from . import wire

    r2b = chk.rule("C01.R2b", "at every call site of the store/misc exchange functions the noreply argument is the value that guards the ` noreply` token on the wire")
    n_sites = wire.check_noreply_coupling(prog, r2b)
    r2b.floor("call sites of _store_cmd/_misc_cmd-like exchange functions", n_sites, 17)

    # ------------------------------------------------------------------ R3 one reply per command
    r3 = chk.rule("C01.R3", "one reply is read per command sent, in order (paired appends / same collection / terminator-controlled return)")
    for fn in rr_fns:
        check_reply_count(prog, fn, readers, rmeth, r3)

    # ------------------------------------------------------------------ R4 no bytes survive a call
    r4 = chk.rule("C01.R4", "exchange functions and readers keep receive state in locals only (no attribute or module-level writes)")
    mod = prog.module(exchange.READERS_BASE)
    scope = list(exch) + [mod.functions[n] for n in sorted(readers)] + [prog.method("Client", m) for m in sorted(rmeth)]
    modnames = set(mod.assigns)
    for f in scope:
        bad = []
        for n in walk_no_nested(f.node):
            tgts = []
            if isinstance(n, ast.Assign):
                tgts = n.targets
            elif isinstance(n, (ast.AugAssign, ast.AnnAssign)):
                tgts = [n.target]
            elif isinstance(n, (ast.Global, ast.Nonlocal)):
                bad.append((n, "global/nonlocal declaration"))
            for t in tgts:
                for x in ast.walk(t):
                    if isinstance(x, ast.Attribute) and isinstance(x.ctx, ast.Store):
                        bad.append((n, "attribute write `%s`" % node_src(x)))
                    if isinstance(x, ast.Subscript) and isinstance(x.ctx, ast.Store) and isinstance(x.value, ast.Name) and x.value.id in modnames and not _is_local(f, x.value.id):
                        bad.append((n, "write into module-level `%s`" % x.value.id))
            if isinstance(n, ast.Call) and isinstance(n.func, ast.Attribute) and n.func.attr in ("append", "extend", "update", "add", "insert", "setdefault") and isinstance(n.func.value, ast.Name) and n.func.value.id in modnames and not _is_local(f, n.func.value.id):
                bad.append((n, "mutation of module-level `%s`" % n.func.value.id))
        for n, what in bad:
            r4.fail("%s:%s" % (f.qualname, what.split("`")[0].strip().replace(" ", "-") + (":" + what.split("`")[1] if "`" in what else "")), "%s performs %s: bytes or parser state could survive the call" % (f.qualname, what), fn=f, node=n)
        if not bad:
            r4.ok("%s writes only locals" % f.qualname, sample=False)
    r4.count("functions inspected", len(scope))

    # ------------------------------------------------------------------ R5 only Client talks to sockets
    r5 = chk.rule("C01.R5", "sendall/recv call sites exist only in Client's exchange functions and the reader functions; wrappers never touch .sock")
    n_send = n_recv = 0
    for f in prog.all_functions():
        for n in walk_no_nested(f.node):
            if isinstance(n, ast.Call) and isinstance(n.func, ast.Attribute) and n.func.attr in ("sendall", "send", "sendto", "sendmsg"):
                n_send += 1
                ok = f.cls is not None and f.cls.name == "Client" and f.name.startswith("_")  # the exchange functions or their send helper
                r5.expect(ok, "send site in %s" % f.qualname, "%s:send-outside-Client" % f.qualname, "%s calls .%s on a socket outside Client's exchange functions" % (f.qualname, n.func.attr), fn=f, node=n)
            if isinstance(n, ast.Call) and isinstance(n.func, ast.Attribute) and n.func.attr in ("recv", "recv_into", "recvfrom", "makefile"):
                n_recv += 1
                ok = f.cls is None and f.module.rel == exchange.READERS_BASE and f.name in direct
                r5.expect(ok and len(direct) == 1, "recv site in %s" % f.qualname, "%s:recv-outside-_recv" % f.qualname, "%s calls .%s; the single receive site must be the EINTR-retrying helper" % (f.qualname, n.func.attr), fn=f, node=n)
            if isinstance(n, ast.Attribute) and n.attr == "sock" and not (f.cls is not None and f.cls.name == "Client"):
                r5.fail("%s:touches-.sock" % f.qualname, "%s accesses .sock of a client" % f.qualname, fn=f, node=n)
    n_helper_calls = sum(1 for f in prog.cls("Client").methods.values() for n in walk_no_nested(f.node) if isinstance(n, ast.Call) and isinstance(n.func, ast.Attribute) and is_self_attr(n.func) and n.func.attr in helpers)
    r5.floor("send sites (sendall + send-helper calls)", n_send + n_helper_calls, 3)
    r5.floor("sendall sites", n_send, 1)
    r5.floor("recv sites", n_recv, 1)
    chk.assume("Client.close does not raise ordinary exceptions (C06.R6)")
    chk.assume("the server answers each command with the number of reply lines the protocol defines")


def _is_local(f, name):
    for n in walk_no_nested(f.node):
        if isinstance(n, ast.Name) and n.id == name and isinstance(n.ctx, ast.Store):
            return True
    return any(p.name == name for p in f.params)


def stmt_at(fn_node, lineno):
    from .rules_C06 import stmt_at as s

    return s(fn_node, lineno)


def _loops_with_reader(fn, readers, rmeth):
    al = exchange.local_reader_aliases(fn, readers) | set(readers)
    out = []
    for n in walk_no_nested(fn.node):
        if isinstance(n, (ast.For, ast.While)):
            calls = []
            for x in ast.walk(n):
                if isinstance(x, ast.Call) and ((isinstance(x.func, ast.Name) and x.func.id in al) or (isinstance(x.func, ast.Attribute) and is_self_attr(x.func) and x.func.attr in rmeth)):
                    calls.append(x)
            if calls:
                out.append((n, calls))
    # keep outermost loops only
    res = []
    for n, c in out:
        if not any(m is not n and any(y is n for y in ast.walk(m)) for m, _ in out):
            res.append((n, c))
    return res


class CountDomain(exchange.ExchangeDomain):
    """Counts reader calls / list appends inside one loop iteration (reader calls inside inlined helpers included)."""

    def __init__(self, prog, fn, readers, rmeth=None, lists=()):
        super().__init__(prog, fn, readers, None, with_async=False)
        self.lists = set(lists)

    def on_read(self, node, args, state):
        return state.set("nread", min(3, state.get("nread", 0) + 1))

    def call(self, node, fval, args, kwargs, state):
        if isinstance(node.func, ast.Attribute) and node.func.attr in ("append", "extend", "insert") and isinstance(node.func.value, ast.Name) and node.func.value.id in self.lists:
            k = "app:" + node.func.value.id
            inc = 1 if node.func.attr == "append" else 2
            state = state.set(k, min(3, state.get(k, 0) + inc))
        return super().call(node, fval, args, kwargs, state)


def _iter_outcomes(prog, fn, loop, dom, init):
    interp = Interp(dom, fn.node, prog)
    outs = interp.block(loop.body, [(init, ())], Ctx(fn.node))
    return outs


def check_reply_count(prog, fn, readers, rmeth, r3):
    loops = _loops_with_reader(fn, readers, rmeth)
    if len(loops) != 1:
        r3.fail("%s:read-loop-shape" % fn.qualname, "%s has %d loops containing reader calls (expected exactly one read loop)" % (fn.qualname, len(loops)), fn=fn)
        return
    loop, calls = loops[0]
    helpers = exchange.send_helpers(prog)
    sends = [n for n in walk_no_nested(fn.node) if isinstance(n, ast.Call) and isinstance(n.func, ast.Attribute) and (n.func.attr == "sendall" or (is_self_attr(n.func) and n.func.attr in helpers))]
    if len(sends) != 1:
        r3.fail("%s:sendall-count" % fn.qualname, "%s has %d sendall sites; one command batch per exchange is required" % (fn.qualname, len(sends)), fn=fn)
        return
    send = sends[0]
    for anc in _ancestors(send):
        if isinstance(anc, (ast.For, ast.While)):
            r3.fail("%s:sendall-in-loop" % fn.qualname, "sendall is inside a loop in %s: commands are sent piecemeal while replies are read per batch" % fn.qualname, fn=fn, node=send)
            return
    if isinstance(loop, ast.For):
        # (a) exactly one line-reader call per completed iteration
        dom = CountDomain(prog, fn, readers, rmeth)
        init = dom.init_state(fn.node).set("nread", 0).set("sent", 1)
        outs = _iter_outcomes(prog, fn, loop, dom, init)
        done = outs.of("norm") + outs.of("cont")
        if not done:
            r3.fail("%s:read-loop-never-completes" % fn.qualname, "no iteration of the read loop of %s completes normally" % fn.qualname, fn=fn, node=loop)
            return
        bad = [s for s, v, t in done if s.get("nread") != 1] + [s for s, v, t in outs.of("brk")]
        r3.expect(not bad, "%s: every completed iteration of the read loop performs exactly one reader call" % fn.qualname, "%s:reads-per-iteration" % fn.qualname, "an iteration of the read loop of %s can complete with %s reader calls (or leave the loop early): replies and commands get out of step" % (fn.qualname, sorted({s.get("nread") for s in bad} if bad else "")), fn=fn, node=loop)
        # (b) the iterated collection has one element per command sent
        it = loop.iter
        sent_arg = send.args[0] if send.args else None
        joined = None
        if isinstance(sent_arg, ast.Call) and isinstance(sent_arg.func, ast.Attribute) and sent_arg.func.attr == "join" and sent_arg.args and isinstance(sent_arg.args[0], ast.Name):
            joined = sent_arg.args[0].id
        if not isinstance(it, ast.Name) or joined is None:
            r3.fail("%s:read-loop-iterable" % fn.qualname, "cannot relate the read loop iterable `%s` to what is sent `%s`" % (node_src(it), node_src(sent_arg) if sent_arg is not None else "?"), fn=fn, node=loop)
            return
        if it.id == joined:
            # same collection iterated twice: every caller must pass a real list (checked at the call sites)
            p = fn.param(it.id)
            if p is not None:
                sites = _call_sites(prog, fn)
                for caller, call in sites:
                    arg = _arg_for(call, fn, it.id)
                    ok = isinstance(arg, ast.List) or (isinstance(arg, ast.Name) and _is_local_list(caller, arg.id))
                    r3.expect(ok, "%s passes a list as `%s` to %s" % (caller.qualname, it.id, fn.name), "%s:passes-non-list-to-%s" % (caller.qualname, fn.name), "%s passes `%s` as `%s` to %s, which joins it for sending and then iterates it again to read one reply per command: a one-shot iterable is exhausted by the join and no reply is read" % (caller.qualname, node_src(arg) if arg is not None else "?", it.id, fn.name), fn=caller, node=call)
                r3.floor("call sites of %s" % fn.name, len(sites), 1)
            else:
                r3.ok("%s: read loop iterates the local collection that is sent" % fn.qualname)
        else:
            # paired appends in the builder loop
            builders = [n for n in walk_no_nested(fn.node) if isinstance(n, ast.For) and n is not loop and any(isinstance(x, ast.Call) and isinstance(x.func, ast.Attribute) and x.func.attr in ("append", "extend") and isinstance(x.func.value, ast.Name) and x.func.value.id in (it.id, joined) for x in ast.walk(n))]
            ok_init = _is_local_list(fn, it.id) and _is_local_list(fn, joined)
            if len(builders) != 1 or not ok_init:
                r3.fail("%s:builder-shape" % fn.qualname, "cannot establish that `%s` (iterated for replies) and `%s` (sent) have one element per command" % (it.id, joined), fn=fn, node=loop)
                return
            b = builders[0]
            dom = CountDomain(prog, fn, readers, rmeth, lists=(it.id, joined))
            init = dom.init_state(fn.node)
            outs = _iter_outcomes(prog, fn, b, dom, init)
            done = outs.of("norm") + outs.of("cont") + outs.of("brk")
            bad = [s for s, v, t in done if not (s.get("app:" + it.id, 0) == 1 and s.get("app:" + joined, 0) == 1)]
            r3.expect(done and not bad, "%s: each builder iteration appends exactly one element to `%s` and to `%s`" % (fn.qualname, it.id, joined), "%s:unpaired-appends" % fn.qualname, "an iteration of the command-building loop of %s can complete with %s appends to `%s` and %s to `%s`: the number of replies read differs from the number of commands sent" % (fn.qualname, sorted({s.get('app:' + it.id, 0) for s in bad}), it.id, sorted({s.get('app:' + joined, 0) for s in bad}), joined), fn=fn, node=b)
            # nothing else mutates the two lists
            for n in walk_no_nested(fn.node):
                if isinstance(n, ast.Call) and isinstance(n.func, ast.Attribute) and isinstance(n.func.value, ast.Name) and n.func.value.id in (it.id, joined) and n.func.attr in ("pop", "remove", "clear", "insert", "extend", "sort", "reverse", "append"):
                    inside = any(y is n for y in ast.walk(b))
                    if not inside or n.func.attr != "append":
                        r3.fail("%s:list-mutated:%s.%s" % (fn.qualname, n.func.value.id, n.func.attr), "`%s.%s(...)` changes the pairing between commands sent and replies read" % (n.func.value.id, n.func.attr), fn=fn, node=n)
    else:
        # while loop (fetch): the only normal return inside the loop is guarded by a terminator comparison
        rets = [n for n in ast.walk(loop) if isinstance(n, ast.Return)]
        if not rets:
            r3.fail("%s:no-return-in-read-loop" % fn.qualname, "read loop without return", fn=fn, node=loop)
        line_vars = set()
        for c in calls:
            p = getattr(c, "_parent", None)
            if isinstance(p, ast.Assign) and isinstance(p.targets[0], ast.Tuple) and len(p.targets[0].elts) == 2 and isinstance(p.targets[0].elts[1], ast.Name):
                line_vars.add(p.targets[0].elts[1].id)
        for ret in rets:
            guard = None
            for anc in _ancestors(ret):
                if anc is loop:
                    break
                if isinstance(anc, ast.If) and any(y is ret for b_ in anc.body for y in ast.walk(b_)):
                    guard = anc
                    break
                if isinstance(anc, ast.ExceptHandler):
                    guard = "handler"
                    break
            if guard == "handler":
                continue
            ok = guard is not None and _is_terminator_test(guard.test, line_vars)
            r3.expect(ok, "%s: return inside the read loop is guarded by a terminator comparison" % fn.qualname, "%s:return-not-terminator-guarded" % fn.qualname, "a return inside the read loop of %s is not control-dependent on the reply line being a protocol terminator (%s): the call could stop reading before the end of its reply" % (fn.qualname, "/".join(t.decode() for t in TERMINATORS)), fn=fn, node=ret)
        if isinstance(loop.test, ast.Constant) and loop.test.value:
            r3.ok("%s: read loop has no exit other than return/raise" % fn.qualname)
        else:
            r3.fail("%s:read-loop-condition" % fn.qualname, "read loop condition `%s` lets the loop end without having seen the terminator" % node_src(loop.test), fn=fn, node=loop)
        for n in ast.walk(loop):
            if isinstance(n, ast.Break):
                r3.fail("%s:break-in-read-loop" % fn.qualname, "break leaves the read loop before the terminator line", fn=fn, node=n)


def _is_terminator_test(test, line_vars):
    if isinstance(test, ast.BoolOp) and isinstance(test.op, ast.Or):
        return all(_is_terminator_test(v, line_vars) for v in test.values)
    if isinstance(test, ast.Compare) and len(test.ops) == 1:
        l, r = test.left, test.comparators[0]
        if isinstance(test.ops[0], ast.Eq):
            for a, b in ((l, r), (r, l)):
                if isinstance(a, ast.Name) and a.id in line_vars and isinstance(b, ast.Constant) and b.value in TERMINATORS:
                    return True
        if isinstance(test.ops[0], ast.In) and isinstance(l, ast.Name) and l.id in line_vars and isinstance(r, (ast.Tuple, ast.List, ast.Set)):
            return all(isinstance(e, ast.Constant) and e.value in TERMINATORS for e in r.elts) and len(r.elts) > 0
    return False


def _ancestors(n):
    n = getattr(n, "_parent", None)
    while n is not None:
        yield n
        n = getattr(n, "_parent", None)


def _call_sites(prog, fn):
    out = []
    for f in prog.all_functions():
        for n in walk_no_nested(f.node):
            if isinstance(n, ast.Call) and isinstance(n.func, ast.Attribute) and n.func.attr == fn.name and isinstance(n.func.value, ast.Name) and n.func.value.id == "self" and f.cls is not None and fn.cls is not None and f.cls.name == fn.cls.name:
                out.append((f, n))
    return out


def _arg_for(call, fn, pname):
    pos = [p.name for p in fn.pos_params()]
    for k in call.keywords:
        if k.arg == pname:
            return k.value
    if pname in pos and pos.index(pname) < len(call.args):
        return call.args[pos.index(pname)]
    return None


def _is_local_list(f, name):
    """name is bound in f only to list displays / list comprehensions, and never re-bound to anything else."""
    defs = []
    for n in walk_no_nested(f.node):
        if isinstance(n, ast.Assign):
            for t in n.targets:
                if isinstance(t, ast.Name) and t.id == name:
                    defs.append(n.value)
        elif isinstance(n, (ast.AugAssign, ast.AnnAssign)) and isinstance(n.target, ast.Name) and n.target.id == name:
            defs.append(getattr(n, "value", None))
        elif isinstance(n, (ast.For,)):
            for x in ast.walk(n.target):
                if isinstance(x, ast.Name) and x.id == name:
                    defs.append(None)
    if any(p.name == name for p in f.params):
        return False
    return bool(defs) and all(isinstance(d, (ast.List, ast.ListComp)) or (isinstance(d, ast.Call) and call_name(d) == "list") for d in defs)
