"""32-bit term domain: value-graph normalisation for straight-line integer code (kind A, used by C14).

A Python integer expression is mapped to (term, width):
  term  - a normalised expression tree denoting the value modulo 2**32
  width - an upper bound on the bit length of the *actual* unbounded Python value (None = unbounded)

+ * << | ^ & commute with reduction modulo 2**32 on non-negative integers, so their terms are exact; `>>` does not,
unless the operand's actual value is below 2**32 - that is the width obligation recorded at every `>>`.

Normalisation: masks with 0xFFFFFFFF vanish; AC operators are flattened, constant-folded and sorted; | ^ + of
operands whose possible-one-bit masks are pairwise disjoint are unified into one `join` operator; the pair
join(shl(x,n), shr(x,32-n)) becomes rotl(x,n).  Nothing is ever executed on concrete inputs."""
import ast

from .model import AnalysisError, node_src

M = 0xFFFFFFFF


class Unsupported(AnalysisError):
    pass


def const(c):
    return ("c", c & M)


def is_const(t):
    return t[0] == "c"


def mask(t):
    """Over-approximation of the bits that can be 1 in the value of t (mod 2**32)."""
    k = t[0]
    if k == "c":
        return t[1]
    if k == "byte":
        return 0xFF
    if k == "shl":
        return (mask(t[1]) << t[2]) & M
    if k == "shr":
        return mask(t[1]) >> t[2]
    if k == "and":
        return mask(t[1]) & t[2]
    if k in ("join", "or", "xor"):
        m = 0
        for x in t[1]:
            m |= mask(x)
        return m
    return M


def mk_and(a, c):
    c &= M
    if is_const(a):
        return const(a[1] & c)
    if mask(a) & ~c & M == 0:
        return a
    if a[0] == "and":
        return mk_and(a[1], a[2] & c)
    return ("and", a, c)


def mk_shl(a, n):
    if n == 0:
        return a
    if n >= 32:
        return const(0)
    if is_const(a):
        return const(a[1] << n)
    if a[0] == "shl":
        return mk_shl(a[1], a[2] + n)  # (x << a) << n
    if a[0] == "join" and len(a[1]) <= 4 and all(x[0] in ("byte", "shl", "c") for x in a[1]):
        # a shift distributes over a bit-disjoint union of bytes: ((b1 << 8) | b0) << 8 = (b1 << 16) | (b0 << 8)
        return mk_join([mk_shl(x, n) for x in a[1]])
    return ("shl", a, n)


def mk_shr(a, n):
    if n == 0:
        return a
    if n >= 32:
        return const(0)
    if is_const(a):
        return const(a[1] >> n)
    return ("shr", a, n)


def _key(t):
    return repr(t)


def mk_ac(op, items):
    """op in add / mul / xor / or"""
    flat = []
    for x in items:
        if x[0] == op or (op in ("xor", "or", "add") and x[0] == "join" and False):
            flat.extend(x[1])
        else:
            flat.append(x)
    consts = [x[1] for x in flat if is_const(x)]
    rest = [x for x in flat if not is_const(x)]
    if op == "add":
        c = sum(consts) & M
        ident = 0
    elif op == "mul":
        c = 1
        for v in consts:
            c = (c * v) & M
        ident = 1
        if c == 0:
            return const(0)
    elif op == "xor":
        c = 0
        for v in consts:
            c ^= v
        ident = 0
    else:
        c = 0
        for v in consts:
            c |= v
        ident = 0
    if op in ("add", "xor", "or"):
        # unify when all operands are bit-disjoint
        ops = rest + ([const(c)] if c != ident else [])
        expanded = []
        for x in ops:
            if x[0] == "join":
                expanded.extend(x[1])
            else:
                expanded.append(x)
        ms = [mask(x) for x in expanded]
        disjoint = all(ms[i] & ms[j] == 0 for i in range(len(ms)) for j in range(i + 1, len(ms)))
        if disjoint and len(expanded) >= 2:
            return mk_join(expanded)
    if c != ident or not rest:
        rest = rest + [const(c)]
    if len(rest) == 1:
        return rest[0]
    return (op, tuple(sorted(rest, key=_key)))


def mk_join(items):
    items = [x for x in items if not (is_const(x) and x[1] == 0)]
    # rotl recognition
    changed = True
    while changed:
        changed = False
        for a in items:
            if a[0] == "shl":
                for b in items:
                    if b[0] == "shr" and b[1] == a[1] and a[2] + b[2] == 32:
                        items = [x for x in items if x is not a and x is not b] + [("rotl", a[1], a[2])]
                        changed = True
                        break
            if changed:
                break
    if not items:
        return const(0)
    if len(items) == 1:
        return items[0]
    return ("join", tuple(sorted(items, key=_key)))


def mk_rotl(x, n):
    return mk_join([mk_shl(x, n), mk_shr(x, 32 - n)])


def show(t, depth=0):
    k = t[0]
    if k == "c":
        return "0x%X" % t[1]
    if k == "sym":
        return t[1]
    if k == "byte":
        return "b[%s%+d]" % (t[1], t[2]) if t[2] else "b[%s]" % t[1]
    if k in ("shl", "shr", "rotl"):
        return "%s(%s,%d)" % (k, show(t[1]), t[2])
    if k == "and":
        return "(%s & 0x%X)" % (show(t[1]), t[2])
    if k in ("add", "mul", "xor", "or", "join"):
        sym = {"add": " + ", "mul": " * ", "xor": " ^ ", "or": " | ", "join": " (+) "}[k]
        return "(" + sym.join(show(x) for x in t[1]) + ")"
    if k == "mod":
        return "(%s %% 0x%X)" % (show(t[1]), t[2])
    if k == "uf":
        return "%s(%s)" % (t[1], ", ".join(show(x) for x in t[2]))
    return repr(t)


class T:
    """Abstract integer: term mod 2**32 plus width bound of the actual value."""

    __slots__ = ("t", "w", "exact")

    def __init__(self, t, w, exact=None):
        self.t = t
        self.w = w
        self.exact = exact  # concrete Python int if the value is a known constant (not reduced)

    def __repr__(self):
        return "T(%s, w=%s)" % (show(self.t), self.w)


def tconst(c):
    return T(const(c), c.bit_length() if c >= 0 else None, exact=c)


class AStrSym:
    """The symbolic input string; `how` records whether it is still the caller's argument."""

    def __init__(self, how="arg", kind="str"):
        self.how = how
        self.kind = kind


class Idx:
    def __init__(self, base, off=0):
        self.base = base
        self.off = off


class Evaluator:
    """Interprets straight-line integer statements over the term domain."""

    def __init__(self, fn, env, len_low2=None, length="nonzero"):
        self.fn = fn
        self.env = dict(env)
        self.len_low2 = len_low2
        self.length = length  # scenario for tests on the input's length: 'nonzero' | 'zero'
        self.len_tests = 0  # branch conditions that were decided by the length scenario
        self.width_violations = []
        self.calls = set()
        self.assigned = set()

    def block(self, stmts):
        for s in stmts:
            r = self.stmt(s)
            if r is not None:
                return r
        return None

    def stmt(self, s):
        if isinstance(s, ast.Expr) and isinstance(s.value, ast.Constant):
            return None
        if isinstance(s, ast.Assign):
            v = self.ev(s.value)
            for t in s.targets:
                self.assign(t, v)
            return None
        if isinstance(s, ast.AugAssign):
            fake = ast.BinOp(left=_load(s.target), op=s.op, right=s.value)
            ast.copy_location(fake, s)
            ast.fix_missing_locations(fake)
            self.assign(s.target, self.ev(fake))
            return None
        if isinstance(s, ast.If):
            c = self.ev(s.test)
            if isinstance(c, T) and c.exact is not None:
                c = bool(c.exact)  # truthiness of a known integer (`if val:`)
            c = self._len_truth(c)
            if not isinstance(c, bool):
                raise Unsupported("branch condition `%s` at line %d is not decided by constant propagation" % (node_src(s.test), s.lineno))
            return self.block(s.body if c else s.orelse)
        if isinstance(s, ast.Return):
            return ("return", self.ev(s.value) if s.value is not None else None)
        if isinstance(s, ast.Pass):
            return None
        raise Unsupported("statement %s at line %d" % (type(s).__name__, s.lineno))

    def _len_truth(self, c):
        """Truthiness of the input string / of its length under the length scenario."""
        if (isinstance(c, T) and c.t == ("sym", "len") and c.exact is None) or isinstance(c, AStrSym):
            self.len_tests += 1
            return self.length != "zero"
        return c

    def assign(self, t, v):
        if isinstance(t, ast.Name):
            self.env[t.id] = v
            self.assigned.add(t.id)
        elif isinstance(t, ast.Tuple) and isinstance(v, tuple) and len(v) == len(t.elts):
            for a, b in zip(t.elts, v):
                self.assign(a, b)
        else:
            raise Unsupported("assignment target %s" % node_src(t))

    def ev(self, e):
        if isinstance(e, ast.Constant):
            if isinstance(e.value, bool):
                return e.value
            if isinstance(e.value, int):
                return tconst(e.value)
            if isinstance(e.value, str):
                return ("strlit", e.value)
            raise Unsupported("constant %r" % (e.value,))
        if isinstance(e, ast.Name):
            if e.id not in self.env:
                mod = self.fn.module
                if e.id in mod.assigns:
                    # a module-level constant
                    from .model import fold, NotConst

                    try:
                        v = mod.const(e.id)
                    except NotConst:
                        raise Unsupported("module-level name `%s` is not a constant (line %d)" % (e.id, e.lineno))
                    if isinstance(v, bool) or not isinstance(v, int):
                        raise Unsupported("module-level constant `%s` is not an integer" % e.id)
                    return tconst(v)
                raise Unsupported("name `%s` read before assignment at line %d" % (e.id, e.lineno))
            return self.env[e.id]
        if isinstance(e, ast.Tuple):
            return tuple(self.ev(x) for x in e.elts)
        if isinstance(e, ast.List):
            return [self.ev(x) for x in e.elts]
        if isinstance(e, ast.BinOp):
            return self.binop(e, self.ev(e.left), self.ev(e.right))
        if isinstance(e, ast.UnaryOp):
            v = self.ev(e.operand)
            if isinstance(e.op, ast.Not):
                v = self._len_truth(v)
            if isinstance(e.op, ast.Not) and isinstance(v, bool):
                return not v
            if isinstance(e.op, ast.Not) and isinstance(v, T) and v.exact is not None:
                return not v.exact
            if isinstance(e.op, ast.Invert) and isinstance(v, T) and v.exact is not None:
                return T(const(~v.exact), None, exact=~v.exact)
            if isinstance(e.op, ast.USub) and isinstance(v, T) and v.exact is not None:
                return T(const(-v.exact), None, exact=-v.exact)
            raise Unsupported("unary operation %s at line %d" % (node_src(e), e.lineno))
        if isinstance(e, ast.Compare):
            l = self.ev(e.left)
            for op, c in zip(e.ops, e.comparators):
                r = self.ev(c)
                res = self.cmp(op, l, r, e)
                if not res:
                    return False
                l = r
            return True
        if isinstance(e, ast.BoolOp):
            vals = [self.ev(v) for v in e.values]
            if not all(isinstance(v, bool) for v in vals):
                raise Unsupported("boolean operation over non-constants at line %d" % e.lineno)
            return all(vals) if isinstance(e.op, ast.And) else any(vals)
        if isinstance(e, ast.Subscript):
            base = self.ev(e.value)
            if isinstance(base, AStrSym):
                i = self.ev(e.slice)
                if isinstance(i, Idx):
                    return ("char", base, i)
                if isinstance(i, T) and i.exact is not None:
                    return ("char", base, Idx("0", i.exact))
                raise Unsupported("string index `%s` at line %d" % (node_src(e.slice), e.lineno))
            raise Unsupported("subscript %s at line %d" % (node_src(e), e.lineno))
        if isinstance(e, ast.Call):
            return self.call(e)
        raise Unsupported("expression %s at line %d" % (type(e).__name__, getattr(e, "lineno", 0)))

    def cmp(self, op, l, r, node):
        if isinstance(l, T) and l.exact is not None and isinstance(op, (ast.In, ast.NotIn)) and isinstance(r, (list, tuple)):
            vals = []
            for x in r:
                if not (isinstance(x, T) and x.exact is not None):
                    raise Unsupported("membership in a non-constant collection")
                vals.append(x.exact)
            res = l.exact in vals
            return res if isinstance(op, ast.In) else not res
        for a_, b_, flip in ((l, r, False), (r, l, True)):
            if isinstance(a_, T) and a_.t == ("sym", "len") and a_.exact is None and isinstance(b_, T) and b_.exact in (0, 1) and self.length == "nonzero":
                # length >= 1 is the scenario; comparisons with 0 / 1 that this decides
                o = type(op)
                if flip:
                    o = {ast.Lt: ast.Gt, ast.LtE: ast.GtE, ast.Gt: ast.Lt, ast.GtE: ast.LtE}.get(o, o)
                table = {(ast.Eq, 0): False, (ast.NotEq, 0): True, (ast.Gt, 0): True, (ast.LtE, 0): False, (ast.GtE, 1): True, (ast.Lt, 1): False, (ast.GtE, 0): True, (ast.Lt, 0): False}
                if (o, b_.exact) in table:
                    self.len_tests += 1
                    return table[(o, b_.exact)]
        if isinstance(l, T) and isinstance(r, T) and l.exact is not None and r.exact is not None:
            a, b = l.exact, r.exact
            return {ast.Eq: a == b, ast.NotEq: a != b, ast.Lt: a < b, ast.LtE: a <= b, ast.Gt: a > b, ast.GtE: a >= b}[type(op)]
        raise Unsupported("comparison `%s` is not decided by constant propagation" % node_src(node))

    def binop(self, e, l, r):
        if isinstance(l, Idx) and isinstance(r, T) and r.exact is not None and isinstance(e.op, (ast.Add, ast.Sub)):
            return Idx(l.base, l.off + (r.exact if isinstance(e.op, ast.Add) else -r.exact))
        if isinstance(r, Idx) and isinstance(l, T) and l.exact is not None and isinstance(e.op, ast.Add):
            return Idx(r.base, r.off + l.exact)
        if not (isinstance(l, T) and isinstance(r, T)):
            raise Unsupported("operands of `%s` at line %d" % (node_src(e), e.lineno))
        op = e.op
        both = l.exact is not None and r.exact is not None
        if isinstance(op, ast.BitAnd):
            if both:
                return tconst(l.exact & r.exact)
            # assumption about the low bits of the length
            for a, b in ((l, r), (r, l)):
                if a.t == ("sym", "len") and b.exact is not None and self.len_low2 is not None and 0 <= b.exact <= 3:
                    return tconst(self.len_low2 & b.exact)
            if r.exact is not None:
                t = mk_and(l.t, r.exact)
                w = min(x for x in (l.w, r.exact.bit_length()) if x is not None) if r.exact >= 0 else l.w
                return T(t, w)
            if l.exact is not None:
                t = mk_and(r.t, l.exact)
                w = min(x for x in (r.w, l.exact.bit_length()) if x is not None) if l.exact >= 0 else r.w
                return T(t, w)
            return T(("uf", "and", (l.t, r.t)), _min(l.w, r.w))
        if isinstance(op, (ast.BitOr, ast.BitXor, ast.Add)):
            name = {ast.BitOr: "or", ast.BitXor: "xor", ast.Add: "add"}[type(op)]
            if both:
                v = {"or": l.exact | r.exact, "xor": l.exact ^ r.exact, "add": l.exact + r.exact}[name]
                return tconst(v)
            w = None if (l.w is None or r.w is None) else (max(l.w, r.w) + (1 if name == "add" else 0))
            return T(mk_ac(name, [l.t, r.t]), w)
        if isinstance(op, ast.Mult):
            if both:
                return tconst(l.exact * r.exact)
            w = None if (l.w is None or r.w is None) else l.w + r.w
            return T(mk_ac("mul", [l.t, r.t]), w)
        if isinstance(op, ast.LShift):
            if r.exact is None or r.exact < 0:
                raise Unsupported("shift by a non-constant at line %d" % e.lineno)
            if both:
                return tconst(l.exact << r.exact)
            return T(mk_shl(l.t, r.exact), None if l.w is None else l.w + r.exact)
        if isinstance(op, ast.RShift):
            if r.exact is None or r.exact < 0:
                raise Unsupported("shift by a non-constant at line %d" % e.lineno)
            if both:
                return tconst(l.exact >> r.exact)
            if l.w is None or l.w > 32:
                self.width_violations.append((e, l))
            return T(mk_shr(l.t, r.exact), None if l.w is None else max(0, l.w - r.exact))
        if isinstance(op, ast.Sub):
            if both:
                v = l.exact - r.exact
                return T(const(v), v.bit_length() if v >= 0 else None, exact=v)
            if r.exact is not None:
                # a - c == a + (2**32 - c) modulo 2**32; the actual value may be negative: width unknown
                return T(mk_ac("add", [l.t, const(-r.exact)]), None)
            if l.t == ("sym", "len"):
                # len - (len & m) clears the bits of m: len & ~m (0 <= len < 2**32)
                for m in (1, 3, 7, 15):
                    if r.t == mk_and(l.t, m):
                        return T(mk_and(l.t, 0xFFFFFFFF & ~m), 32)
        if isinstance(op, ast.Mod) and r.exact is not None and r.exact > 0:
            c = r.exact
            if c & (c - 1) == 0:
                # x % 2**k on a non-negative int is a mask
                k = c.bit_length() - 1
                if l.t == ("sym", "len") and self.len_low2 is not None and c <= 4:
                    return tconst(self.len_low2 & (c - 1))  # the assumption about the low bits of the length
                return T(mk_and(l.t, c - 1) if k <= 32 else l.t, k if l.w is None else min(l.w, k))
            # a genuinely different function of x (interpreted operator, not an unknown one)
            return T(("mod", l.t, c), c.bit_length())
        name = type(op).__name__
        return T(("uf", name, (l.t, r.t)), None)

    def call(self, e):
        f = e.func
        if isinstance(f, ast.Name):
            self.calls.add(f.id)
            if f.id == "len" and len(e.args) == 1:
                v = self.ev(e.args[0])
                if isinstance(v, AStrSym):
                    if self.length == "zero":
                        return tconst(0)  # the empty-input scenario
                    return T(("sym", "len"), 32)
                raise Unsupported("len of %s" % node_src(e.args[0]))
            if f.id == "ord" and len(e.args) == 1:
                v = self.ev(e.args[0])
                if isinstance(v, tuple) and v and v[0] == "char":
                    idx = v[2]
                    return T(("byte", idx.base, idx.off), 8)
                raise Unsupported("ord of %s" % node_src(e.args[0]))
            if f.id == "isinstance" and len(e.args) == 2:
                v = self.ev(e.args[0])
                if isinstance(v, AStrSym):
                    names = [x.id for x in (e.args[1].elts if isinstance(e.args[1], ast.Tuple) else [e.args[1]]) if isinstance(x, ast.Name)]
                    return v.kind in names
            if f.id == "int" and len(e.args) == 1:
                v = self.ev(e.args[0])
                if isinstance(v, T):
                    return v
            helper = self.fn.module.functions.get(f.id)
            if helper is not None and helper is not self.fn and getattr(self, "_depth", 0) < 3:
                # a module-level helper (e.g. an extracted rotate / scramble step): evaluated in line
                self.calls.discard(f.id)
                args = [self.ev(a) for a in e.args]
                kw = {k.arg: self.ev(k.value) for k in e.keywords if k.arg}
                env = {}
                pos = helper.pos_params()
                for p_, a in zip(pos, args):
                    env[p_.name] = a
                env.update(kw)
                for p_ in helper.params:
                    if p_.name not in env and p_.has_default:
                        env[p_.name] = Evaluator(helper, {}).ev(p_.default)
                sub = Evaluator(helper, env, self.len_low2)
                sub._depth = getattr(self, "_depth", 0) + 1
                sub.index_hook = getattr(self, "index_hook", None)
                body = [st for st in helper.node.body if not (isinstance(st, ast.Expr) and isinstance(st.value, ast.Constant))]
                res = sub.block(body)
                self.width_violations += sub.width_violations
                self.calls |= sub.calls
                if res is None or res[1] is None:
                    raise Unsupported("helper %s returns nothing" % f.id)
                return res[1]
            raise Unsupported("call of %s at line %d" % (f.id, e.lineno))
        if isinstance(f, ast.Attribute):
            self.calls.add("." + f.attr)
            v = self.ev(f.value)
            if isinstance(v, AStrSym) and f.attr in ("encode", "decode"):
                codec = "utf-8"
                if e.args and isinstance(e.args[0], ast.Constant):
                    codec = e.args[0].value
                codec = codec.lower().replace("_", "-")
                identity = codec in ("latin-1", "latin1", "iso-8859-1", "iso8859-1", "l1")
                kind = "bytes" if f.attr == "encode" else "str"
                return AStrSym(v.how if identity else "%s via %s(%s)" % (v.how, f.attr, codec), kind)
            raise Unsupported("method call %s at line %d" % (node_src(e), e.lineno))
        raise Unsupported("call %s" % node_src(e))


def _min(a, b):
    if a is None:
        return b
    if b is None:
        return a
    return min(a, b)


def _load(t):
    import copy

    n = copy.copy(t)
    n.ctx = ast.Load()
    return n
