"""C10 - asynchronous interruption cannot desynchronise a client or leak a pool slot.

The C01.R1 / C09.R2 path rules with the ASYNC exception colour (BaseException that is not Exception),
which may surface at every call node."""
import ast

from .model import AnalysisError, node_src
from .paths import ORD, ASYNC, fmt_trace
from . import exchange, poolpaths
from .report import walk_no_nested

LEVEL = "proof"
LEVEL_TEXT = (
    "Must-pass-through analysis on the structured path interpreter with the ASYNC exception colour: from every sendall to "
    "every exit reached by a BaseException-that-is-not-Exception raised at any call, Client.close is passed and the "
    "exception is not swallowed; every such exit of ObjectPool.get_and_release after get() passes exactly one "
    "release/destroy; pooled wrappers do not intercept the colour. The shape of the handlers is the whole property here."
)
TRUSTED = ["CPython ast", "pmcsa/paths.py (exception edges: every call may raise ASYNC)", "summary: Client.close / ObjectPool.release / destroy are atomic w.r.t. interruption (an interrupt inside the cleanup call itself is outside the property's quantifier)"]


def run(chk):
    prog = chk.prog
    direct, readers = exchange.recv_reaching_functions(prog)
    rmeth = exchange.methods_reaching_readers(prog, readers)
    exch = exchange.exchange_functions(prog)

    r1 = chk.rule("C10.R1", "from sendall to every ASYNC exit of each exchange function Client.close is passed, and the interruption is not swallowed")
    r1.floor("exchange functions", len(exch), 3)
    r1.floor("recv-reaching reader functions", len(readers), 4)
    n_paths = 0
    for fn in exch:
        runs = exchange.analyse_exchange(prog, fn, readers, rmeth, with_async=True)
        obs = exchange.close_obligations(prog, fn, runs, ASYNC)
        n_paths += len(obs)
        bad_raise = [o for o in obs if o[1] == "raise" and not o[0]]
        bad_sw = [o for o in obs if o[1] == "swallow"]
        if not obs:
            raise AnalysisError("C10.R1: no ASYNC exit after sendall found in %s (exception-edge model lost the function)" % fn.qualname)
        if bad_raise:
            ok, kind, exc, cfg, t, s = bad_raise[0]
            r1.fail("%s:ASYNC-exit-without-close" % fn.qualname, "a BaseException (KeyboardInterrupt, SystemExit, gevent.Timeout) raised at line %s after sendall leaves %s with the socket open and its reply unread (%d such paths; innermost handler seen: %s)" % (exc.origin, fn.qualname, len(bad_raise), exchange.handler_desc(t)), fn=fn, line=exc.origin, witness=fmt_trace(t))
        else:
            r1.ok("%s: all %d ASYNC exits after sendall pass Client.close" % (fn.qualname, len([o for o in obs if o[1] == "raise"])))
        if bad_sw:
            ok, kind, exc, cfg, t, s = bad_sw[0]
            r1.fail("%s:ASYNC-swallowed" % fn.qualname, "a BaseException raised after sendall is swallowed: %s returns normally on that path (config %s)" % (fn.qualname, cfg), fn=fn, witness=fmt_trace(t))
        else:
            r1.ok("%s: no normal return on an ASYNC path" % fn.qualname)
    r1.count("ASYNC exits examined", n_paths)

    r2 = chk.rule("C10.R2", "every ASYNC exit of ObjectPool.get_and_release after get() passes exactly one release/destroy; pooled wrappers do not intercept ASYNC")
    fn, recs = poolpaths.bracket_exits(prog)
    asy = [r for r in recs if r["kind"] == "exc" and r["colour"] == ASYNC and r["got"]]
    if not asy:
        raise AnalysisError("C10.R2: no ASYNC exit of get_and_release found")
    bad = [r for r in asy if r["rel"] != 1]
    if bad:
        b = bad[0]
        r2.fail("ObjectPool.get_and_release:ASYNC-exit-slot-not-returned", "a BaseException thrown into the with-body leaves get_and_release with %d release/destroy calls (destroy_on_fail=%s): the object stays in _used_objs forever" % (b["rel"], b["dof"]), fn=fn, line=b["exc"].origin, witness=fmt_trace(b["trace"]))
    else:
        r2.ok("get_and_release: %d ASYNC exits, each passes exactly one release/destroy" % len(asy))
    sw = [r for r in recs if r["kind"] == "ret" and r.get("swallowed")]
    r2.count("ASYNC exits of get_and_release", len(asy))
    # the wrappers: handlers inside the bracket must not catch BaseException / bare
    pooled = prog.cls("PooledClient")
    n_h = 0
    for f in pooled.methods.values():
        for n in walk_no_nested(f.node):
            if isinstance(n, ast.ExceptHandler):
                n_h += 1
                names = []
                if n.type is not None:
                    names = [ast.unparse(e) for e in (n.type.elts if isinstance(n.type, ast.Tuple) else [n.type])]
                catches_async = n.type is None or any(x.split(".")[-1] in ("BaseException", "KeyboardInterrupt", "SystemExit", "GeneratorExit") for x in names)
                reraises = any(isinstance(x, ast.Raise) and x.exc is None for x in ast.walk(n)) and not any(isinstance(x, ast.Return) for x in ast.walk(n))
                if catches_async and not reraises:
                    r2.fail("PooledClient.%s:handler-intercepts-ASYNC" % f.name, "handler `except %s` in PooledClient.%s can swallow a BaseException inside the pool bracket" % (", ".join(names) or "<bare>", f.name), fn=f, node=n)
                else:
                    r2.ok("PooledClient.%s: handler `except %s` lets ASYNC through" % (f.name, ", ".join(names)), sample=False)
    r2.count("PooledClient handlers inspected", n_h)
    # hand-made brackets (client_pool.get() ... release / destroy in the method itself): the interruption must not skip
    # the give-back either
    from . import pooled as pooled_an

    for name, runs in sorted(pooled_an.analyse_holds(prog).items()):
        m = pooled.methods[name]
        probs = pooled_an.hold_problems(runs, ("interrupt",))
        for key, msg in probs:
            r2.fail("PooledClient.%s:%s" % (name, key), "PooledClient.%s checks its client out with client_pool.get(): %s" % (name, msg), fn=m, node=m.node)
        if not probs:
            r2.ok("PooledClient.%s: checks the client out itself; an interruption of the call on it still passes release / destroy" % name)

    from . import rules_C09, report

    from . import rules_C08

    report.include_rules(chk, r2, rules_C08, ("C08.R3",), "release/destroy take the object out of the pool's books before anything that can be interrupted (closing the connection) runs")
    report.include_rules(chk, r2, rules_C09, ("C09.R8",), "a close callback that is interrupted leaves the pool's books and its capacity intact (histories with a raising close callback)")
    report.include_rules(chk, r2, rules_C09, ("C09.R7",), "the slot must not be lost inside get(): nothing may fail or be interrupted between registering the object as used and handing it to the caller")
    r3 = chk.rule("C10.R3", "HashClient and the other wrappers hold no connection state of their own (no .sock / sendall / recv outside Client)")
    n_sites = 0
    for f in prog.all_functions():
        for n in walk_no_nested(f.node):
            if isinstance(n, ast.Attribute) and n.attr in ("sock", "sendall", "recv", "recv_into"):
                n_sites += 1
                inside = (f.cls is not None and f.cls.name == "Client") or (f.cls is None and f.module.rel == exchange.READERS_BASE and f.name in readers) or (f.cls is None and f.module.rel == exchange.READERS_BASE and f.name in getattr(prog, "send_helpers", {}))  # a send helper next to the readers: C01.R7 decides that it is one send
                if not inside:
                    r3.fail("%s:touches-%s" % (f.qualname, n.attr), "%s uses .%s outside class Client / the reader functions" % (f.qualname, n.attr), fn=f, node=n)
    r3.ok("%d uses of .sock/.sendall/.recv, all inside Client or the reader functions" % n_sites)
    r3.floor("socket attribute uses", n_sites, 8)
    # R4: the cleanup itself - even when interrupted inside sock.close(), Client.close drops the socket reference
    from .rules_C06 import SockDomain, Ref
    from .paths import Interp, Env, NONE, TOP

    r4 = chk.rule("C10.R4", "Client.close drops self.sock on every exit, including a BaseException raised inside socket.close()")
    close = prog.method("Client", "close")
    dom = SockDomain(prog, close, close_may_raise=True)
    dom.async_enabled = True
    _orig = dom.call

    def call(node, fval, args, kwargs, state):
        res = _orig(node, fval, args, kwargs, state)
        if any(r[0] == "exc" and r[1].colour == ORD for r in res) and not any(r[0] == "exc" and r[1].colour == ASYNC for r in res):
            from .paths import Exc

            res = res + [("exc", Exc(ASYNC, None, node.lineno), r[2]) for r in res if r[0] == "exc" and r[1].colour == ORD]
        return res

    dom.call = call
    outs = Interp(dom, close.node, prog).run(Env({"self.sock": Ref("previous"), ("obj", "previous"): "open"}))
    n = 0
    for kind in ("ret", "exc"):
        for s, v, t in outs.of(kind):
            n += 1
            ok = s.get("self.sock", TOP) == NONE
            r4.expect(ok, "close(): %s exit%s leaves self.sock None" % (kind, (" (%s)" % v.colour) if kind == "exc" else ""), "Client.close:sock-kept-on-%s-exit" % (v.colour if kind == "exc" else "normal"), "Client.close can exit (%s) with self.sock still referring to the old socket: an interrupted close keeps a desynchronised connection in use" % (str(v) if kind == "exc" else "return",), fn=close, witness=fmt_trace(t))
    r4.floor("exits of Client.close", n, 2)
    chk.assume("an interruption inside Client.close / ObjectPool.release / ObjectPool.destroy themselves is not an interruption point (the property quantifies over socket calls of the operation)")
