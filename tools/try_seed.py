#!/venv/bin/python
"""try_seed.py <prop> <letter> [checks...]: confirm a freshly written seeded change under /tmp/wt-out/<prop>/<letter>/
(tools/verify_seed.sh -> verify.txt there), then apply it to a scratch copy of /repo HEAD and run the checks on it."""
import os, re, shutil, subprocess, sys
from concurrent.futures import ThreadPoolExecutor
prop, x = sys.argv[1], sys.argv[2]
only = sys.argv[3:]
d = "/tmp/wt-out/%s/%s" % (prop, x)
if not os.path.exists(d + "/verify.txt"):
    v = subprocess.run(["sh", "/verif/tools/verify_seed.sh", d], capture_output=True, text=True).stdout.strip()
    open(d + "/verify.txt", "w").write(v + "\n")
print(prop + x, open(d + "/verify.txt").read().strip())
wt = "/tmp/wt/try_%s%s" % (prop, x)
shutil.rmtree(wt, ignore_errors=True); os.makedirs(wt)
subprocess.run("git -C /repo archive HEAD | tar -x -C %s && cd %s && patch -p1 -s < %s/patch.diff" % (wt, wt, d), shell=True, check=True)
props = only or ["C%02d" % i for i in range(1, 21)]
def one(p):
    r = subprocess.run(["./check", p, "--root", wt], cwd="/verif", capture_output=True, text=True)
    keys = re.findall(r"\[(C\d\d\.R[\w.]+:[^\]]*)\]", r.stdout)
    errs = [l[:300] for l in r.stdout.splitlines() if l.startswith("ANALYSIS-ERROR")]
    return p, r.returncode, keys, errs
with ThreadPoolExecutor(8) as ex:
    for p, rc, keys, errs in ex.map(one, props):
        if rc != 0:
            print("  %s exit=%d %s %s" % (p, rc, "; ".join(sorted(set(keys)))[:400], " | ".join(errs)[:400]))
shutil.rmtree(wt, ignore_errors=True)
