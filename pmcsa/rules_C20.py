"""C20 - key validation accepts exactly the documented legal keys (decided on the shape domain; encode trusted)."""
import ast
import itertools

from .model import AnalysisError, node_src, is_self_attr, call_name
from .keyeval import KeyEval, AStr, WS, NUL, SPECIAL, merge, tokens_of, Unsupported
from .report import walk_no_nested

LEVEL = "proof"
LEVEL_TEXT = (
    "check_key_helper touches the key only through encode, concatenation with the prefix, split(), len comparisons, "
    "token/whole comparisons and membership tests of special bytes, so it is evaluated abstractly over a byte-string "
    "shape domain (patterns of runs of ordinary / non-ASCII / each whitespace byte / NUL, with length scenarios around "
    "the 250-byte boundary measured in characters, encoded bytes and prefixed bytes) and compared, for every abstract "
    "input, with the specified predicate, the required exception type and the required return value. The three client "
    "classes are shown to apply this one function with their own prefix and unicode setting, with no switches, and R6 "
    "interprets every key-addressed Client method end to end with an illegal key at each position of its batch: the "
    "only outcome is MemcacheIllegalInputError, with and without ignore_exc, before anything is sent."
)
TRUSTED = ["CPython ast", "pmcsa/keyeval.py transformers (semantics of bytes.split, str.encode for ascii/utf8, len, `in`)", "re._parser for character classes when a regex is used"]

EXC = "MemcacheIllegalInputError"


def patterns(symbols, maxlen):
    for n in range(1, maxlen + 1):
        for p in itertools.product(symbols, repeat=n):
            if all(p[i] != p[i + 1] for i in range(n - 1)):
                yield p


def scenarios(prefix, pat):
    """Length scenarios (C chars, E encoded bytes, P prefix bytes, T total) consistent with the patterns."""
    minP, minE = len(prefix), len(pat)
    ps = [0] if not prefix else sorted({minP, 100})
    out = []
    for P in ps:
        for T in sorted({P + minE, 249, 250, 251, 400}):
            E = T - P
            if E < minE:
                continue
            extras = [0]
            nu = sum(1 for s in pat if s == "u")
            if nu and E - 3 * nu >= minE:
                extras = [3 * nu]  # every non-ASCII run costs more bytes than characters
            elif nu:
                extras = [nu] if E - nu >= minE else [0]
            for x in extras:
                out.append({"P": P, "E": E, "T": T, "C": E - x})
    return out


def spec(kind, allow_unicode, prefix, pat, scen):
    """-> ('reject',) or ('accept', prefixed pattern)"""
    if kind == "str" and "u" in pat and not allow_unicode:
        return ("reject",)
    enc = merge("h" if s == "u" else s for s in pat)
    full = merge(tuple(prefix) + tuple(enc))
    toks = tokens_of(full)
    legal = len(toks) == 1 and full[0] not in WS and full[-1] not in WS and NUL not in full and scen["T"] <= 250
    return ("accept", full) if legal else ("reject",)


def illegal_key_rows(prog, rule):
    """Every public key-addressed method of Client, interpreted end to end (rules_C05.script_eval) with the n-th
    validated key illegal: the only outcome is MemcacheIllegalInputError - ignore_exc swallows failures of the
    conversation with the server, not the caller's mistakes - and nothing has been sent when it is raised."""
    from . import spec
    from .rules_C05 import script_eval

    n = 0
    for mname, scripts in sorted(spec.CALL_SCRIPTS.items()):
        f = prog.method("Client", mname, required=False)
        if f is None or not any(f.param(p_) is not None for p_ in ("key", "keys", "values")):
            continue
        for nkeys, replies in scripts:
            if nkeys == 0:
                continue
            for pos in range(1, nkeys + 1):
                for ign in (False, True):
                    for oneshot in ((False, True) if f.param("keys") is not None else (False,)):
                        n += 1
                        outs = script_eval(prog, mname, replies, nkeys=nkeys, ignore_exc=ign, full=True, fault="illegal-key:%d" % pos, oneshot=oneshot)
                        what = "Client.%s(%d key(s)%s, ignore_exc=%s), key #%d illegal" % (mname, nkeys, ", one-shot" if oneshot else "", ign, pos)
                        problems, vague = [], False
                        for s_, v, t in outs.of("ret"):
                            if s_.get("#nkeychk", 0) < pos:
                                problems.append("returns %s without having validated key #%d" % (v, pos))
                            else:
                                problems.append("returns %s although key #%d was rejected" % (v, pos))
                            vague = vague or bool(s_.get("#imprecise", 0))
                        for s_, e, t in outs.of("exc"):
                            if e.cls != "MemcacheIllegalInputError":
                                problems.append("raises %s instead of MemcacheIllegalInputError" % e.cls)
                                vague = vague or bool(s_.get("#imprecise", 0)) or e.cls is None
                            elif s_.get("#nsend", 0):
                                problems.append("has already sent a command when the illegal key is rejected")
                        if not outs.of("ret") and not outs.of("exc"):
                            problems.append("has no outcome")
                        if not problems:
                            rule.ok(what + ": MemcacheIllegalInputError, nothing sent", sample=(n < 3))
                        elif vague:
                            rule.undecided("Client.%s:illegal-key" % mname, "%s -- %s" % (what, "; ".join(dict.fromkeys(problems))))
                        else:
                            rule.fail("Client.%s:illegal-key" % mname, "%s: the call %s" % (what, "; ".join(dict.fromkeys(problems))), fn=f, node=f.node)
    rule.count("illegal-key rows", n)
    rule.floor("illegal-key rows", n, 80)


def run(chk):
    prog = chk.prog
    fn = prog.function("pymemcache/client/base.py", "check_key_helper")
    pp = [p.name for p in fn.pos_params()]
    if len(pp) < 3:
        raise AnalysisError("check_key_helper no longer takes (key, allow_unicode_keys, key_prefix)")
    kname, uname, pname = pp[0], pp[1], pp[2]
    thorough = chk.tier == "thorough"
    maxlen = 4 if thorough else 3
    prefixes = [(), ("x",)] + ([("x", " ", "x"), (" ",), ("\0",), ("x", "\t")] if thorough else [("x", " ")])

    r1 = chk.rule("C20.R1", "accept <=> encoded+prefixed key is one token, no leading/trailing whitespace, no NUL, at most 250 bytes (all abstract inputs)")
    r2 = chk.rule("C20.R2", "bytes, not characters: length, split and membership are applied to the encoded, prefixed bytes; the returned value is that value")
    r3 = chk.rule("C20.R3", "encoding branch table: str is encoded with utf8 when unicode keys are allowed, ascii otherwise; bytes untouched")
    r4 = chk.rule("C20.R4", "rejection is always MemcacheIllegalInputError")
    work = []
    for kind in ("bytes", "str"):
        syms = ("x",) + SPECIAL + (("u",) if kind == "str" else ("h",))
        pats = list(patterns(syms, maxlen))
        step = max(1, len(pats) // (32 if thorough else 1))
        for i in range(0, len(pats), step):
            work.append((kind, pats[i : i + step], prefixes, prog.root, prog.overlay if hasattr(prog, "overlay") else None))
    if thorough and len(work) > 1:
        from concurrent.futures import ProcessPoolExecutor

        with ProcessPoolExecutor(16) as ex:
            parts = list(ex.map(_eval_chunk, work))
    else:
        parts = [_eval_chunk(w, prog) for w in work]
    n = 0
    bad_iff, bad_ret, bad_exc, bad_flow, bad_enc = {}, {}, {}, {}, {}
    classes = set()
    for pn, pc, p_iff, p_ret, p_exc, p_flow, p_enc in parts:
        n += pn
        classes |= pc
        for d, src in ((bad_iff, p_iff), (bad_ret, p_ret), (bad_exc, p_exc), (bad_flow, p_flow), (bad_enc, p_enc)):
            for k, v in src.items():
                d.setdefault(k, v)
    r1.count("abstract inputs evaluated", n)
    r1.count("distinct feature classes", len(classes))
    r1.floor("abstract inputs", n, 5000)
    groups = {}
    for (what, feat), desc in sorted(bad_iff.items(), key=lambda kv: str(kv[0])):
        g = groups.setdefault((what, _clauses(feat)), {"n": 0, "desc": desc, "ws": set()})
        g["n"] += 1
        g["ws"] |= set(feat[7])
    for (what, clauses), g in sorted(groups.items()):
        construct = "check_key_helper:%s:%s" % (what, clauses)
        wsn = ",".join({" ": "SP", "\t": "TAB", "\n": "LF", "\x0b": "VT", "\x0c": "FF", "\r": "CR"}[c] for c in sorted(g["ws"]))
        if what == "accepts-illegal":
            r1.fail(construct, "illegal keys are accepted (%s; %d feature classes%s), e.g. %s" % (clauses, g["n"], ("; whitespace bytes involved: " + wsn) if wsn else "", g["desc"]), fn=fn, node=fn.node)
        else:
            r1.fail(construct, "legal keys are rejected (%s; %d feature classes), e.g. %s" % (clauses, g["n"], g["desc"]), fn=fn, node=fn.node)
    if not bad_iff:
        r1.ok("all %d abstract inputs (%d feature classes): accepted iff legal" % (n, len(classes)))
    for feat, desc in bad_ret.items():
        r2.fail("check_key_helper:returns-other-value:%s" % _feat_name(feat), desc, fn=fn, node=fn.node)
    for (what, tag, lk), desc in bad_flow.items():
        r2.fail("check_key_helper:%s-on-%s-%s" % (what, tag, lk if isinstance(lk, str) else "literal"), "`%s` is applied to the %s value measured as %s instead of the encoded, prefixed bytes (e.g. %s)" % (what, tag, {"C": "characters of the str key", "E": "encoded key without prefix", "P": "prefix"}.get(lk, lk), desc), fn=fn, node=fn.node)
    if not bad_ret and not bad_flow:
        r2.ok("every len/split/membership is on the encoded+prefixed bytes and the accepted key is returned as prefix + encoded key")
    for (tag, au), desc in bad_enc.items():
        r3.fail("check_key_helper:encoding:%s:allow_unicode=%s" % (tag, au), "encoding branch: %s with allow_unicode_keys=%s (e.g. %s)" % ({"no-encode": "a str key is not encoded", "bytes-encoded": "a bytes key is encoded"}.get(tag, "a str key is encoded with %s" % tag), au, desc), fn=fn, node=fn.node)
    if not bad_enc:
        r3.ok("(allow_unicode, str) -> utf8; (not allow_unicode, str) -> ascii; bytes untouched")
    for (cls, feat), desc in bad_exc.items():
        r4.fail("check_key_helper:raises-%s" % cls, "a key is rejected with %s instead of %s: %s" % (cls, EXC, desc), fn=fn, node=fn.node)
    # (the function and the module-level helpers it calls: the rejections may sit in an extracted classifier)
    scope_r, todo_r = [], [fn]
    while todo_r:
        g_ = todo_r.pop()
        if g_ in scope_r:
            continue
        scope_r.append(g_)
        for n_ in ast.walk(g_.node):
            if isinstance(n_, ast.Call) and isinstance(n_.func, ast.Name) and n_.func.id in fn.module.functions:
                todo_r.append(fn.module.functions[n_.func.id])
    raises = [x for g_ in scope_r for x in ast.walk(g_.node) if isinstance(x, ast.Raise) and x.exc is not None]
    for x in raises:
        from .keyeval import raised_class_name

        nm = raised_class_name(x.exc, fn.module)
        if nm is None:
            r4.undecided("check_key_helper:raise-site:line-%d" % x.lineno, "`%s` raises what a helper builds, and the helper's returns do not construct one class" % node_src(x, 80))
            continue
        r4.expect(nm == EXC, "raise site line %d raises %s" % (x.lineno, EXC), "check_key_helper:raise-site:%s" % nm, "a raise statement of check_key_helper raises %s" % nm, fn=fn, node=x)
    r4.floor("raise sites", len(raises), 1)

    # ------------------------------------------------------------------ R6 the rejection reaches the caller
    r6 = chk.rule("C20.R6", "a rejected key stops the operation: every key-addressed method of Client raises MemcacheIllegalInputError for an illegal key at any position of its batch, with and without ignore_exc, before anything is sent")
    illegal_key_rows(prog, r6)

    # ------------------------------------------------------------------ R5
    r5 = chk.rule("C20.R5", "Client, PooledClient and HashClient all validate through check_key_helper with their own unicode setting and prefix; every key on the wire went through it")
    sites = []
    for f in prog.all_functions():
        for c in walk_no_nested(f.node):
            if isinstance(c, ast.Call) and call_name(c) == "check_key_helper":
                sites.append((f, c))
    r5.floor("call sites of check_key_helper", len(sites), 3)
    want_prefix = {"Client.check_key": "param:key_prefix", "PooledClient.check_key": "self.key_prefix", "HashClient._get_client": "self.key_prefix"}
    seen = set()
    for f, c in sites:
        bound = {}
        for p, a in zip(fn.pos_params(), c.args):
            bound[p.name] = a
        for k in c.keywords:
            bound[k.arg] = k.value
        au = bound.get(uname)
        pr = bound.get(pname)
        ok_au = is_self_attr(au, "allow_unicode_keys")
        r5.expect(ok_au, "%s passes self.allow_unicode_keys" % f.qualname, "%s:allow_unicode_keys-not-passed" % f.qualname, "%s calls check_key_helper with allow_unicode_keys=%s instead of the instance's setting" % (f.qualname, node_src(au) if au is not None else "<missing>"), fn=f, node=c)
        w = want_prefix.get(f.qualname)
        if w is not None:
            seen.add(f.qualname)
            if w.startswith("param:"):
                okp = isinstance(pr, ast.Name) and pr.id == w[6:]
            else:
                okp = is_self_attr(pr, "key_prefix")
            r5.expect(okp, "%s validates the key together with %s" % (f.qualname, w), "%s:prefix-not-validated" % f.qualname, "%s validates the key with key_prefix=%s: the length and whitespace rules are applied to something other than what is sent (prefix + key), so a key that is too long once prefixed is accepted here and rejected (or sent) later" % (f.qualname, node_src(pr) if pr is not None else "<default b''>"), fn=f, node=c)
        else:
            r5.ok("%s also validates through check_key_helper" % f.qualname, sample=False)
    for q in want_prefix:
        if q not in seen:
            r5.fail("%s:no-validation" % q, "%s no longer validates keys through check_key_helper" % q, file="pymemcache/client/base.py")
    # the rule has no switches: a parameter of the validators beyond (key, allow_unicode_keys, key_prefix) takes its
    # default at every call site - a caller that passes something else turns part of the validation off for its keys
    base_params = {"check_key_helper": 3, "check_key": 2}
    validators = [fn] + [m_ for c_ in prog.classes.values() for m_ in c_.methods.values() if m_.name == "check_key"]
    for v in validators:
        pps = [p_ for p_ in v.params if p_.name != "self"]
        extra = pps[base_params["check_key_helper" if v is fn else "check_key"]:]
        if not extra:
            continue
        for f in prog.all_functions():
            for c in walk_no_nested(f.node):
                if not (isinstance(c, ast.Call) and call_name(c).split(".")[-1] == v.name):
                    continue
                given = {}
                for p_, a_ in zip(pps, c.args):
                    given[p_.name] = a_
                for k_ in c.keywords:
                    if k_.arg is not None:
                        given[k_.arg] = k_.value
                    else:
                        given["**"] = k_.value
                for p_ in extra:
                    a_ = given.get(p_.name, given.get("**"))
                    if a_ is None:
                        continue
                    same = isinstance(a_, ast.Constant) and p_.has_default and isinstance(p_.default, ast.Constant) and a_.value == p_.default.value and type(a_.value) is type(p_.default.value)
                    forwarded = isinstance(a_, ast.Name) and f.param(a_.id) is not None and f.name == "check_key"  # a wrapper handing its own parameter on: judged at *its* call sites
                    r5.expect(same or forwarded, "%s passes the default for `%s`" % (f.qualname, p_.name), "%s:validation-option:%s" % (f.qualname, p_.name), "%s calls %s with %s=%s: `%s` is not part of the documented rule (every key is checked for length, whitespace, NUL and encoding), so for the keys of this caller a part of the check is switched off or altered" % (f.qualname, v.qualname, p_.name, node_src(a_), p_.name), fn=f, node=c)
    wrapper_returns(prog, r5)
    # HashClient: on every path through _get_client the routed key has been validated before the hasher is asked
    # (a key that is never validated here is only rejected inside the safe runner, where ignore_exc swallows it)
    from .rules_C12 import RouteDomain, Sym
    from .paths import Interp, Env

    gc = prog.method("HashClient", "_get_client")
    n_routes = 0
    for is_pair in (False, True):
        for dead in (False, True):
            dom = RouteDomain(prog, gc, is_pair, dead)
            Interp(dom, gc.node, prog).run(Env({gc.pos_params()[0].name: Sym("key")}))
            for node, arg, st in dom.routed:
                n_routes += 1
                r5.expect(arg in st.get("#validated", ()), "HashClient._get_client(%s key): the routed key was validated first" % ("pair" if is_pair else "plain"), "HashClient._get_client:routes-unvalidated-key", "for a %s key HashClient._get_client asks the hasher about a key that check_key_helper has not validated on this path: an illegal key is only rejected inside the routed call, where ignore_exc turns the error into a default value (or, with no server left, it is never rejected)" % ("(server_key, key) pair" if is_pair else "plain"), fn=gc, node=node)
    r5.floor("routing paths of HashClient._get_client", n_routes, 4)
    from . import rules_C12, report as _report

    _report.include_rules(chk, r5, rules_C12, ("C12.R2",), "HashClient transmits a plain key as it is: only a 2-tuple is taken apart into (server_key, key), never a str or bytes key that happens to have two characters")

    # every key fragment on the wire of a key-addressed command was validated with the instance prefix
    from . import wire

    n_keys = 0
    for m in wire.wire_methods(prog):
        if m.name in ("raw_command",):
            continue
        dom = wire.evaluate(prog, m)
        first = m.pos_params()[0].name if m.pos_params() else None
        for ev in dom.events:
            for cmd in wire.commands_of(ev["wire"]):
                for fr in _flatten(cmd):
                    if fr[0] == "key":
                        n_keys += 1
                        if first in ("key", "keys", "values"):
                            ok = fr[2] == wire.SelfAttr("key_prefix")
                            r5.expect(ok, "Client.%s sends a key validated with self.key_prefix" % m.name, "Client.%s:key-prefix" % m.name, "Client.%s validates/sends a key with prefix %s instead of self.key_prefix" % (m.name, wire.describe(fr[2])), fn=m, node=ev["site"])
                    if fr[0] == "taint" and first in ("key", "keys", "values") and _derives_from_key(fr[1], first):
                        r5.fail("Client.%s:unvalidated-key-on-wire" % m.name, "Client.%s puts `%s` on the wire without check_key" % (m.name, wire.describe(fr[1])), fn=m, node=ev["site"])
    r5.floor("key fragments on the wire", n_keys, 18)
    chk.assume("CPython semantics of str.encode('ascii'/'utf8') and bytes.split() as modelled in pmcsa/keyeval.py")
    chk.assume("str keys are well-formed Unicode (no lone surrogates), as in the property's quantifier")


def _eval_chunk(w, prog=None):
    """Evaluate check_key_helper on one slice of the abstract input space (own process in the thorough tier)."""
    kind, pats, prefixes, root, overlay = w
    if prog is None:
        from . import model as _m

        prog = _m.Program(root=root, overlay=overlay)
    fn = prog.function("pymemcache/client/base.py", "check_key_helper")
    pp = [p.name for p in fn.pos_params()]
    kname, uname, pname = pp[0], pp[1], pp[2]
    n = 0
    bad_iff, bad_ret, bad_exc, bad_flow, bad_enc = {}, {}, {}, {}, {}
    classes = set()
    if True:
        for pat in pats:
            for prefix in prefixes:
                for scen in scenarios(prefix, pat):
                    for au in (True, False):
                        n += 1
                        ke = KeyEval(prog, fn)
                        env = {
                            kname: AStr(kind, pat, "C" if kind == "str" else "E", scen),
                            uname: au,
                            pname: AStr("bytes", prefix, "P", scen),
                        }
                        res = ke.run(env)
                        want = spec(kind, au, prefix, pat, scen)
                        desc = "%s key %r, prefix %r, lengths %s, allow_unicode_keys=%s" % (kind, "".join(pat), "".join(prefix), scen, au)
                        feat = _features(kind, au, prefix, pat, scen)
                        classes.add(feat)
                        if res[0] == "raise":
                            if res[1] != EXC:
                                bad_exc.setdefault((res[1], feat), desc)
                            if want[0] == "accept":
                                bad_iff.setdefault(("rejects-legal", feat), desc)
                        else:
                            if want[0] == "reject":
                                bad_iff.setdefault(("accepts-illegal", feat), desc)
                            else:
                                v = res[1]
                                if not (isinstance(v, AStr) and v.tag == "bytes" and v.pat == want[1] and v.lenkind in ("T",) + (("E",) if not prefix else ())):
                                    bad_ret.setdefault(feat, "%s -> returns %r, expected prefix + encoded key" % (desc, v))
                        for what, tag, lk in ke.flow:
                            if what in ("len", "split", "in", "search", "strip"):
                                if tag != "bytes" or (lk not in ("T",) and not (lk == "E" and not prefix)):
                                    bad_flow.setdefault((what, tag, lk), desc)
                            if what == "encode":
                                wantc = "utf8" if au else "ascii"
                                if tag != wantc:
                                    bad_enc.setdefault((tag, au), desc)
                        if kind == "str" and not any(w == "encode" for w, _, _ in ke.flow):
                            bad_enc.setdefault(("no-encode", au), desc)
                        if kind == "bytes" and any(w == "encode" for w, _, _ in ke.flow):
                            bad_enc.setdefault(("bytes-encoded", au), desc)
    return n, classes, bad_iff, bad_ret, bad_exc, bad_flow, bad_enc


def wrapper_returns(prog, r5):
    """The per-class wrappers return, on every path, the helper's verdict for this call's own (key, prefix)."""
    for cname in ("Client", "PooledClient"):
        w = prog.method(cname, "check_key", required=False)
        if w is None:
            r5.fail("%s.check_key:missing" % cname, "%s has no check_key wrapper" % cname, file="pymemcache/client/base.py")
            continue
        params = [p.name for p in w.pos_params()]
        for ret in [n for n in walk_no_nested(w.node) if isinstance(n, ast.Return)]:
            v = ret.value
            src_ok = False
            if isinstance(v, ast.Name):
                defs = [n for n in walk_no_nested(w.node) if isinstance(n, ast.Assign) and any(isinstance(t, ast.Name) and t.id == v.id for t in n.targets)]
                src_ok = bool(defs) and all(isinstance(d.value, ast.Call) and call_name(d.value) == "check_key_helper" for d in defs)
            elif isinstance(v, ast.Call) and call_name(v) == "check_key_helper":
                src_ok = True
            elif isinstance(v, ast.Subscript):
                # a memo is acceptable only if it is indexed by everything the verdict depends on
                idx = {n.id for n in ast.walk(v.slice) if isinstance(n, ast.Name)}
                src_ok = set(params) <= idx
            r5.expect(src_ok, "%s.check_key returns the helper's result for this call's arguments" % cname, "%s.check_key:returns-foreign-result" % cname, "%s.check_key can return `%s`, which is not the result of validating this call's own (%s): a key validated under one prefix is reused under another, so an unprefixed (or wrongly prefixed) key reaches the wire" % (cname, node_src(v) if v is not None else None, ", ".join(params)), fn=w, node=ret)



def _flatten(frags):
    from . import wire

    for f in frags:
        if f[0] == "rep":
            for p in f[1]:
                yield from _flatten(wire.to_frags(p))
        else:
            yield f


def _derives_from_key(v, first):
    from . import wire

    def walk(x):
        if isinstance(x, wire.ItemVal):
            return False  # the value side of a {key: value} mapping
        if isinstance(x, wire.P):
            return x.name == first
        if isinstance(x, tuple):
            return any(walk(y) for y in x)
        return False

    return walk(v)


def _features(kind, au, prefix, pat, scen):
    enc = merge("h" if s == "u" else s for s in pat)
    full = merge(tuple(prefix) + tuple(enc))
    toks = tokens_of(full)
    return (
        kind,
        au,
        "u" in pat or "h" in pat,
        min(len(toks), 2),
        full[0] in WS,
        full[-1] in WS,
        NUL in full,
        tuple(sorted({s for s in full if s in WS})),
        (scen["C"] > 250, scen["E"] > 250, scen["T"] > 250, scen["T"] == 250, scen["T"] == 251),
        bool(prefix),
    )


def _clauses(f):
    """Which clauses of the specification an input of this feature class violates (or, for a legal key, what is
    special about it)."""
    kind, au, hasu, ntok, lead, trail, nul, ws, lens, pre = f
    c, e, t, t250, t251 = lens
    out = []
    if kind == "str" and hasu and not au:
        out.append("non-ASCII-str-without-unicode-keys")
    if t:
        out.append("longer-than-250-bytes")
    if ntok == 0:
        out.append("whitespace-only")
    elif ntok >= 2:
        out.append("embedded-whitespace")
    else:
        if lead:
            out.append("leading-whitespace")
        if trail:
            out.append("trailing-whitespace")
    if nul:
        out.append("NUL")
    if not out:
        out.append("legal")
        if hasu:
            out.append("multi-byte")
        if pre:
            out.append("prefixed")
        if t250:
            out.append("exactly-250-bytes")
    return "+".join(out)


def _feat_name(f):
    kind, au, hasu, ntok, lead, trail, nul, ws, lens, pre = f
    parts = [kind, "unicode" if au else "ascii-only"]
    if hasu:
        parts.append("non-ASCII")
    parts.append("%s%d token%s" % (">=" if ntok == 2 else "", ntok, "" if ntok == 1 else "s"))
    if lead:
        parts.append("leading-ws")
    if trail:
        parts.append("trailing-ws")
    if nul:
        parts.append("NUL")
    if ws:
        parts.append("ws=" + "".join({" ": "SP", "\t": "TAB", "\n": "LF", "\x0b": "VT", "\x0c": "FF", "\r": "CR"}[c] + "," for c in ws).rstrip(","))
    c, e, t, t250, t251 = lens
    parts.append("len:" + ("T>250" if t else "T<=250") + ("(=250)" if t250 else "") + ("(=251)" if t251 else "") + (",E>250" if e else "") + (",C>250" if c else ""))
    if pre:
        parts.append("prefixed")
    return "/".join(parts)
