"""Segmentation rows (C03.R6): the reader functions of base.py interpreted on exact byte strings, for every way a short
reply stream can be cut into received pieces (and every split between the leftover handed in and the pieces still to
come).  Nothing of /repo runs: the function's syntax tree is interpreted by the path interpreter over exact values
(`Const(bytes)`, exact lists, integers); the recv helper returns the next piece of the scenario, then b"" (the peer hung
up).  A value the interpreter cannot compute exactly makes the row *undecided*, never a verdict.

What a row must show (S = leftover handed in + all pieces, in order):
  * the terminator is complete after k pieces (k minimal): the reader returns having asked for exactly k pieces, its
    result is the part of S before the terminator (sized reader: the first `size` bytes), its leftover is what was
    received beyond the terminator - so result + terminator + leftover + the pieces not yet asked for == S;
  * the terminator is never complete: the reader raises (it sees the hang-up); it does not return.
"""
import ast
import itertools

from .model import call_name
from .paths import Interp, Domain, Env, TOP, NONE, Const, TupleV, Opaque, FuncRef, Exc, ORD
from .colls import ExactCollections, deref, fold_method, SliceV
from .rules_C05 import has_top


class SegDomain(ExactCollections, Domain):
    async_enabled = False
    subscript_may_raise = False
    unpack_may_raise = False
    global_keys = ("#pos", "#imprecise")

    def __init__(self, prog, fn, pieces, sources):
        super().__init__(prog, fn)
        self.pieces = pieces
        self.sources = sources

    def mark_imprecise(self, state, node):
        return state.set("#imprecise", 1)

    def name_load(self, name, state, node=None):
        if state.has(name):
            return state.get(name)
        mod = self.fn.module
        if name in mod.functions:
            return FuncRef(name)
        if name in mod.assigns:
            try:
                return Const(mod.const(name))
            except Exception:
                return TOP
        if name in ("bytes", "bytearray", "len", "min", "max", "int", "bool"):
            return Opaque("builtin:" + name)
        return TOP

    def attr_load(self, objval, node, state):
        b = self.coll_attr(objval, node)
        if b is not None:
            return b
        if isinstance(objval, Const):
            return ("cmeth", objval, node.attr)
        if objval == Opaque("sock"):
            return ("sockmeth", node.attr)
        if isinstance(node.value, ast.Name) and node.value.id == "errno":
            return Opaque("errno." + node.attr)
        return TOP

    def subscript_load(self, objval, idxval, node, state):
        if isinstance(objval, Const) and isinstance(objval.v, (bytes, str)):
            if isinstance(idxval, SliceV):
                b = [None if x == NONE else (x.v if isinstance(x, Const) else "?") for x in idxval]
                if all(x is None or (isinstance(x, int) and not isinstance(x, bool)) for x in b) and b[2] != 0:
                    return Const(objval.v[slice(*b)]), False
                return TOP, False
            if isinstance(idxval, Const) and isinstance(idxval.v, int) and not isinstance(idxval.v, bool):
                if -len(objval.v) <= idxval.v < len(objval.v):
                    return Const(objval.v[idxval.v]), False
                return TOP, True
        return super().subscript_load(objval, idxval, node, state)

    def call(self, node, fval, args, kwargs, state):
        name = call_name(node)
        if name == "len" and len(args) == 1 and isinstance(args[0], Const) and isinstance(args[0].v, (bytes, str, tuple)):
            return [("ok", Const(len(args[0].v)), state)]
        if name in ("bytes", "bytearray") and len(args) <= 1 and not kwargs and all(isinstance(a, Const) and isinstance(a.v, bytes) for a in args):
            # a bytearray is followed as the bytes it holds (exact as long as nobody mutates it in place: `+=` rebinds)
            return [("ok", Const(args[0].v if args else b""), state)]
        if name in ("min", "max") and len(args) >= 2 and all(isinstance(a, Const) and isinstance(a.v, int) for a in args):
            return [("ok", Const((min if name == "min" else max)(a.v for a in args)), state)]
        if isinstance(fval, tuple) and fval and fval[0] == "cmeth" and fval[2] == "join" and len(args) == 1 and not isinstance(args[0], Const):
            seq, st = self.consume(args[0], state)
            if seq is not None and all(isinstance(x, Const) and isinstance(x.v, type(fval[1].v)) for x in seq):
                return [("ok", Const(fval[1].v.join(x.v for x in seq)), st)]
            return [("ok", TOP, self.mark_imprecise(state, node))]
        r = self.coll_call(node, fval, args, kwargs, state)
        if r is not None:
            return r
        if isinstance(node.func, ast.Attribute) and node.func.attr == "recv" and fval == ("sockmeth", "recv"):
            # the socket itself: the next piece of the scenario, then b"" for good (the peer hung up).  The recv helper
            # and any wrapper around it (hang-up test, chunk generator) are interpreted like the readers themselves
            i = state.get("#pos", 0)
            if i > len(self.pieces) + 1:
                # the reader was already told twice that the peer hung up (an empty piece) and asks again: it spins
                return [("exc", Exc(ORD, "KeepsReadingAfterHangUp", node.lineno), state)]
            piece = self.pieces[i] if i < len(self.pieces) else b""
            return [("ok", Const(piece), state.set("#pos", i + 1))]
        if isinstance(fval, tuple) and fval and fval[0] == "cmeth":
            if fval[2] in ("extend", "append", "clear", "insert", "pop", "remove", "reverse"):
                return [("ok", TOP, self.mark_imprecise(state, node))]  # in-place change of a value followed as a constant
            r = fold_method(fval[1], fval[2], args, kwargs, node.lineno)
            if r is not None:
                return [(k, v, state) for k, v in r]
            return [("ok", TOP, self.mark_imprecise(state, node))]
        if isinstance(fval, FuncRef) and fval.name in self.fn.module.functions:
            res = self.inline(node, self.fn.module.functions[fval.name], args, kwargs, state)
            if res is not None:
                return res
        return [("ok", TOP, self.mark_imprecise(state, node))]


def compositions(s, max_cuts=None):
    """Every way to cut the byte string s into non-empty pieces (optionally at most max_cuts cuts)."""
    n = len(s)
    if n == 0:
        yield ()
        return
    for k in range(0, n if max_cuts is None else min(n, max_cuts + 1)):
        for cuts in itertools.combinations(range(1, n), k):
            b = (0,) + cuts + (n,)
            yield tuple(s[b[i] : b[i + 1]] for i in range(len(b) - 1))


def reader_kind(f):
    """'line' (sock, buf) / 'sized' (sock, buf, size: int) / 'token' (sock, buf, end_tokens: bytes) / None."""
    ps = [p for p in f.params]
    if len(ps) == 2:
        return "line", None
    if len(ps) == 3:
        third = ps[2]
        ann = None
        for a in f.node.args.posonlyargs + f.node.args.args:
            if a.arg == third.name and a.annotation is not None:
                ann = ast.unparse(a.annotation)
        if ann == "int" or (ann is None and third.name in ("size", "length", "nbytes", "n")):
            return "sized", third.name
        if ann == "bytes" or (ann is None and third.name in ("end_tokens", "end_token", "token", "terminator")):
            return "token", third.name
    return None, None


_ALPHA = (b"a", b"\r", b"\n")


def _strings(alpha, n):
    for t in itertools.product(alpha, repeat=n):
        yield b"".join(t)


def scenarios(kind, tier):
    """-> [(stream S, third argument or None, max_cuts)]"""
    out = []
    deep = tier == "thorough"
    if kind == "line":
        for n in range(0, 6 if deep else 5):
            for s in _strings(_ALPHA, n):
                out.append((s, None, None))
        for s in (b"STORED\r\n", b"ab\r\ncd\r\n", b"a\r\r\nb", b"\r\n\r\n", b"aa\raa\naa\r\nEND\r\n", b"VALUE k 0 1\r\nx\r\nEND\r\n"):
            out.append((s, None, None if len(s) <= 9 else 2))
    elif kind == "sized":
        for size in range(0, 4 if deep else 3):
            for data in _strings(_ALPHA, size):
                for tail in (b"", b"E", b"\r\n", b"END\r\n"):
                    s = data + b"\r\n" + tail
                    out.append((s, size, None if len(s) <= (7 if deep else 6) else 2))
                # the reply is cut short: every proper prefix of data + CR LF
                for cut in range(0, size + 2):
                    out.append(((data + b"\r\n")[:cut], size, None))
        for data in (b"abc", b"a\r\n", b"\r\na", b"\r\n\r", b"\n\n\n", b"abcdefgh", b"\r\n\r\n\r\n"):
            out.append((data + b"\r\nEND\r\n", len(data), 2))
            out.append((data + b"\r\n", len(data), None if len(data) <= 4 else 3))
    elif kind == "token":
        for tok in (b"\r\n", b"END\r\n", b"\r\nEND\r\n", b"\r\n\r\n", b"...", b"abab", b"aab"):
            bodies = {b"", b"x", b"config 1\n", tok[:1], tok[:-1], tok[:-1] + tok[:1], tok[:2] * 2, tok[:1] * 3, b"x" + tok[:-1] + b"y", tok[1:]}
            for body in sorted(bodies):
                for tail in (b"", b"z", tok):
                    s = body + tok + tail
                    out.append((s, tok, None if len(s) <= (9 if deep else 7) else 2))
                out.append((body + tok[:-1], tok, 2))  # never complete: the peer hangs up
    return out


def expected(kind, s_full, buf0, pieces, third):
    """-> ('ret', leftover, result, k) | ('eof',)"""
    acc = buf0
    for k in range(0, len(pieces) + 1):
        if k:
            acc = acc + pieces[k - 1]
        if kind == "sized":
            if len(acc) >= third + 2:
                return ("ret", acc[third + 2 :], acc[:third], k)
        else:
            tok = b"\r\n" if kind == "line" else third
            i = acc.find(tok)
            if i != -1:
                return ("ret", acc[i + len(tok) :], acc[:i], k)
    return ("eof",)


def run_reader(prog, f, sources, buf0, pieces, third_name, third):
    dom = SegDomain(prog, f, pieces, sources)
    ps = f.params
    env = {ps[0].name: Opaque("sock"), ps[1].name: Const(buf0)}
    if third_name is not None:
        env[third_name] = Const(third)
    outs = Interp(dom, f.node, prog).run(Env(env))
    res = []
    for s_, v, t in outs.of("ret"):
        res.append(("ret", deref(v, s_), s_.get("#pos", 0), bool(s_.get("#imprecise", 0))))
    for s_, e, t in outs.of("exc"):
        res.append(("exc", e.cls, s_.get("#pos", 0), bool(s_.get("#imprecise", 0))))
    return res


def judge(kind, want, res):
    """-> ('ok' | 'fail' | 'undecided', text)"""
    if not res:
        return "undecided", "no outcome (the interpretation did not terminate within its bounds)"
    if any(r[3] for r in res) or len(res) != 1:
        return "undecided", "not evaluated exactly (%d outcomes%s)" % (len(res), ", a value the interpreter cannot compute" if any(r[3] for r in res) else "")
    r = res[0]
    if r[0] == "ret" and has_top(r[1]):
        return "undecided", "returns a value the interpreter cannot compute exactly"
    if want[0] == "eof":
        if r[0] == "exc" and r[1] == "KeepsReadingAfterHangUp":
            return "fail", "keeps asking for more after the peer hung up (an empty piece) instead of raising: the call spins forever"
        if r[0] == "exc":
            return "ok", ""
        return "fail", "returns %s although the terminator never arrived and the peer hung up" % (_show(r[1]),)
    _, left, result, k = want
    if r[0] == "exc":
        return "fail", "raises %s (after asking for %d piece(s)) although the complete reply had arrived with piece %d" % (r[1], r[2], k)
    v = r[1]
    if not (isinstance(v, TupleV) and len(v.items) == 2 and all(isinstance(x, Const) and isinstance(x.v, (bytes, bytearray)) for x in v.items)):
        return "fail", "returns %s, not a (leftover, result) pair of byte strings" % (_show(v),)
    got_left, got_res = bytes(v.items[0].v), bytes(v.items[1].v)
    if got_res != result:
        return "fail", "returns the result %r where %r was sent" % (got_res, result)
    if r[2] != k:
        return "fail", "asks for %d piece(s) where the reply was complete after %d: %s" % (r[2], k, "it waits for bytes the server will not send" if r[2] > k else "impossible")
    if got_left != left:
        return "fail", "hands back the leftover %r where %r was received beyond the terminator" % (got_left, left)
    return "ok", ""


def _show(v):
    if isinstance(v, TupleV):
        return "(%s)" % ", ".join(_show(x) for x in v.items)
    if isinstance(v, Const):
        return repr(v.v)
    return str(v)


def _work(args):
    root, overlay, fname, kind, third_name, sources, chunk = args
    from . import model

    prog = model.Program(root=root, overlay=overlay)
    f = prog.module("pymemcache/client/base.py").functions[fname]
    out = []
    n = 0
    for s, third, max_cuts in chunk:
        for parts in compositions(s, max_cuts):
            for nbuf in (0, 1):
                if nbuf > len(parts):
                    continue
                buf0 = b"".join(parts[:nbuf])
                pieces = parts[nbuf:]
                n += 1
                want = expected(kind, s, buf0, pieces, third)
                try:
                    res = run_reader(prog, f, sources, buf0, pieces, third_name, third)
                except RecursionError:
                    res = []
                st, text = judge(kind, want, res)
                if st != "ok":
                    out.append((st, text, buf0, pieces, third))
    return fname, n, out


def segmentation_rows(prog, reader_fns, sources, tier="quick", jobs=16):
    """-> {reader name: (kind, rows evaluated, [(status, text, buf0, pieces, third)])}"""
    from concurrent.futures import ProcessPoolExecutor

    work, kinds = [], {}
    for f in reader_fns:
        kind, third_name = reader_kind(f)
        kinds[f.name] = kind
        if kind is None:
            continue
        sc = scenarios(kind, tier)
        nchunks = max(1, min(jobs, len(sc) // 20))
        for i in range(nchunks):
            work.append((prog.root, prog.overlay, f.name, kind, third_name, sorted(sources), sc[i::nchunks]))
    res = {f.name: [kinds[f.name], 0, []] for f in reader_fns}
    if work:
        if jobs > 1 and len(work) > 1:
            with ProcessPoolExecutor(min(jobs, len(work))) as ex:
                results = list(ex.map(_work, work))
        else:
            results = [_work(w) for w in work]
        for fname, n, out in results:
            res[fname][1] += n
            res[fname][2] += out
    return {k: tuple(v) for k, v in res.items()}
