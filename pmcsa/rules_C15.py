"""C15 - serializers round-trip every value with its exact type (partial: flag algebra, dispatch tables, type flow)."""
import ast
import itertools
from collections import namedtuple

from .model import AnalysisError, NotConst, fold, node_src, is_self_attr, call_name
from .colls import ExactCollections
from .paths import Interp, Domain, Env, TOP, NONE, Const, TupleV, Exc, ORD, fmt_trace, Opaque, FuncRef, Ctx
from .report import walk_no_nested

LEVEL = "other"
LEVEL_TEXT = (
    "The serializers touch a value only through its exact type and hand it to library encoders, so the dispatch is "
    "evaluated abstractly over exact-type classes: which encoder and flags the writer picks, which decoder the reader "
    "picks for those flags (with and without the COMPRESSED bit), whether the pair is an inverse pair that preserves "
    "that type, and what type reaches the wire/compressor; the compression decision is evaluated over all orderings of "
    "(len(value) vs threshold, threshold vs 0, len(compressed) vs len(value)). Library round trips (pickle, codecs, "
    "zlib) and equality of arbitrary objects are trusted/not decided. R7: no serializer function keeps state between "
    "calls (caching decorators, globals, module-level objects), so a deserialized value is never a shared object."
)
TRUSTED = ["CPython ast", "pmcsa/paths.py", "pickle.dump/load, str.encode/bytes.decode(utf8), b'%d' % int / int(bytes) are inverse pairs on their domains", "type-class tables in pmcsa/rules_C15.py"]

SER = "pymemcache/serde.py"
TypeTag = namedtuple("TypeTag", "name")
Enc = namedtuple("Enc", "kind param src")  # encoder output
Dec = namedtuple("Dec", "kind param")
Sym = namedtuple("Sym", "name")
LenOf = namedtuple("LenOf", "of")
Comp = namedtuple("Comp", "of")
Decomp = namedtuple("Decomp", "of")
FlagOr = namedtuple("FlagOr", "base bits")
Obj = namedtuple("Obj", "kind a b")
PartialV = namedtuple("PartialV", "fn args kwargs")

# exact-type classes: name -> (is exact builtin?, base)
TYPES = ["bytes", "str", "int", "bool", "float", "NoneType", "list", "dict", "tuple", "MyStr(str)", "MyInt(int)", "MyBytes(bytes)", "object"]


class SerDomain(ExactCollections, Domain):
    async_enabled = False
    subscript_may_raise = False
    unpack_may_raise = False

    def __init__(self, prog, fn, tag=None):
        super().__init__(prog, fn)
        self.tag = tag
        self.module = fn.module
        self.value_tests = []

    def name_load(self, name, state, node=None):
        if state.has(name):
            return state.get(name)
        if name in ("bytes", "str", "int", "bool", "float", "list", "dict", "tuple", "object", "bytearray"):
            return TypeTag(name)
        if name in self.module.functions:
            return FuncRef(name)
        if name in self.module.assigns:
            try:
                return Const(self.module.const(name))
            except NotConst:
                # not a literal constant (e.g. a dispatch table that mentions functions): evaluate the display
                expr = self.module.assigns[name]
                if isinstance(expr, (ast.Tuple, ast.List)) and all(isinstance(n, (ast.Tuple, ast.List, ast.Constant, ast.Name, ast.Load, ast.expr_context)) for n in ast.walk(expr)) and not getattr(self, "_in_table", False):
                    self._in_table = True
                    try:
                        oks, excs = Interp(self, self.fn.node, self.prog).ev(_as_tuples(expr), Env(), Ctx(self.fn.node))
                    finally:
                        self._in_table = False
                    if len(oks) == 1 and not excs:
                        return oks[0][0]
                return Opaque("module:" + name)
        return TOP

    def never_none(self, v):
        return isinstance(v, (TypeTag, FuncRef, PartialV, Obj)) or super().never_none(v)

    def truth(self, v, state=None):
        if isinstance(v, (TypeTag, FuncRef, PartialV)):
            return True
        return super().truth(v, state)

    def attr_load(self, objval, node, state):
        b = self.coll_attr(objval, node) if not isinstance(objval, TupleV) else None
        if b is not None:
            return b
        if isinstance(node.value, ast.Name) and node.value.id in ("pickle", "zlib"):
            return Opaque("%s.%s" % (node.value.id, node.attr))
        if is_self_attr(node):
            return state.get("self." + node.attr, TOP)
        if objval is TOP:
            return TOP
        return ("meth", objval, node.attr)

    def compare(self, node, op, l, r, state):
        if isinstance(l, TypeTag) and isinstance(r, TypeTag) and isinstance(op, (ast.Is, ast.IsNot, ast.Eq, ast.NotEq)):
            eq = l.name == r.name
            return Const(eq if isinstance(op, (ast.Is, ast.Eq)) else not eq)
        if isinstance(l, TypeTag) and isinstance(op, (ast.In, ast.NotIn)) and isinstance(r, TupleV):
            res = any(isinstance(x, TypeTag) and x.name == l.name for x in r.items)
            return Const(res if isinstance(op, ast.In) else not res)
        for v in (l, r):
            if v == Sym("value"):
                # a test on the value itself (not on its exact type)
                ident = isinstance(op, (ast.Is, ast.IsNot))
                self.value_tests.append((node, ident))
                return TOP
        return super().compare(node, op, l, r, state)

    def refine_compare(self, node, op, lexpr, l, rexpr, r, branch, state):
        if l == Sym("value") or r == Sym("value"):
            ident = isinstance(op, (ast.Is, ast.IsNot))
            return state.set("#value_test", state.get("#value_test", ()) + ((node_src(node), ident, branch),))
        return state

    def binop(self, node, l, r, state):
        if isinstance(node.op, ast.Mod) and isinstance(l, Const) and isinstance(l.v, (bytes, str)) and r == Sym("value"):
            return Enc("fmt", l.v, Sym("value"))
        if isinstance(node.op, (ast.BitOr, ast.BitAnd)) and isinstance(l, Const) and isinstance(r, Const):
            return super().binop(node, l, r, state)
        return super().binop(node, l, r, state)

    def call(self, node, fval, args, kwargs, state):
        name = call_name(node)
        if name == "type" and args and args[0] == Sym("value"):
            return [("ok", TypeTag(self.tag), state)]
        if name == "isinstance" and len(args) == 2 and args[0] == Sym("value"):
            t = args[1]
            names = [x.name for x in t.items if isinstance(x, TypeTag)] if isinstance(t, TupleV) else ([t.name] if isinstance(t, TypeTag) else [])
            base = self.tag.split("(")[1].rstrip(")") if "(" in self.tag else None
            chain = [self.tag, base] + (["int"] if self.tag == "bool" else [])
            return [("ok", Const(any(n in chain for n in names)), state)]
        if name == "BytesIO":
            return [("ok", Obj("bytesio", args[0] if args else None, state.get("_nobj", 0)), state)]
        if fval == Opaque("pickle.Pickler"):
            return [("ok", Obj("pickler", args[0] if args else None, args[1] if len(args) > 1 else kwargs.get("protocol", NONE)), state)]
        if fval == Opaque("pickle.Unpickler"):
            return [("ok", Obj("unpickler", args[0] if args else None, _unpickle_opts(kwargs)), state)]
        if fval in (Opaque("pickle.dumps"),):
            return [("ok", Enc("pickle", args[1] if len(args) > 1 else kwargs.get("protocol", NONE), args[0] if args else None), state)]
        if fval in (Opaque("pickle.loads"),):
            return [("ok", Dec("unpickle", _unpickle_opts(kwargs)) if args and args[0] == Sym("stored") else TOP, state)]
        if isinstance(fval, tuple) and fval and fval[0] == "meth":
            _, obj, attr = fval
            if isinstance(obj, Obj) and obj.kind == "pickler" and attr == "dump":
                out = obj.a
                return [("ok", NONE, state.set(("written", out), Enc("pickle", obj.b, args[0] if args else None)))]
            if isinstance(obj, Obj) and obj.kind == "bytesio" and attr == "getvalue":
                return [("ok", state.get(("written", obj), Const(b"")), state)]
            if isinstance(obj, Obj) and obj.kind == "unpickler" and attr == "load":
                src = obj.a
                ok = isinstance(src, Obj) and src.kind == "bytesio" and src.a == Sym("stored")
                return [("ok", Dec("unpickle", obj.b) if ok else TOP, state)]
            if obj in (Sym("value"), Sym("stored")) and attr in ("encode", "decode"):
                cod = args[0] if args else kwargs.get("encoding", Const("utf-8"))
                err = args[1] if len(args) > 1 else kwargs.get("errors", Const("strict"))
                if not (isinstance(cod, Const) and isinstance(err, Const)) or len(args) > 2 or set(kwargs) - {"encoding", "errors"}:
                    return [("ok", TOP, state)]
                # an error handler other than 'strict' makes the codec lossy: what cannot be en/decoded is replaced or
                # dropped instead of rejected, so the pair is no longer an inverse pair on what it accepts
                par = cod.v if err.v == "strict" else "%s, errors=%r" % (cod.v, err.v)
                if obj == Sym("value") and attr == "encode":
                    return [("ok", Enc("encode", par, Sym("value")), state)]
                if obj == Sym("stored") and attr == "decode":
                    return [("ok", Dec("decode", par), state)]
        if (name == "int" or fval == TypeTag("int")) and args and args[0] == Sym("stored"):
            return [("ok", Dec("int", None), state)]
        if (name == "str" or fval == TypeTag("str")) and args and args[0] == Sym("value"):
            return [("ok", Enc("str", None, Sym("value")), state)]
        r = self.coll_call(node, fval, args, kwargs, state)
        if r is not None:
            return r
        if name.startswith("logging."):
            return [("ok", NONE, state)]
        if name in ("partial", "functools.partial") and args and isinstance(args[0], FuncRef):
            return [("ok", PartialV(args[0].name, tuple(args[1:]), tuple(sorted(kwargs.items()))), state)]
        target, pargs, pkw = None, (), {}
        if isinstance(fval, FuncRef):
            target = fval.name
        elif isinstance(fval, PartialV):
            target, pargs, pkw = fval.fn, fval.args, dict(fval.kwargs)
        if target in self.module.functions:
            # a module-level function (an extracted pickling / unpickling step, or the serializer reached through a
            # partial stored on the instance): interpreted in line
            kw = dict(pkw)
            kw.update(kwargs)
            res = self.inline(node, self.module.functions[target], list(pargs) + list(args), kw, state)
            if res is not None:
                return res
        return [("ok", TOP, state)]


def _as_tuples(expr):
    """A module-level list/tuple display as nested tuples (an immutable table: no heap object needed)."""
    if isinstance(expr, (ast.Tuple, ast.List)):
        return ast.copy_location(ast.Tuple(elts=[_as_tuples(x) for x in expr.elts], ctx=ast.Load()), expr)
    return expr


def _unpickle_opts(kwargs):
    """Non-default keyword options of pickle.loads / pickle.Unpickler, or None."""
    defaults = {"fix_imports": True, "encoding": "ASCII", "errors": "strict", "buffers": None}
    out = []
    for k, v in sorted(kwargs.items()):
        if k.startswith("**"):
            out.append((k, "?"))
        elif not (isinstance(v, Const) and k in defaults and v.v == defaults[k]):
            out.append((k, v.v if isinstance(v, Const) else str(v)))
    return tuple(out) or None


def has_top_(v):
    if v is TOP:
        return True
    if isinstance(v, TupleV):
        return any(has_top_(x) for x in v.items)
    return False


def codec(c):
    return str(c).lower().replace("-", "").replace("_", "")


def out_type(enc):
    """Python type of the serialized form."""
    if enc == Sym("value"):
        return "same-as-input"
    if isinstance(enc, Enc):
        if enc.kind == "encode":
            return "bytes"
        if enc.kind == "fmt":
            return "bytes" if isinstance(enc.param, bytes) else "str"
        if enc.kind == "pickle":
            return "bytes"
        if enc.kind == "str":
            return "str"
    return "unknown"


def inverse_ok(tag, enc, dec):
    """Is (enc, dec) an inverse pair that preserves the exact type `tag`?  -> (ok, why)"""
    if enc == Sym("value"):
        if dec != Sym("stored"):
            return False, "stored as is but decoded with %s" % (dec,)
        return (tag == "bytes"), "only exact bytes may be stored as is (a %s would come back as bytes)" % tag
    if not isinstance(enc, Enc):
        return False, "the serialized form %s does not derive from the value" % (enc,)
    if enc.src != Sym("value"):
        return False, "the serialized form is not computed from the value itself"
    if enc.kind == "encode":
        ok = isinstance(dec, Dec) and dec.kind == "decode" and codec(dec.param) == codec(enc.param) and "errors=" not in str(enc.param) + str(dec.param)
        return (ok and tag == "str"), (("an error handler other than 'strict' replaces or drops what cannot be converted instead of rejecting it, so the value that comes back is not the one stored (encode(%s), decoder %s%s)" % (enc.param, dec, "" and tag)) if "errors=" in str(enc.param) + str(getattr(dec, "param", "")) else ("encode(%s) must be undone by decode(%s) and used for exact str only (type %s, decoder %s)" % (enc.param, enc.param, tag, dec)))
    if enc.kind == "fmt":
        ok = isinstance(dec, Dec) and dec.kind == "int" and (enc.param in (b"%d", "%d"))
        return (ok and tag == "int"), "decimal text must be undone by int() and used for exact int only (type %s: a bool or int subclass would come back as int; decoder %s)" % (tag, dec)
    if enc.kind == "pickle":
        ok = isinstance(dec, Dec) and dec.kind == "unpickle"
        if ok and dec.param is not None:
            return False, "the unpickler is given non-default options %s that the pickler does not mirror: for some protocols / values what was written cannot be read back (e.g. fix_imports=False drops the Python 2 module-name mapping that protocol <= 2 pickles of builtins rely on)" % (dict(dec.param),)
        return ok, "a pickled value must be unpickled (decoder %s)" % (dec,)
    return False, "unknown encoder %s" % (enc,)


def run(chk):
    prog = chk.prog
    mod = prog.module(SER)
    # ------------------------------------------------------------------ R1 flag algebra
    r1 = chk.rule("C15.R1", "flag algebra: FLAG_* are distinct single bits (FLAG_BYTES = 0), all producible flags values are below 2**16")
    flags = {}
    for name in mod.assigns:
        if name.startswith("FLAG_"):
            try:
                flags[name] = mod.const(name)
            except NotConst:
                r1.fail("serde:%s-not-constant" % name, "%s is not a constant" % name, file=SER, line=mod.assigns[name].lineno)
    r1.floor("FLAG_ constants", len(flags), 6)
    r1.expect(flags.get("FLAG_BYTES") == 0, "FLAG_BYTES == 0", "serde:FLAG_BYTES", "FLAG_BYTES is %s, not 0" % flags.get("FLAG_BYTES"), file=SER, line=1)
    nz = {k: v for k, v in flags.items() if k != "FLAG_BYTES"}
    for k, v in sorted(nz.items()):
        ok = isinstance(v, int) and v > 0 and v & (v - 1) == 0 and v < 2**16
        r1.expect(ok, "%s = %s is a single bit below 2**16" % (k, v), "serde:%s-not-a-bit" % k, "%s = %s is not a single bit below 2**16" % (k, v), file=SER, line=mod.assigns[k].lineno)
    dup = [(a, b) for a, b in itertools.combinations(sorted(nz), 2) if nz[a] == nz[b]]
    r1.expect(not dup, "flag bits are pairwise distinct", "serde:flag-bits-collide", "flags share a bit: %s - the reader cannot tell the encodings apart" % dup, file=SER, line=1)

    # ------------------------------------------------------------------ R2/R3/R4 dispatch tables
    r2 = chk.rule("C15.R2", "writer/reader agreement: for every exact-type class the decoder selected by the produced flags (with and without COMPRESSED) is the inverse of the encoder used")
    r3 = chk.rule("C15.R3", "exact-type dispatch: non-pickle encodings are used only for the exact builtin types; the serialized form is a function of the value")
    r4 = chk.rule("C15.R4", "transmit type flow: every serializer branch yields bytes; only bytes reach the compressor")
    ser = prog.function(SER, "_python_memcache_serializer")
    des = prog.function(SER, "python_memcache_deserializer")
    COMPRESSED = flags.get("FLAG_COMPRESSED", 8)
    produced = {}
    n_rows = 0
    for tag in TYPES:
        dom = SerDomain(prog, ser, tag)
        params = [p.name for p in ser.pos_params()]
        outs = Interp(dom, ser.node, prog).run(Env({params[0]: Sym("key"), params[1]: Sym("value"), params[2]: Sym("pickle_version")}))
        rets = outs.of("ret")
        if not rets or outs.of("exc"):
            r2.fail("_python_memcache_serializer:no-result:%s" % tag, "serializer has no normal result for type %s" % tag, fn=ser)
            continue
        for s, v, t in rets:
            n_rows += 1
            if not (isinstance(v, TupleV) and len(v.items) == 2 and isinstance(v.items[1], Const) and isinstance(v.items[1].v, int)):
                r2.fail("_python_memcache_serializer:result-shape:%s" % tag, "for type %s the serializer returns %s, not (data, constant flags)" % (tag, v), fn=ser)
                continue
            enc, fl = v.items[0], v.items[1].v
            vt = s.get("#value_test", ())
            nonident = [x for x in vt if not x[1]]
            vnote = (" (this path is selected by `%s`, an equality/ordering test on the value rather than on its exact type: values that merely compare equal - 0.0, 1.0, Decimal(1), a subclass instance - take it too)" % nonident[0][0]) if nonident else ""
            r1.expect(0 <= fl < 2**16, "flags %d for %s within 16 bits" % (fl, tag), "serde:flags-out-of-range:%s" % tag, "flags %d produced for %s do not fit 16 bits" % (fl, tag), fn=ser)
            produced[(tag, fl)] = enc
            ot = out_type(enc)
            ot = tag if ot == "same-as-input" else ot
            r4.expect(ot == "bytes", "serialized form of %s is bytes" % tag, "_python_memcache_serializer:non-bytes-output:%s" % tag, "for an exact %s the serializer returns a %s: the client can only transmit it after str().encode(), and CompressedSerde passes it to the compressor, which raises TypeError for anything but bytes (e.g. an int with more digits than min_compress_len)" % (tag, ot), fn=ser)
            for extra in (0, COMPRESSED):
                d = SerDomain(prog, des, tag)
                dp = [p.name for p in des.pos_params()]
                o2 = Interp(d, des.node, prog).run(Env({dp[0]: Sym("key"), dp[1]: Sym("stored"), dp[2]: Const(fl | extra)}))
                rr = o2.of("ret")
                decs = {v2 for s2, v2, t2 in rr if v2 != NONE or True}
                decs = {v2 for v2 in decs if not (v2 == NONE and len(decs) > 1)}
                if len(decs) != 1:
                    r2.fail("python_memcache_deserializer:ambiguous:%s" % tag, "for flags %d the deserializer has results %s" % (fl | extra, decs), fn=des)
                    continue
                dec = next(iter(decs))
                ok, why = inverse_ok(tag, enc, dec)
                rule = r2
                construct = "serde:%s:flags-%d%s" % (tag, fl, "+COMPRESSED" if extra else "")
                if ok:
                    rule.ok("%s -> flags %d%s -> %s / %s" % (tag, fl, "|COMPRESSED" if extra else "", _e(enc), _e(dec)), sample=(n_rows < 4))
                else:
                    # attribute to R3 when the encoder choice itself is wrong for the type, to R2 when the decoder disagrees
                    enc_ok_for_type = inverse_ok(tag, enc, _ideal_dec(enc))[0]
                    (r2 if enc_ok_for_type else r3).fail(construct, "exact type %s is written as %s with flags %d and read back%s through %s: %s" % (tag, _e(enc), fl, " (COMPRESSED bit still set, as CompressedSerde passes it)" if extra else "", _e(dec), why + vnote), fn=ser if not enc_ok_for_type else des)
    r2.floor("writer rows (type class x path)", n_rows, 13)

    # ------------------------------------------------------------------ R7 no memory between calls
    r7 = chk.rule("C15.R7", "the (de)serializers keep nothing from one call to the next: no caching decorator, no global, no module-level or default-argument object written - what deserialize returns is a new value computed from the stored bytes alone")
    from .report import memory_between_calls

    n_f = 0
    mod = prog.module(SER)
    funcs = list(mod.functions.values()) + [m_ for c_ in mod.classes.values() for m_ in c_.methods.values()]
    for f in funcs:
        n_f += 1
        probs = memory_between_calls(f)
        if f.cls is not None and f.name != "__init__":
            # the serde objects are configuration: their methods do not write instance state either
            for n in ast.walk(f.node):
                if isinstance(n, ast.Attribute) and isinstance(n.ctx, (ast.Store, ast.Del)) and isinstance(n.value, ast.Name) and n.value.id == "self":
                    probs.append((n, "writes self.%s" % n.attr))
                if isinstance(n, ast.Subscript) and isinstance(n.ctx, (ast.Store, ast.Del)) and is_self_attr(n.value):
                    probs.append((n, "writes into self.%s" % n.value.attr))
        for n, what in probs:
            r7.fail("%s:memory:%s" % (f.qualname, what.split(":")[0].split("`")[0].strip().replace(" ", "-")[:40]), "%s %s: two reads of the same item can return one shared object (a caller that changes what it got changes what every later reader gets), or an answer that depends on earlier calls" % (f.qualname, what), fn=f, node=n)
        if not probs:
            r7.ok("%s keeps no state between calls" % f.qualname, sample=False)
    r7.floor("functions of serde.py inspected", n_f, 8)

    # ------------------------------------------------------------------ R8 the default serde is the identity
    r8 = chk.rule("C15.R8", "the serde a client gets when none is configured (LegacyWrappingSerde without functions) stores the value as it is with flags 0 and hands the stored bytes back as they are - whatever the value (empty, falsy); a given function takes the place of its default only")
    lw = prog.classes.get("LegacyWrappingSerde")
    if lw is None:
        r8.undecided("LegacyWrappingSerde:missing", "the default serde class was not found")
    else:
        init = lw.methods.get("__init__")
        defaults = {}
        if init is not None:
            ip = ["self"] + [p_.name for p_ in init.pos_params() if p_.name != "self"]
            for n in walk_no_nested(init.node):
                if isinstance(n, ast.Assign) and len(n.targets) == 1 and is_self_attr(n.targets[0]) and n.targets[0].attr in ("serialize", "deserialize"):
                    v = n.value
                    # `given or self._default_x` / `self._default_x if given is None else given`
                    names = [x.attr for x in ast.walk(v) if isinstance(x, ast.Attribute) and is_self_attr(x)]
                    params = [x.id for x in ast.walk(v) if isinstance(x, ast.Name) and x.id in ip and x.id != "self"]
                    want_param = ip[1] if n.targets[0].attr == "serialize" and len(ip) > 1 else (ip[2] if len(ip) > 2 else None)
                    ok = len(names) == 1 and names[0] in lw.methods and set(params) == {want_param}
                    if isinstance(v, ast.BoolOp) and isinstance(v.op, ast.Or) and ok:
                        defaults[n.targets[0].attr] = names[0]
                    elif isinstance(v, ast.IfExp) and ok:
                        defaults[n.targets[0].attr] = names[0]
                    else:
                        r8.undecided("LegacyWrappingSerde.__init__:%s" % n.targets[0].attr, "how `%s` chooses between the given function and the default is not of a form the analysis reads" % node_src(n, 80))
        for which in ("serialize", "deserialize"):
            if which not in defaults:
                if which in lw.methods:
                    defaults[which] = which  # the class defines the method itself
                elif not any(k.startswith("LegacyWrappingSerde.__init__:" + which) for k, m_ in chk.undecided):
                    r8.fail("LegacyWrappingSerde.__init__:%s-not-set" % which, "LegacyWrappingSerde.__init__ does not provide `%s`" % which, fn=init)
                    continue
                else:
                    continue
            f = lw.methods[defaults[which]]
            ps = ["self"] + [p_.name for p_ in f.pos_params() if p_.name != "self"]
            class _Id(Domain):
                async_enabled = False
                def name_load(self_, name, state, node=None):
                    return state.get(name) if state.has(name) else TOP
                def truth(self_, v, state=None):
                    return None  # nothing is known about the value: both outcomes of every test on it
                def call(self_, node, fval, args, kwargs, state):
                    return [("ok", TOP, state)]
            env = {p_: Sym(p_) for p_ in ps}
            outs = Interp(_Id(prog, f), f.node, prog).run(Env(env))
            rets = {v for s_, v, t in outs.of("ret")}
            if which == "serialize":
                want = {TupleV((Sym(ps[2]), Const(0)))} if len(ps) >= 3 else None
            else:
                want = {Sym(ps[2])} if len(ps) >= 4 else None
            if want is None:
                r8.fail("LegacyWrappingSerde.%s:signature" % f.name, "%s does not take (key, value%s)" % (f.qualname, "" if which == "serialize" else ", flags"), fn=f)
            elif rets == want and not outs.of("exc"):
                r8.ok("default %s: %s" % (which, "(value, 0)" if which == "serialize" else "the stored bytes"))
            elif any(has_top_(v) for v in rets):
                r8.undecided("LegacyWrappingSerde.%s:identity" % f.name, "%s returns %s: not followed exactly" % (f.qualname, sorted(map(str, rets))))
            else:
                r8.fail("LegacyWrappingSerde.%s:identity" % f.name, "without a configured %s function the client %s: %s returns %s on some path instead of %s - a value that is empty or falsy, or of a particular type, does not come back as it was stored" % (which, "stores something else than the value it was given (or other flags than 0)" if which == "serialize" else "hands back something else than the stored bytes", f.qualname, sorted(map(str, rets)) + sorted({str(e.cls) for s_, e, t in outs.of("exc")}), "(value, 0)" if which == "serialize" else "the stored value", ), fn=f, node=f.node)

    # ------------------------------------------------------------------ R5 compression decision
    r5 = chk.rule("C15.R5", "compression decision over all orderings: COMPRESSED is set iff the compressor's output is what is stored; the stored form is never longer than the uncompressed one; decompress iff the bit is set")
    cs = prog.cls("CompressedSerde")
    sfn = prog.method(cs, "serialize")
    n_c = 0
    for r_len, r_min, r_comp in itertools.product(("lt", "eq", "gt"), ("le", "gt"), ("lt", "eq", "gt")):
        dom = CompDomain(prog, sfn, r_len, r_min, r_comp, COMPRESSED)
        sp = [p.name for p in sfn.pos_params()]
        outs = Interp(dom, sfn.node, prog).run(Env({sp[0]: Sym("key"), sp[1]: Sym("value")}))
        n_c += 1
        for s, v, t in outs.of("ret"):
            if not (isinstance(v, TupleV) and len(v.items) == 2):
                r5.fail("CompressedSerde.serialize:result-shape", "serialize returns %s" % (v,), fn=sfn)
                continue
            val, fl = v.items
            is_comp = val == Comp(Sym("inner"))
            flagged = isinstance(fl, FlagOr) and fl.bits & COMPRESSED
            row = "len(value) %s threshold, threshold %s 0, len(compressed) %s len(value)" % ({"lt": "<", "eq": "==", "gt": ">"}[r_len], {"le": "<=", "gt": ">"}[r_min], {"lt": "<", "eq": "==", "gt": ">"}[r_comp])
            if val not in (Comp(Sym("inner")), Sym("inner")):
                r5.fail("CompressedSerde.serialize:stores-other-value", "serialize stores %s (%s)" % (val, row), fn=sfn)
            r5.expect(bool(flagged) == bool(is_comp), "flag <=> compressed form stored (%s)" % row, "CompressedSerde.serialize:flag-mismatch:%s" % ("flag-without-compression" if flagged else "compression-without-flag"), "for %s the item is stored %s but %s COMPRESSED: %s" % (row, "compressed" if is_comp else "uncompressed", "flagged" if flagged else "not flagged", "the reader will try to decompress raw data and fail" if flagged else "the reader returns compressed bytes as the value"), fn=sfn, witness=fmt_trace(t))
            if is_comp:
                r5.expect(r_comp in ("lt", "eq"), "compressed form stored only when not longer (%s)" % row, "CompressedSerde.serialize:stores-larger-form", "for %s the compressed form is stored although it is longer than the uncompressed one" % row, fn=sfn, witness=fmt_trace(t))
            for node, a in dom.compress_args:
                if a != Sym("inner"):
                    r5.fail("CompressedSerde.serialize:compresses-other-value", "the compressor is applied to %s rather than the inner serializer's output" % (a,), fn=sfn, node=node)
    r5.count("orderings evaluated", n_c)
    dfn = prog.method(cs, "deserialize")
    for bit in (True, False):
        dom = CompDomain(prog, dfn, "gt", "gt", "lt", COMPRESSED, flag_set=bit)
        dp = [p.name for p in dfn.pos_params()]
        outs = Interp(dom, dfn.node, prog).run(Env({dp[0]: Sym("key"), dp[1]: Sym("stored"), dp[2]: Sym("flags")}))
        for s, v, t in outs.of("ret"):
            calls = dom.inner_deser
            ok = len(calls) >= 1 and all(a[1] == (Decomp(Sym("stored")) if bit else Sym("stored")) and a[0] == Sym("key") for a in calls)
            r5.expect(ok, "deserialize: decompress iff the bit is set (%s), then delegate with the same key" % bit, "CompressedSerde.deserialize:decompress-%s" % ("missing" if bit else "spurious"), "with COMPRESSED %s the inner deserializer receives %s" % ("set" if bit else "clear", [a[1] for a in calls]), fn=dfn, witness=fmt_trace(t))
            okf = all(a[2] == Sym("flags") or a[2] == ("masked", COMPRESSED) for a in calls)
            if not okf and all(a[2] == Sym("flags") or a[2] == ("masked", COMPRESSED) or a[2] is TOP for a in calls):
                # the flags were computed in a way this domain has no transformer for: no verdict
                r5.undecided("CompressedSerde.deserialize:flags-changed", "the flags handed to the inner deserializer are computed in a way the analysis does not follow (%s)" % [a[2] for a in calls])
                continue
            r5.expect(okf, "deserialize passes the flags on", "CompressedSerde.deserialize:flags-changed", "the inner deserializer receives flags %s" % [a[2] for a in calls], fn=dfn)
    # what reaches the compressor is what the inner serde returned; its type is bytes by R4
    # ------------------------------------------------------------------ R6 pickle protocol wiring
    r6 = chk.rule("C15.R6", "the pickle_version given to PickleSerde / get_python_memcache_serializer is the protocol passed to pickle.Pickler")
    ps = prog.cls("PickleSerde")
    init = prog.method(ps, "__init__")
    ps_ser = prog.method(ps, "serialize")
    ps_des = prog.method(ps, "deserialize")
    # interpreted: PickleSerde(pickle_version=pv).serialize(key, <object>) must pickle with protocol pv, and
    # .deserialize(key, stored, FLAG_PICKLE) must unpickle
    d0 = SerDomain(prog, init, "object")
    ip = [p.name for p in init.pos_params()]
    o0 = Interp(d0, init.node, prog).run(Env({ip[0]: Sym("pickle_version")}) if ip else Env())
    protos, problems = set(), []
    for s0, v0, t0 in o0.of("ret"):
        inst = {k: v for k, v in s0.d.items() if isinstance(k, str) and k.startswith("self.")}
        d1 = SerDomain(prog, ps_ser, "object")
        sp = [p.name for p in ps_ser.pos_params()]
        env = dict(inst)
        env.update({sp[0]: Sym("key"), sp[1]: Sym("value")})
        for s1, v1, t1 in Interp(d1, ps_ser.node, prog).run(Env(env)).of("ret"):
            enc = v1.items[0] if isinstance(v1, TupleV) and len(v1.items) == 2 else None
            if isinstance(enc, Enc) and enc.kind == "pickle":
                protos.add(enc.param)
            else:
                problems.append("serialize returns %s for an arbitrary object" % (v1,))
    if not o0.of("ret"):
        problems.append("PickleSerde.__init__ does not complete")
    ok6 = not problems and protos == {Sym("pickle_version")}
    r6.expect(ok6, "PickleSerde(pickle_version).serialize pickles with exactly that protocol", "serde:pickle-version-wiring", "the configured pickle protocol does not reach the pickler: an object is pickled with protocol %s%s" % (sorted(map(str, protos)) or "<nothing>", ("; " + "; ".join(problems)) if problems else ""), fn=ser)
    d2 = SerDomain(prog, ps_des, "object")
    dp = [p.name for p in ps_des.pos_params()]
    o2 = Interp(d2, ps_des.node, prog).run(Env({dp[0]: Sym("key"), dp[1]: Sym("stored"), dp[2]: Const(flags.get("FLAG_PICKLE", 1))}))
    decs = {v for s2, v, t in o2.of("ret")}
    ok = bool(decs) and all(isinstance(v, Dec) and v.kind == "unpickle" or v == NONE for v in decs) and any(isinstance(v, Dec) for v in decs)
    r6.expect(ok, "PickleSerde.deserialize(.., FLAG_PICKLE) unpickles", "PickleSerde:pairing", "PickleSerde.deserialize does not unpickle an item written with FLAG_PICKLE (it yields %s)" % sorted(map(str, decs)), fn=ps_des)
    chk.assume("pickle, utf8 encode/decode, decimal text/int and the configured compressor are inverse pairs on their domains (library semantics)")
    chk.assume("the inner serde of CompressedSerde is one whose output type is decided by R4 (pickle_serde by default)")


class CompDomain(Domain):
    async_enabled = False
    subscript_may_raise = False
    unpack_may_raise = False

    def __init__(self, prog, fn, r_len, r_min, r_comp, bit, flag_set=None):
        super().__init__(prog, fn)
        self.r_len, self.r_min, self.r_comp, self.bit = r_len, r_min, r_comp, bit
        self.flag_set = flag_set
        self.compress_args = []
        self.inner_deser = []
        self.module = fn.module

    def name_load(self, name, state, node=None):
        if state.has(name):
            return state.get(name)
        if name in self.module.assigns:
            try:
                return Const(self.module.const(name))
            except NotConst:
                return TOP
        return TOP

    def attr_load(self, objval, node, state):
        if is_self_attr(node, "_min_compress_len"):
            return Sym("min")
        if is_self_attr(node):
            return Opaque("self." + node.attr)
        if isinstance(objval, Opaque):
            return Opaque(objval.tag + "." + node.attr)
        return TOP

    def call(self, node, fval, args, kwargs, state):
        name = call_name(node)
        if name == "self._serde.serialize":
            return [("ok", TupleV((Sym("inner"), Sym("iflags"))), state)]
        if name == "self._serde.deserialize":
            self.inner_deser.append(tuple(args))
            return [("ok", Opaque("decoded"), state)]
        if name == "self._compress":
            self.compress_args.append((node, args[0] if args else None))
            # (the compressor is code the caller supplies: it may refuse its input)
            return [("ok", Comp(args[0]) if args else TOP, state), ("exc", Exc(ORD, "CompressorError", node.lineno), state)]
        if name == "self._decompress":
            return [("ok", Decomp(args[0]) if args else TOP, state), ("exc", Exc(ORD, "CompressorError", node.lineno), state)]
        if name == "len" and args:
            return [("ok", LenOf(args[0]), state)]
        if name.startswith("self._") and name.count(".") == 1 and self.fn is not None and self.fn.cls is not None:
            # a private helper of the serde class (e.g. the compress-or-not decision): interpreted in line
            m = self.prog.method(self.fn.cls, name[5:], required=False)
            if m is not None and m is not self.fn:
                res = self.inline(node, m, args, kwargs, state)
                if res is not None:
                    return res
        return [("ok", TOP, state)]

    def binop(self, node, l, r, state):
        if isinstance(node.op, ast.BitOr):
            for a, b in ((l, r), (r, l)):
                if isinstance(b, Const) and isinstance(b.v, int):
                    if a == Sym("iflags"):
                        return FlagOr(a, b.v)
                    if isinstance(a, FlagOr):
                        return FlagOr(a.base, a.bits | b.v)
        if isinstance(node.op, ast.BitAnd):
            for a, b in ((l, r), (r, l)):
                if a == Sym("flags") and isinstance(b, Const) and isinstance(b.v, int):
                    if b.v == self.bit:
                        return Const(self.bit if self.flag_set else 0)
                    if b.v & self.bit == 0:
                        return ("masked", self.bit)
        if isinstance(node.op, (ast.BitXor, ast.Sub)):
            # flags ^ BIT / flags - BIT where the bit is known to be set on this path: the flags without the bit
            if l == Sym("flags") and isinstance(r, Const) and r.v == self.bit and self.flag_set:
                return ("masked", self.bit)
        return super().binop(node, l, r, state)

    def compare(self, node, op, l, r, state):
        def rel(kind):
            return {"lt": -1, "eq": 0, "gt": 1}[kind]

        val = None
        if l == LenOf(Sym("inner")) and r == Sym("min"):
            val = rel(self.r_len)
        elif l == Sym("min") and r == LenOf(Sym("inner")):
            val = -rel(self.r_len)
        elif l == Sym("min") and isinstance(r, Const) and r.v == 0:
            val = 1 if self.r_min == "gt" else (0 if isinstance(op, (ast.Gt, ast.LtE)) else -1)
            val = 1 if self.r_min == "gt" else -1 if isinstance(op, (ast.Lt, ast.GtE)) else 0
        elif isinstance(l, Const) and l.v == 0 and r == Sym("min"):
            val = -1 if self.r_min == "gt" else 0
        elif l == LenOf(Sym("inner")) and r == LenOf(Comp(Sym("inner"))):
            val = -rel(self.r_comp)
        elif l == LenOf(Comp(Sym("inner"))) and r == LenOf(Sym("inner")):
            val = rel(self.r_comp)
        if val is not None and isinstance(op, (ast.Lt, ast.LtE, ast.Gt, ast.GtE, ast.Eq, ast.NotEq)):
            return Const({ast.Lt: val < 0, ast.LtE: val <= 0, ast.Gt: val > 0, ast.GtE: val >= 0, ast.Eq: val == 0, ast.NotEq: val != 0}[type(op)])
        return super().compare(node, op, l, r, state)

    def truth(self, v, state=None):
        if isinstance(v, tuple) and v and v[0] == "masked":
            return None
        return super().truth(v, state)


def _ideal_dec(enc):
    if enc == Sym("value"):
        return Sym("stored")
    if isinstance(enc, Enc):
        if enc.kind == "encode":
            return Dec("decode", enc.param)
        if enc.kind == "fmt":
            return Dec("int", None)
        if enc.kind == "pickle":
            return Dec("unpickle", None)
    return None


def _e(v):
    if v == Sym("value"):
        return "the value as is"
    if v == Sym("stored"):
        return "the stored bytes as is"
    if isinstance(v, Enc):
        return {"encode": "value.encode(%r)" % (v.param,), "fmt": "%r %% value" % (v.param,), "pickle": "pickle(value)", "str": "str(value)"}.get(v.kind, str(v))
    if isinstance(v, Dec):
        return {"decode": "decode(%r)" % (v.param,), "int": "int(...)", "unpickle": "unpickle"}.get(v.kind, str(v))
    return str(v)
