"""Which properties are claimed, with what level; MANIFEST.json is generated from this."""
import json, os

HERE = os.path.dirname(os.path.dirname(os.path.abspath(__file__)))
ALL = ["C%02d" % i for i in range(1, 21)]

# property id -> dict(category, text, note, technique, design_ref)
CLAIMED = {
    "C19": dict(
        category="other",
        text="Path and structure rules on the ElastiCache client: possibly-undefined analysis with exception edges (an ERROR reply must surface as the memcached error), the coupled reset of clients / hasher / failing and dead sets on every path of reconfigure_nodes before any advertised node is added, every advertised node added unconditionally and normalised, replaced clients and the discovery client closed on all exits, host/port selection by use_vpc, config command and terminator wiring, what escapes when the config command fails (the error itself, discovery client closed), raw_command ending the reply at the end token it was given (framing rows), and the C03 rules (accumulate-then-search, segmentation rows) for the reader that delivers the reply. Routing of key corpora after reconfiguration sequences is a runtime statement.",
        note="Trusted: CPython ast; path interpreter; C11/C12 for routing once hasher nodes == clients keys. The rule models the reset-then-add structure of reconfigure_nodes; an incremental implementation would need a different rule.",
        technique="definite-assignment and coupled-state path analysis; structural wiring rules",
    ),
    "C15": dict(
        category="other",
        text="The serializer dispatch is evaluated abstractly over 13 exact-type classes: encoder and flags chosen by the writer, decoder chosen by the reader for those flags with and without the COMPRESSED bit, whether the pair is a type-preserving inverse pair, that the serialized form derives from the value and is bytes; flags are distinct single bits below 2**16; CompressedSerde's decision is evaluated over all 18 orderings of (len vs threshold, threshold vs 0, compressed vs original) for 'flag iff compressed form stored' and 'never store the larger form', and decompress iff the bit is set; pickle protocol wiring by def-use; a lossy error handler on encode/decode is not an inverse pair; a compressor that raises is followed through the handlers; the default serde (no functions configured) is the identity with flags 0. Library round trips (pickle, codecs, zlib) are trusted.",
        note="Trusted: CPython ast; path interpreter; inverse-pair table for the library encoders.",
        technique="finite abstract evaluation over exact-type classes and length orderings; def-use",
    ),
    "C02": dict(
        category="other",
        text="Abstract wire-fragment evaluation of all 25 public command methods of Client with the exchange function inlined (347 wire variants): each must match the protocol grammar of its verb using only literals, sanitised keys, sanitised integers and a length-coupled data block (no tainted fragment); all validation precedes connect/send; integer sanitizers decided over type classes; the empty key and the per-class key wrappers are checked here, key sanitizer strength itself in C20. Numeric ranges, exotic codecs and a server-grade parser are not decided.",
        note="Trusted: CPython ast; path interpreter; fragment transformers; grammar tables (protocol.txt). Three known findings (empty key; gat/gats with expire=None).",
        technique="finite abstract evaluation over a wire-fragment domain (taint + grammar) and call-order rules",
    ),
    "C04": dict(
        category="other",
        text="Necessary conditions of the store/fetch round trip: length prefix and data block are the same converted value in every store variant; every public retrieval and storage method of Client is interpreted end to end on exact key collections against scripted protocol replies and must hand back, under the caller's own key object, deserialize(that key, the data block of that key's VALUE line, its flags) [and its cas token], a falsy value as is, also when the keys arrive as a one-shot iterator or the reply lists them in another order; every key-addressed command uses self.key_prefix; serializer tables as in C15. Bit-for-bit equality, value sizes and round trips against a server model are not decided.",
        note="Trusted: CPython ast; wire-fragment transformers; path interpreter with exact collections (pmcsa/colls.py); reply scripts in pmcsa/spec.py.",
        technique="fragment-coupling rules + end-to-end abstract interpretation of the public methods against scripted replies",
    ),
    "C05": dict(
        category="other",
        text="Reply tables equal the protocol/contract tables and are exhaustive; each method sends its documented verb, requests cas tokens exactly in the gets family and validates replies under that verb; every public method is interpreted end to end (exchange functions and helpers inlined, exact key collections, scripted reply lines) and must return the documented value for every reply of its verb's alphabet (storage, retrieval and misc families; per-key results for 0/1/2 keys), raise the documented exception for error lines at the first and at a later reply position and for lines outside the alphabet, and return the documented constant with noreply; defaults and the resolution of None to default_noreply are decided. Everything over histories (cas races, expiry, equivalence with a map model) is not decided.",
        note="Trusted: CPython ast; path interpreter; wire evaluator; tables in pmcsa/spec.py.",
        technique="table conformance + end-to-end abstract interpretation of reply -> return decisions on exact collections",
    ),
    "C03": dict(
        category="other",
        text="Carry-over state rules of the three readers and three exchange loops on every path: liveness of received chunks and leftovers (none overwritten or left behind before flowing into the result, the next reader or the returned leftover), EINTR retried at the single recv site and nothing else swallowed, no dependence on the receive size, the segment reader's end-token search runs on an accumulating buffer with an offset that goes back at least len(token)-1 bytes (linear normal form), the sized reader touches payload by position only. Segmentation rows (R6): each reader interpreted over exact byte strings for every segmentation of short reply streams and every leftover split (about 30 000 rows: all strings over {a, CR, LF} up to 4-5 bytes, sized values of every content up to 2-3 bytes with tails and truncations, seven end tokens with partial-token bodies): same result and leftover, no piece asked for beyond the completing one, hang-up raises. NOT decided: streams beyond those (sizes around the receive size), and the composition of readers in the exchange loops other than by the liveness rules.",
        note="Trusted: CPython ast; path interpreter; chunk-liveness transfer functions; exact transformers for bytes operations on constants (Python's own).",
        technique="liveness / def-use path analysis of received chunks + structural rules on the search buffer + exhaustive abstract interpretation of the readers over exact byte strings (all segmentations of bounded streams)",
    ),
    "C12": dict(
        category="other",
        text="Routing structure of HashClient: a single routing function that asks the hasher about the raw server key on every path and returns the inner key (path analysis for plain keys and pairs); all call sites route with the same arguments; in the batching loops each key is inserted exactly once, under its inner key, into the batch of the server its own routing call returned and is skipped only when no server is left; batches are dispatched once to the client registered under that server; results are merged. Equality of merged values with per-key gets is a runtime consequence (with C16), not decided.",
        note="Trusted: CPython ast; path interpreter; clients[_make_client_key(s)].server == s (checked at add_server, the only writer).",
        technique="def-use / path rules over the routing and batching code; who-may-call",
    ),
    "C13": dict(
        category="other",
        text="Only the local decision structure of the failover state machine is decided, each clause a necessary condition of one bound: the gate of both runner twins as a 144-row decision table over (failing, attempts vs retry_attempts in linear normal form, elapsed vs retry_timeout with direction, 6 outcome classes, ignore_exc); the retry budget derived symbolically from the counter protocol (N(retry_attempts) = retry_attempts); the failure-accounting table; coupled eviction/revival updates and the re-arming rule of the dead scan; only the caught error escapes. Contact counts per sliding window, rerouting, recovery time and bookkeeping exceptions over all histories are NOT decided.",
        note="Trusted: CPython ast; path interpreter; linear normal forms. retry_timeout < dead_timeout; time.time() monotone within one operation.",
        technique="finite abstract evaluation (decision tables with linear-normal-form comparisons) over the failover methods",
    ),
    "C11": dict(
        category="other",
        text="get_node is evaluated over an ordering domain (symbolic scores and names related only by order): a 7-case inductive step shows the fold is the argmax under (score, name) for any number of nodes, whole-function evaluation over all weak orderings x list orders up to 3/4 nodes cross-checks order independence; def-use shows each score depends only on (node, key, seed) with input '<node>-<key>'; with the HRW theorem this gives minimal disruption. Purity, set-like add/remove, canonical node names are structure rules. Spread and spelling-equivalence for all strings are not decided.",
        note="Trusted: CPython ast; path interpreter; ordering-domain transformers; scores non-negative (C14.R1); node names are str. An add/remove implementation other than append/remove-by-value under a membership test is ANALYSIS-ERROR (not decidable structurally).",
        technique="finite abstract evaluation over an ordering domain (inductive step + exhaustive small cases) + def-use and purity rules",
    ),
    "C14": dict(
        category="translation_validation",
        text="Value-graph translation validation of murmur3_32 against the reference MurmurHash3_x86_32 written in the checker: initial state, loop header and little-endian byte indices, block body, the four tail cases followed by the finaliser are each normalised to a term over + * ^ | & << >> modulo 2**32 (rotl recognition, bit-disjoint |,^,+ unified) and must be syntactically equal to the reference term; a width analysis shows every operand of >> and the result are below 2**32. Decided for code points 0..255 and len < 2**32; for other strings only width and purity.",
        note="Trusted: CPython ast; the term normaliser (pmcsa/termeval.py); the reference terms transcribed from Appleby's C source. An operator without an exact transformer is ANALYSIS-ERROR, not a verdict.",
        technique="value-graph normalisation / translation validation mod 2^32 + bit-width dataflow",
    ),
    "C20": dict(
        category="proof",
        text="check_key_helper is evaluated abstractly over a byte-string shape domain (patterns of runs of ordinary / non-ASCII / each of the six whitespace bytes / NUL, up to 3 runs quick and 4 thorough, with prefix shapes and length scenarios 249/250/251 in characters, encoded bytes and prefixed bytes): >55k abstract inputs, each compared with the specified predicate, exception type and return value; plus call-site rules showing the three client classes apply this one function with their own prefix/unicode setting and that every key fragment on the wire went through it.",
        note="Trusted: CPython ast; transformer semantics of bytes.split/len/in/encode in pmcsa/keyeval.py; re._parser if a regex is used. Empty prefixed keys are outside C20 (see C02).",
        technique="finite abstract evaluation over a byte-string shape domain + call-site conformance",
    ),
    "C16": dict(
        category="other",
        text="Conformance of PooledClient/HashClient/RetryingClient with Client: signatures of the key-addressed operations, forwarding of every parameter exactly once and unmodified (and used for nothing else), propagation of every shared constructor option to the inner clients, RetryingClient transparency. Identical wire bytes per server state are a runtime statement that follows only with client_class = Client.",
        note="Trusted: CPython ast; signature/argument matching code. Exemption table: ignore_exc, serializer/deserializer, server (one reason each). Two known findings (HashClient.gat/gats positional order).",
        technique="signature, forwarding and configuration conformance between sibling implementations",
    ),
    "C17": dict(
        category="proof",
        text="_retry is evaluated abstractly as a whole function for all 32 filter configurations x (last / not last attempt) = 64 rows with the attempt comparison reduced to linear normal form over 0 <= attempt < attempts; exits, number of delegate calls and sleep counts are compared with the specified decision table; transparency (result and exception identity, BaseException not retried) and the constructor guards (integer half-line attempts <= 0, type-class table of _ensure_tuple_argument, overlap check) are decided the same way.",
        note="Trusted: CPython ast; path interpreter; the linear-normal-form and table evaluation code. Robust to De Morgan rewrites, helper extraction (inlined one level) and a trailing raise after the loop.",
        technique="finite abstract evaluation (truth table over comparison/membership atoms) + path rules",
    ),
    "C18": dict(
        category="other",
        text="FallbackClient is decided by structure and path rules: writers make one call on caches[0] of their own name with arguments in Client's order and never iterate; readers loop over self.caches in order, call the same-named method once per cache, return at the first hit and consult nothing afterwards; each hit test is evaluated on the delegate's miss value.",
        note="Trusted: CPython ast; path interpreter; caches have Client's interface. One known finding (gets hit test).",
        technique="structural delegation rules + path rule on the reader loops",
    ),
    "C01": dict(
        category="other",
        text="Path and structure rules that are necessary conditions of reply ownership: close-before-escape on every ordinary-exception exit after sendall, noreply <=> no read coupled with the wire token at all 17 call sites; every public method, interpreted end to end against the reply the protocol defines for its own commands (0/1/2 keys, lists and one-shot iterators), returns only after the last item of that reply, never asks for more, and reads nothing with noreply; no receive state outside locals, only Client touches sockets; the reply to a raw command is read once and ended at the caller's end token. Parsing under segmentation is C03, whose liveness rules and segmentation rows are re-run here; a misbehaving server is not decided.",
        note="Trusted: CPython ast; path interpreter; wire-fragment evaluator; Client.close does not raise (decided by C06.R6).",
        technique="must-pass-through on exception edges + abstract wire-fragment evaluation + end-to-end reply-consumption evaluation + who-may-call",
    ),
    "C07": dict(
        category="other",
        text="For each of the 6 read methods on Client, PooledClient and HashClient the failure value is compared as a term with the miss value of Client's method, and a path analysis shows that with ignore_exc no ordinary exception from a failure-capable call (socket, reader, _raise_errors, serde; computed by call-graph fixpoint) can escape; Client's six read methods are in addition interpreted end to end with ignore_exc set against 17 fault plans each (refused connection, failed send, time-out, close and error/garbage/malformed lines at every reply position, undeserialisable item) and must return their miss value. Bookkeeping exceptions inside HashClient's failover handlers are left to C13.",
        note="Trusted: CPython ast; path interpreter; term comparison; input-validation errors are not failures.",
        technique="sibling conformance of failure/miss terms + exception-escape path analysis",
    ),
    "C08": dict(
        category="other",
        text="Lockset, single-hold atomicity of check-then-act, ownership-by-removal and no-re-entrancy decided on every path of every ObjectPool method, plus bracket/non-escape over all 24 PooledClient methods. These hold for every schedule because they are schedule-independent facts; internal-error freedom under interleavings beyond the lock discipline is not decided.",
        note="Trusted: CPython ast; path interpreter; `with lock:` releases on every exit; lock_generator() yields a mutual-exclusion lock; snapshot properties used/free are read-only (table of two named exemptions).",
        technique="lockset + atomicity + ownership typestate on a path interpreter; who-may-call / escape analysis",
    ),
    "C09": dict(
        category="other",
        text="Path rules on the pool bracket (exactly one release/destroy on each normal/ordinary-exception exit, destroy on failure), constant-argument rules at all 24 bracket sites and the inner-client constructor, typestate rules on get/release (idle-test direction in linear normal form, expired objects closed and never handed out, reuse before create, idle stamp refreshed on release), quit destroys on all exits. Numeric idle gaps are not decided.",
        note="Trusted: CPython ast; path interpreter; release()/destroy() atomic for slot accounting (their internals are C08.R3).",
        technique="must-pass-through / typestate on a path interpreter; constant-argument conformance",
    ),
    "C10": dict(
        category="proof",
        text="The C01/C09 cleanup path rules with the ASYNC exception colour (BaseException raised at any call): every such exit after sendall passes Client.close and is not swallowed; every such exit of the pool bracket passes exactly one release/destroy; Client.close drops the socket even when interrupted. The handlers' shape is the whole property.",
        note="Trusted: CPython ast; path interpreter (every call may raise ASYNC); release/destroy summarised as atomic for slot accounting.",
        technique="must-pass-through analysis on exception edges (ASYNC colour)",
    ),
    "C06": dict(
        category="other",
        text="Static typestate analysis of socket objects on every path of Client._connect/close for all 128 configurations and any number of resolved addresses, plus who-may-write and lazy-reconnect rules; decides the structural clauses (no leak, single socket, timeout order, TLS wrap, close idempotent) and not the behavioural 'next call works'.",
        note="Trusted: CPython ast; the path interpreter's exception-edge model; summary of the socket API (close() inside cleanup does not raise). UNIX sockets are not TLS-wrapped.",
        technique="typestate / must-pass-through analysis on a structured path interpreter with exception edges",
    ),
}

PENDING_REASON = "static check not yet built in this revision (see DESIGN.md section 3); claimed once its rules run fail-closed on the pinned tree"
NOT_APPLICABLE = {}


def manifest():
    checks = []
    for pid in ALL:
        if pid not in CLAIMED:
            continue
        c = CLAIMED[pid]
        checks.append({
            "property_id": pid,
            "quick_cmd": "./check %s --tier quick" % pid,
            "thorough_cmd": "./check %s --tier thorough" % pid,
            "evidence_file": "/verif/evidence/%s.json" % pid,
            "replay_cmd_template": "./check --replay {path}",
            "engine": "pmcsa",
            "level_claimed": {"category": c["category"], "text": c["text"], "design_ref": c.get("design_ref", "DESIGN.md section 3, " + pid)},
            "level_note": c["note"],
            "technique": c["technique"],
        })
    na = []
    for pid in ALL:
        if pid in CLAIMED:
            continue
        na.append({"property_id": pid, "reason": NOT_APPLICABLE.get(pid, PENDING_REASON)})
    return {
        "version": 1,
        "setup_cmd": "/venv/bin/python -m compileall -q pmcsa",
        "hooks": {
            "guard": "PYMEMCACHE_VERIF",
            "enable": "none needed: the checks parse /repo's working tree with the standard-library ast module and never import or run it; no hook commits exist",
            "baseline_off_cmd": "cd /repo && /venv/bin/python -m pytest -ra -q -p no:cacheprovider --timeout=900 --continue-on-collection-errors",
            "source_commits": [],
            "add_only": True,
        },
        "engines": [{
            "name": "pmcsa",
            "path": "/verif/pmcsa",
            "serves_properties": sorted(CLAIMED),
            "kind_free_text": "repository-specific static analyser over Python ast: class/alias/constant model, structured path interpreter with exception colours (ORD/ASYNC), def-use, finite abstract evaluation; no execution of /repo, no solver",
        }],
        "checks": checks,
        "not_applicable": na,
        "notes": "Static analysis only. Exit 0 pass / 1 VIOLATION (not in known_findings.json) / 2 ANALYSIS-ERROR (fail closed). See DESIGN.md.",
    }
