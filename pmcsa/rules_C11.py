"""C11 - key placement is a pure, order-independent, minimally disruptive function (partial: structure + ordering domain)."""
import ast
import itertools
from collections import namedtuple

from .model import AnalysisError, node_src, is_self_attr, call_name
from .paths import Interp, Domain, Env, TOP, NONE, Const, TupleV, Exc, ORD, fmt_trace, Opaque, Ctx
from .report import walk_no_nested
from .colls import ExactCollections

LEVEL = "other"
LEVEL_TEXT = (
    "RendezvousHash.get_node touches scores only through > and == and names only through max/str, so its loop body is "
    "evaluated abstractly as a step function over symbolic scores and names whose only structure is their relative "
    "order: an inductive step (7 ordering cases incl. the initial state) shows the fold is the argmax under (score, name) "
    "for every number of nodes; whole-function evaluation over all weak orderings x all list orders for up to 3 (quick) / "
    "4 (thorough) nodes cross-checks order independence. With the def-use rule that a node's score depends only on "
    "(node, key, seed) this is the published highest-random-weight rule, whose minimal-disruption property follows "
    "(HRW: removing a node changes the argmax only for keys whose argmax it was; adding one only where it becomes the "
    "argmax). Purity and canonical node names are structure rules; that the rotation is a *set* is decided on "
    "histories (R4): __init__ / add_node / remove_node interpreted with exact collections under every sequence of calls "
    "over four node names until no new hasher state appears - what get_node walks over is exactly the nodes added and "
    "not removed, whatever bookkeeping the hasher keeps. Spread over servers and "
    "equivalence of address spellings for all strings are not decided."
)
TRUSTED = ["CPython ast", "pmcsa/paths.py", "ordering-domain evaluation in pmcsa/rules_C11.py", "scores are non-negative (C14.R1)", "node names are str"]

Score = namedtuple("Score", "id")
Name = namedtuple("Name", "id")
Text = namedtuple("Text", "parts")
KEY = Opaque("key-param")
RV = "pymemcache/client/rendezvous.py"

IMPURE_CALLS = ("hash", "id", "random", "time", "os", "uuid", "getpid", "urandom", "shuffle", "choice", "sample")


class OrderDomain(Domain):
    async_enabled = False
    subscript_may_raise = False
    unpack_may_raise = False

    def __init__(self, prog, fn, score_rank, name_rank, nodes, loopvar_scores=None):
        super().__init__(prog, fn)
        self.score_rank = score_rank  # id -> rank (equal ranks = tie)
        self.name_rank = name_rank  # id -> rank (distinct)
        self.nodes = nodes
        self.hash_calls = 0
        self.hash_inputs = []
        self.unsupported = []
        pp = fn.pos_params() if fn is not None else []
        self.keyparam = pp[0].name if pp and fn.name == "get_node" else None

    def name_load(self, name, state, node=None):
        if state.has(name):
            return state.get(name)
        if self.keyparam is not None and name == self.keyparam and not self.frames:
            return KEY
        return TOP

    def attr_load(self, objval, node, state):
        if isinstance(objval, Const) and isinstance(objval.v, str):
            return ("strmeth", objval, node.attr)
        if is_self_attr(node, "nodes"):
            return TupleV(tuple(Name(i) for i in self.nodes))
        if is_self_attr(node, "hash_function"):
            return Opaque("hash_function")
        if is_self_attr(node, "seed"):
            return Opaque("seed")
        return TOP

    # ---- strings built from the node, the key and literals: Text(parts), parts = ('node', id) / ('key',) / ('lit', s)
    def _parts(self, v):
        if isinstance(v, Text):
            return v.parts
        if isinstance(v, Name):
            return (("node", v.id),)
        if v == KEY:
            return (("key",),)
        if isinstance(v, Const) and isinstance(v.v, str):
            return (("lit", v.v),) if v.v else ()
        return (("other", str(v)),)

    def _text(self, parts):
        out = []
        for p_ in parts:
            if out and out[-1][0] == "lit" and p_[0] == "lit":
                out[-1] = ("lit", out[-1][1] + p_[1])
            else:
                out.append(p_)
        return Text(tuple(out))

    def fstring(self, node, parts, state):
        vals = list(parts)
        out = []
        for piece in node.values:
            if isinstance(piece, ast.Constant):
                out.append(("lit", piece.value))
            else:
                v = vals.pop(0) if vals else TOP
                if piece.format_spec is not None or piece.conversion not in (-1, 115):
                    out.append(("other", "formatted"))
                else:
                    out += list(self._parts(v))
        return self._text(out)

    def binop(self, node, l, r, state):
        stringy = lambda v: isinstance(v, (Text, Name)) or v == KEY or (isinstance(v, Const) and isinstance(v.v, str))
        if isinstance(node.op, ast.Add) and stringy(l) and stringy(r):
            return self._text(self._parts(l) + self._parts(r))
        if isinstance(node.op, ast.Mod) and isinstance(l, Const) and isinstance(l.v, str):
            args = list(r.items) if isinstance(r, TupleV) else [r]
            out, rest = [], l.v
            import re

            for lit, spec in re.findall(r"([^%]*)(%[sd%]|%.|$)", rest):
                if lit:
                    out.append(("lit", lit))
                if spec == "%s" and args:
                    out += list(self._parts(args.pop(0)))
                elif spec == "%%":
                    out.append(("lit", "%"))
                elif spec:
                    out.append(("other", spec))
            if args:
                out.append(("other", "surplus arguments"))
            return self._text(out)
        return super().binop(node, l, r, state)

    def call(self, node, fval, args, kwargs, state):
        name = call_name(node)
        if fval == Opaque("hash_function") or name == "self.hash_function":
            self.hash_calls += 1
            a = args[0] if args else TOP
            parts = self._parts(a) if a is not TOP else (("other", "unknown"),)
            self.hash_inputs.append((node, parts, len(args) + len(kwargs)))
            nodes_in = [p_[1] for p_ in parts if p_[0] == "node"]
            if len(nodes_in) == 1:
                # (whether the input is exactly '<node>-<key>' is R2's question; the ordering rules only need whose score it is)
                return [("ok", Score(nodes_in[0]), state)]
            self.unsupported.append("hash input `%s` is not built from one node" % node_src(node.args[0] if node.args else node))
            return [("ok", TOP, state)]
        if name == "str" and args:
            return [("ok", args[0], state)]
        if isinstance(fval, tuple) and fval and fval[0] == "strmeth" and fval[2] == "format" and isinstance(fval[1], Const) and isinstance(fval[1].v, str) and not kwargs:
            import string

            out, rest = [], list(args)
            try:
                for lit, field, spec, conv in string.Formatter().parse(fval[1].v):
                    if lit:
                        out.append(("lit", lit))
                    if field is None:
                        continue
                    if field == "" and not spec and conv in (None, "s") and rest:
                        out += list(self._parts(rest.pop(0)))
                    elif field.isdigit() and not spec and conv in (None, "s") and int(field) < len(args):
                        out += list(self._parts(args[int(field)]))
                    else:
                        out.append(("other", "{%s}" % field))
            except ValueError:
                out.append(("other", "bad format string"))
            return [("ok", self._text(out), state)]
        if name.startswith("self._") and name.count(".") == 1 and self.prog is not None:
            m = self.prog.cls("RendezvousHash").methods.get(name[5:])
            if m is not None:
                res = self.inline(node, m, args, kwargs, state)
                if res is not None:
                    return res
        if name in ("max", "min") and len(args) == 2:
            a, b = args
            if a == NONE or b == NONE:
                # comparing str with None raises TypeError in Python 3
                return [("exc", Exc(ORD, "TypeError", node.lineno), state)]
            if isinstance(a, Name) and isinstance(b, Name):
                ra, rb = self.name_rank[a.id], self.name_rank[b.id]
                big, small = (a, b) if ra >= rb else (b, a)
                return [("ok", big if name == "max" else small, state)]
            if isinstance(a, TupleV) and isinstance(b, TupleV):
                ka, kb = self.key(a), self.key(b)
                if ka is not None and kb is not None:
                    big, small = (a, b) if ka >= kb else (b, a)
                    return [("ok", big if name == "max" else small, state)]
            self.unsupported.append("max/min of %s" % node_src(node))
            return [("ok", TOP, state)]
        if name in ("len", "enumerate", "range", "sorted", "reversed", "list", "tuple"):
            self.unsupported.append("get_node uses %s(...)" % name)
            return [("ok", TOP, state)]
        return [("ok", TOP, state)]

    def key(self, t):
        out = []
        for x in t.items:
            if isinstance(x, Score):
                out.append(self.score_rank[x.id])
            elif isinstance(x, Name):
                out.append(self.name_rank[x.id])
            elif isinstance(x, Const) and isinstance(x.v, int):
                out.append(-1 if x.v < 0 else None)
            else:
                return None
        return tuple(out) if None not in out else None

    def rank(self, v):
        if isinstance(v, Score):
            return self.score_rank[v.id]
        if isinstance(v, Const) and isinstance(v.v, int) and v.v < 0:
            return -1  # below every score: scores are non-negative
        return None

    def compare(self, node, op, l, r, state):
        a, b = self.rank(l), self.rank(r)
        if a is not None and b is not None and isinstance(op, (ast.Gt, ast.GtE, ast.Lt, ast.LtE, ast.Eq, ast.NotEq)):
            return Const({ast.Gt: a > b, ast.GtE: a >= b, ast.Lt: a < b, ast.LtE: a <= b, ast.Eq: a == b, ast.NotEq: a != b}[type(op)])
        if isinstance(l, Name) and isinstance(r, Name) and isinstance(op, (ast.Gt, ast.GtE, ast.Lt, ast.LtE, ast.Eq, ast.NotEq)):
            a, b = self.name_rank[l.id], self.name_rank[r.id]
            return Const({ast.Gt: a > b, ast.GtE: a >= b, ast.Lt: a < b, ast.LtE: a <= b, ast.Eq: a == b, ast.NotEq: a != b}[type(op)])
        if (isinstance(l, (Score, Name)) or isinstance(r, (Score, Name))) and not (l == NONE or r == NONE):
            self.unsupported.append("comparison `%s` mixes values the ordering domain cannot relate" % node_src(node))
        return super().compare(node, op, l, r, state)

    def for_next(self, node, itval, state):
        if isinstance(itval, TupleV):
            # ordered iteration: element k where k = number of elements consumed so far
            k = state.get(("pos", node.lineno), 0)
            if k < len(itval.items):
                return [(itval.items[k], state.set(("pos", node.lineno), k + 1))]
            return []
        return [(TOP, state)]

    def for_exhausted(self, node, itval, state):
        if isinstance(itval, TupleV):
            return state if state.get(("pos", node.lineno), 0) >= len(itval.items) else None
        return state


Piece = namedtuple("Piece", "of")  # the argument text or a part cut out of it (slice, split, partition, strip of brackets)
Made = namedtuple("Made", "by")  # text produced by some other operation from the argument
IntOf = namedtuple("IntOf", "of")
CUTTERS = ("split", "rsplit", "partition", "rpartition", "strip", "lstrip", "rstrip", "removeprefix", "removesuffix")
TESTS = ("startswith", "endswith", "isdigit", "find", "rfind", "index", "count", "isalnum")


class PieceDomain(Domain):
    async_enabled = False
    subscript_may_raise = False
    unpack_may_raise = False

    def truth(self, v, state=None):
        if isinstance(v, (Piece, Made)):
            return None
        return super().truth(v, state)

    def never_none(self, v):
        return isinstance(v, (Piece, Made, IntOf)) or super().never_none(v)

    def attr_load(self, objval, node, state):
        if isinstance(objval, (Piece, Made)):
            return ("smeth", objval, node.attr)
        if isinstance(objval, Opaque) and objval.tag.startswith("made-object:"):
            return Made(objval.tag[12:])  # an attribute of an object some function made out of the text
        return TOP

    def subscript_load(self, objval, idxval, node, state):
        if isinstance(objval, Piece):
            return Piece(objval.of), False  # a slice / an element of a split
        if isinstance(objval, Made):
            return objval, False
        return TOP, False

    def unpack(self, value, n, node, state):
        if isinstance(value, (Piece, Made)):
            return [value] * n, False
        return super().unpack(value, n, node, state)

    def binop(self, node, l, r, state):
        for v in (l, r):
            if isinstance(v, (Piece, Made)):
                return Made("`%s`" % node_src(node, 40))
        return super().binop(node, l, r, state)

    def fstring(self, node, parts, state):
        return TOP  # only used for messages

    def call(self, node, fval, args, kwargs, state):
        name = call_name(node)
        if isinstance(fval, tuple) and fval and fval[0] == "smeth":
            _, obj, attr = fval
            if isinstance(obj, Piece) and attr in CUTTERS:
                return [("ok", Piece(obj.of), state)]
            if attr in TESTS:
                return [("ok", TOP, state)]
            return [("ok", Made("%s.%s()" % ("the text" if isinstance(obj, Piece) else obj.by, attr)), state)]
        if name == "isinstance":
            return [("ok", TOP, state)]
        if name == "int" and args and isinstance(args[0], Piece):
            return [("ok", IntOf(args[0].of), state), ("exc", Exc(ORD, "ValueError", node.lineno), state)]
        if name in ("len", "bool"):
            return [("ok", TOP, state)]
        if name in ("str",) and args and isinstance(args[0], (Piece, Made)):
            return [("ok", args[0], state)]
        if isinstance(node.func, ast.Name) and self.fn is not None and node.func.id in self.fn.module.functions:
            # a module-level helper of the normaliser (e.g. an extracted host / port splitter): interpreted in line
            res = self.inline(node, self.fn.module.functions[node.func.id], args, kwargs, state)
            if res is not None:
                return res
        src = [a for a in list(args) + list(kwargs.values()) if isinstance(a, (Piece, Made))]
        if src:
            return [("ok", Opaque("made-object:%s(...)" % name), state)]
        return [("ok", TOP, state)]


def _rewritten(v):
    """None if the returned value consists of pieces of the argument (and integers), else a description."""
    if isinstance(v, Piece) or isinstance(v, IntOf) or (isinstance(v, Const) and isinstance(v.v, int)):
        return None
    if isinstance(v, TupleV):
        for x in v.items:
            b = _rewritten(x)
            if b is not None:
                return b
        return None
    if isinstance(v, Made):
        return "text made by %s" % v.by
    if isinstance(v, Opaque) and v.tag.startswith("made-object:"):
        return "an object made by %s" % v.tag[12:]
    return "a value this rule cannot trace back to the argument (%s)" % (v,)


def spec_winner(order, score_rank, name_rank):
    best = max(score_rank[i] for i in order)
    cands = [i for i in order if score_rank[i] == best]
    return max(cands, key=lambda i: name_rank[i])


def weak_orderings(n):
    """All assignments of ranks 0..k-1 to n items that use every rank (ordered set partitions)."""
    out = set()
    for ranks in itertools.product(range(n), repeat=n):
        used = sorted(set(ranks))
        if used == list(range(len(used))):
            out.add(ranks)
    return sorted(out)


def run(chk):
    prog = chk.prog
    rv = prog.cls("RendezvousHash")
    gn = prog.method(rv, "get_node")

    # ------------------------------------------------------------------ R1 purity
    r1 = chk.rule("C11.R1", "purity / process independence of get_node, murmur3_32, _make_client_key, normalize_server_spec")
    scope = [gn, prog.function("pymemcache/client/murmur3.py", "murmur3_32"), prog.method("HashClient", "_make_client_key"), prog.function("pymemcache/client/base.py", "normalize_server_spec"), prog.method(rv, "__init__"), prog.method(rv, "add_node"), prog.method(rv, "remove_node")]
    for f in scope:
        bad = []
        for n in ast.walk(f.node):
            if isinstance(n, ast.Call):
                cn = call_name(n)
                parts = cn.split(".")
                if parts[0] in IMPURE_CALLS or parts[-1] in IMPURE_CALLS:
                    bad.append((n, "calls %s(): the result depends on the process, the clock or hash randomisation" % cn))
                if parts[-1] in ("set", "frozenset") and len(parts) == 1:
                    bad.append((n, "builds a set: iteration order depends on PYTHONHASHSEED"))
            if isinstance(n, (ast.Set, ast.SetComp)):
                bad.append((n, "builds a set: iteration order depends on PYTHONHASHSEED"))
            if isinstance(n, (ast.Global, ast.Nonlocal)):
                bad.append((n, "declares global state"))
            # no memory between calls: the placement functions neither write instance state nor mutate an attribute's object
            if f.name not in ("get_node", "murmur3_32", "_make_client_key", "normalize_server_spec"):
                continue
            if isinstance(n, ast.Attribute) and isinstance(n.ctx, (ast.Store, ast.Del)) and isinstance(n.value, ast.Name) and n.value.id == "self":
                bad.append((n, "writes self.%s: the answer can depend on earlier calls" % n.attr))
            if isinstance(n, ast.Subscript) and isinstance(n.ctx, (ast.Store, ast.Del)) and is_self_attr(n.value):
                bad.append((n, "writes into self.%s: the answer can depend on earlier calls" % n.value.attr))
            if isinstance(n, ast.Call) and isinstance(n.func, ast.Attribute) and is_self_attr(n.func.value) and n.func.attr in ("append", "add", "update", "setdefault", "pop", "popitem", "clear", "insert", "remove", "extend", "move_to_end", "cache_clear"):
                bad.append((n, "mutates self.%s: the answer can depend on earlier calls" % n.func.value.attr))
            if isinstance(n, ast.Name) and isinstance(n.ctx, ast.Load) and n.id in f.module.assigns and isinstance(f.module.assigns[n.id], (ast.List, ast.Dict, ast.Set, ast.Call)) and f.name in ("get_node", "murmur3_32", "_make_client_key"):
                bad.append((n, "reads the module-level mutable `%s`" % n.id))
        if f.name in ("get_node", "murmur3_32", "_make_client_key", "normalize_server_spec"):
            from .report import memory_between_calls

            have = {id(n_) for n_, w_ in bad}
            bad += [(n_, w_ + ": the answer can depend on earlier calls") for n_, w_ in memory_between_calls(f) if id(n_) not in have and not isinstance(n_, (ast.Global, ast.Nonlocal))]
        for n, what in bad:
            r1.fail("%s:impure:%s" % (f.qualname, what.split(":")[0].replace(" ", "-")[:40]), "%s %s" % (f.qualname, what), fn=f, node=n)
        if not bad:
            r1.ok("%s is pure (no hash/id/random/time/os, no sets, no globals)" % f.qualname, sample=False)
    r1.count("functions inspected", len(scope))

    # ------------------------------------------------------------------ R2 score depends only on (node, key, seed)
    r2 = chk.rule("C11.R2", "a node's score is hash('<node>-<key>', seed): it depends on nothing but that node, the key and the seed")
    loops = [n for n in walk_no_nested(gn.node) if isinstance(n, ast.For)]
    maxform = _max_form(gn)
    if len(loops) != 1 and not maxform:
        raise AnalysisError("C11: get_node has %d loops and is not a recognised max(...) form" % len(loops))
    # get_node interpreted on two nodes: every hash input is exactly '<node>-<key>' of the node being scored, the hash
    # is called with that string only, and each node is scored once
    dom = OrderDomain(prog, gn, {0: 0, 1: 1}, {0: 0, 1: 1}, [0, 1])
    Interp(dom, gn.node, prog).run(Env())
    r2.floor("hash calls in get_node (two nodes)", len(dom.hash_inputs), 2)
    scored = []
    for c, parts, nargs in dom.hash_inputs:
        nodes_in = [p_[1] for p_ in parts if p_[0] == "node"]
        want = (("node", nodes_in[0]), ("lit", "-"), ("key",)) if len(nodes_in) == 1 else None
        scored += nodes_in
        shown = "".join("<node>" if p_[0] == "node" else "<key>" if p_[0] == "key" else p_[1] if p_[0] == "lit" else "<%s>" % p_[1] for p_ in parts)
        r2.expect(want is not None and tuple(parts) == want, "hash input is '<node>-<key>'", "RendezvousHash.get_node:hash-input", "the score of a node is computed from the string `%s` instead of '<node>-<key>': it no longer depends on exactly that node and the key (or differs from the published scheme, so existing keys move)" % shown, fn=gn, node=c)
        r2.expect(nargs == 1, "hash_function called with the string only", "RendezvousHash.get_node:hash-extra-args", "extra arguments are passed to the hash", fn=gn, node=c)
    r2.expect(sorted(scored) == [0, 1], "each node in rotation is scored exactly once", "RendezvousHash.get_node:nodes-scored", "with two nodes in rotation the nodes scored are %s" % scored, fn=gn, node=gn.node)
    init = prog.method(rv, "__init__")
    # what the instance hash does with its argument: the callable stored in self.hash_function (a lambda, or a nested
    # single-return def) applied to x must be hash_function(x, seed) - both positional: a caller's own hash function
    # need not call its second parameter `seed`
    from .paths import callable_expr

    lam = [n for n in ast.walk(init.node) if isinstance(n, ast.Assign) and any(is_self_attr(t, "hash_function") for t in n.targets)]
    fnv = callable_expr(init.node, lam[0].value) if len(lam) == 1 else None
    if fnv is None:
        if len(lam) == 1 and isinstance(lam[0].value, ast.Name) and lam[0].value.id == "hash_function":
            r2.fail("RendezvousHash.__init__:hash-wiring", "the instance hash is the bare hash_function: the seed does not reach it", fn=init, node=lam[0])
        else:
            r2.undecided("RendezvousHash.__init__:hash-wiring", "self.hash_function is assigned %s: not a lambda or a single-return function this analysis can apply" % ("`%s`" % node_src(lam[0].value) if len(lam) == 1 else "%d times" % len(lam)))
    else:
        b = fnv.body
        a = fnv.args.posonlyargs + fnv.args.args
        plain = len(a) == 1 and not fnv.args.vararg and not fnv.args.kwarg and not fnv.args.kwonlyargs
        ok = plain and isinstance(b, ast.Call) and isinstance(b.func, ast.Name) and b.func.id == "hash_function" and len(b.args) == 2 and not b.keywords and isinstance(b.args[0], ast.Name) and b.args[0].id == a[0].arg and isinstance(b.args[1], ast.Name) and b.args[1].id == "seed"
        r2.expect(ok, "self.hash_function = x -> hash_function(x, seed)", "RendezvousHash.__init__:hash-wiring", "the instance hash applied to x is `%s`, not hash_function(x, seed)" % node_src(b), fn=init, node=init.node)
    hp = init.param("hash_function")
    r2.expect(hp is not None and isinstance(hp.default, ast.Name) and hp.default.id == "murmur3_32", "default hash is murmur3_32", "RendezvousHash.__init__:default-hash", "the default hash function is %s, not murmur3_32" % (node_src(hp.default) if hp is not None and hp.default is not None else None), fn=init, node=init.node)

    # ------------------------------------------------------------------ R3 argmax under (score, name)
    r3 = chk.rule("C11.R3", "the fold is the argmax under the total order (score, name): inductive step for any number of nodes + exhaustive small cases over all orderings and list orders")
    n_cases = 0
    unsupported = set()
    if loops and not maxform:
        loop = loops[0]
        # (a) inductive step: state (hs, winner) satisfying the invariant, one new element
        state_vars = _state_vars(gn, loop)
        if state_vars is None:
            # the loop does not keep its state in a (best score, winner) pair of variables: the same inductive step in a
            # form that does not name them - for every ordering of two nodes S and N, folding [S, N] leaves the loop in
            # the state that folding [W] alone leaves it in, W being the argmax under (score, name).  By induction
            # fold(xs) = fold([argmax xs]) for every xs, and what is returned for one node is that node (small cases).
            n_cases += _fold_step_generic(prog, gn, loop, r3)
            state_vars = None
        hs_var, win_var = state_vars if state_vars is not None else (None, None)
        cases = []
        for rel in ("<", "=", ">"):
            for name_rel in ("<", ">"):
                cases.append((rel, name_rel))
        for rel, name_rel in (cases if state_vars is not None else []):
            srank = {"S": 1, "N": {"<": 0, "=": 1, ">": 2}[rel]}
            nrank = {"S": 1, "N": 0 if name_rel == "<" else 2}
            dom = OrderDomain(prog, gn, srank, nrank, ["N"])
            interp = Interp(dom, gn.node, prog)
            st = Env({hs_var: Score("S"), win_var: Name("S")})
            tgt, _ = interp.assign(loop.target, Name("N"), st, Ctx(gn.node))
            outs = interp.block(loop.body, [(s, ()) for s in tgt], Ctx(gn.node))
            n_cases += 1
            unsupported |= set(dom.unsupported)
            want_hs = Score("N") if rel == ">" else Score("S")
            if rel == ">":
                want_w = Name("N")
            elif rel == "<":
                want_w = Name("S")
            else:
                want_w = Name("N") if name_rel == ">" else Name("S")
            ends = outs.of("norm") + outs.of("cont")
            bad = outs.of("exc") + outs.of("ret") + outs.of("brk")
            okc = ends and not bad and all(_same_rank(dom, s.get(hs_var), want_hs) and s.get(win_var) == want_w for s, v, t in ends)
            got = [(s.get(hs_var), s.get(win_var)) for s, v, t in ends] + [("exits", k) for k in ("exc", "ret", "brk") if outs.of(k)]
            r3.expect(okc, "step: score_new %s best, name_new %s winner -> (%s, %s)" % (rel, name_rel, want_hs, want_w), "RendezvousHash.get_node:step:score%sbest:name%swinner" % ({"<": "-below-", "=": "-ties-", ">": "-above-"}[rel], {"<": "-below-", ">": "-above-"}[name_rel]), "inductive step fails: with the new node's score %s the best so far and its name %s the current winner's, the loop body yields %s instead of (%s, %s)%s" % ({"<": "below", "=": "equal to", ">": "above"}[rel], {"<": "below", ">": "above"}[name_rel], got, want_hs, want_w, ": ties are not resolved to the greatest node name, so the result depends on insertion order" if rel == "=" else ""), fn=gn, node=loop)
        # initial state
        if state_vars is None:
            loops = []  # (the generic step covers the initial state through the one-node small case)
    if loops and not maxform:
        dom = OrderDomain(prog, gn, {"N": 0}, {"N": 0}, ["N"])
        interp = Interp(dom, gn.node, prog)
        pre = [s for s in gn.node.body if s.lineno < loop.lineno and not (isinstance(s, ast.Expr) and isinstance(s.value, ast.Constant))]
        o0 = interp.block(pre, [(Env(), ())], Ctx(gn.node))
        inits = [s for s, v, t in o0.of("norm")]
        tgt = []
        for s in inits:
            t2, _ = interp.assign(loop.target, Name("N"), s, Ctx(gn.node))
            tgt += t2
        outs = interp.block(loop.body, [(s, ()) for s in tgt], Ctx(gn.node))
        ends = outs.of("norm") + outs.of("cont")
        n_cases += 1
        okc = ends and not outs.of("exc") and all(s.get(hs_var) == Score("N") and s.get(win_var) == Name("N") for s, v, t in ends)
        r3.expect(okc, "initial state: the first node becomes the winner (scores are >= 0 > initial best)", "RendezvousHash.get_node:step:initial", "from the initial state the first node does not become (best, winner): %s" % [(s.get(hs_var), s.get(win_var)) for s, v, t in ends], fn=gn, node=loop)
        unsupported |= set(dom.unsupported)
    # (b) whole-function evaluation on all small cases
    maxn = 4 if chk.tier == "thorough" else 3
    mism = []
    for n in range(0, maxn + 1):
        ids = list(range(n))
        for ranks in (weak_orderings(n) if n else [()]):
            srank = {i: ranks[i] for i in ids}
            nrank = {i: i for i in ids}
            for order in itertools.permutations(ids):
                dom = OrderDomain(prog, gn, srank, nrank, list(order))
                outs = Interp(dom, gn.node, prog).run(Env())
                n_cases += 1
                unsupported |= set(dom.unsupported)
                rets = outs.of("ret")
                excs = outs.of("exc")
                want = Name(spec_winner(order, srank, nrank)) if n else NONE
                if excs or len(rets) != 1 or rets[0][1] != want:
                    mism.append((order, ranks, [v for s, v, t in rets] + [e for s, e, t in excs], want))
    if unsupported:
        raise AnalysisError("C11.R3: get_node uses constructs outside the ordering domain: %s" % sorted(unsupported)[:3])
    if mism:
        order, ranks, got, want = mism[0]
        r3.fail("RendezvousHash.get_node:not-argmax", "%d of the small cases differ from the published rule (highest score, ties to the greatest node name); e.g. nodes listed as %s with score ranks %s: get_node returns %s, the rule gives %s" % (len(mism), list(order), dict(zip(range(len(ranks)), ranks)), got, want), fn=gn, node=gn.node)
    else:
        r3.ok("all weak orderings x list orders for up to %d nodes agree with the argmax rule" % maxn)
    r3.count("abstract cases evaluated", n_cases)

    # ------------------------------------------------------------------ R4 rotation is a set
    r4 = chk.rule("C11.R4", "self.nodes is written only by __init__/add_node/remove_node; add appends only when absent; remove removes by value")
    for f in prog.all_functions():
        for n in walk_no_nested(f.node):
            if isinstance(n, ast.Attribute) and n.attr == "nodes" and isinstance(getattr(n, "_parent", None), (ast.Assign, ast.AugAssign, ast.Subscript, ast.Delete)) and isinstance(n.ctx, ast.Store):
                ok = f.cls is rv and f.name in ("__init__",)
                r4.expect(ok, "%s rebinds self.nodes" % f.qualname, "%s:rebinds-nodes" % f.qualname, "%s rebinds .nodes" % f.qualname, fn=f, node=n)
            if isinstance(n, ast.Call) and isinstance(n.func, ast.Attribute) and isinstance(n.func.value, ast.Attribute) and n.func.value.attr == "nodes" and n.func.attr in ("append", "remove", "pop", "insert", "extend", "clear", "sort", "reverse"):
                inside = f.cls is rv and f.name in ("add_node", "remove_node")
                if not inside:
                    r4.fail("%s:mutates-nodes" % f.qualname, "%s mutates the hasher's node list directly (`%s`)" % (f.qualname, node_src(n)), fn=f, node=n)
    add = prog.method(rv, "add_node")
    rem = prog.method(rv, "remove_node")
    decided_on_histories = rotation_histories(prog, rv, r4, chk.tier)
    for f, op in ((add, "append"), (rem, "remove")):
        muts = [n for n in walk_no_nested(f.node) if isinstance(n, ast.Call) and isinstance(n.func, ast.Attribute) and is_self_attr(n.func.value, "nodes")]
        other_state = [n for n in walk_no_nested(f.node) if isinstance(n, (ast.Assign, ast.AugAssign, ast.Delete)) and any(is_self_attr(x) or (isinstance(x, ast.Subscript)) for t in (n.targets if not isinstance(n, ast.AugAssign) else [n.target]) for x in ast.walk(t))]
        if not muts or any(m_.func.attr != op for m_ in muts) or other_state:
            if decided_on_histories:
                r4.note("%s keeps the rotation with more than one append/remove on self.nodes: decided on the add/remove histories alone" % f.qualname)
                continue
            raise AnalysisError("C11.R4: %s mutates the rotation in a way this rule has no model for (%s%s); the set-like behaviour of add/remove cannot be decided structurally" % (f.qualname, [node_src(m_) for m_ in muts], ", plus other state: " + node_src(other_state[0]) if other_state else ""))
        p = f.pos_params()[0].name
        for member in (True, False):
            dom = MemberDomain(prog, f, member, p)
            outs = Interp(dom, f.node, prog).run(Env({p: Opaque("the-node")}))
            for s_, v, t in outs.of("ret"):
                n_mut = s_.get("#mut", 0)
                if op == "append":
                    want = 0 if member else 1
                    r4.expect(n_mut == want and not dom.bad, "add_node(%s present): %d append(s)" % ("already" if member else "not yet", want), "RendezvousHash.add_node:membership-guard", "add_node performs %d append(s)%s when the node is %s in the rotation: the rotation stops behaving like a set (a duplicate entry survives one remove_node, so placement depends on history)" % (n_mut, " of something other than the given node" if dom.bad else "", "already" if member else "not yet"), fn=f, witness=fmt_trace(t))
                else:
                    r4.expect(member and n_mut == 1 and not dom.bad, "remove_node(present): removed once", "RendezvousHash.remove_node:membership-guard", "remove_node returns normally having performed %d removal(s)%s although the node is %s the rotation" % (n_mut, " of something other than the given node" if dom.bad else "", "in" if member else "not in"), fn=f, witness=fmt_trace(t))
            for s_, e_, t in outs.of("exc"):
                if op == "remove" and not member:
                    r4.expect(s_.get("#mut", 0) == 0, "remove_node(absent) raises without touching the rotation", "RendezvousHash.remove_node:mutates-before-raising", "remove_node raises for an absent node after already changing the rotation", fn=f, witness=fmt_trace(t))
                elif e_.cls not in (None,) or True:
                    if not (op == "remove" and member and e_.cls == "ValueError" and e_.origin and False):
                        r4.fail("RendezvousHash.%s:raises" % f.name, "%s raises %s when the node is %s the rotation" % (f.qualname, e_, "in" if member else "not in"), fn=f, witness=fmt_trace(t))

    # ------------------------------------------------------------------ R5 canonical node names
    r5 = chk.rule("C11.R5", "node names are derived from the normalised (host, port) through one function (_make_client_key)")
    n_add = 0
    for cname in ("HashClient", "AWSElastiCacheHashClient"):
        cls = prog.cls(cname)
        for f in cls.methods.values():
            for c in walk_no_nested(f.node):
                if isinstance(c, ast.Call) and call_name(c) == "self.add_server" and f.name in ("__init__", "reconfigure_nodes"):
                    n_add += 1
                    a = c.args[0] if c.args else None
                    ok = isinstance(a, ast.Call) and call_name(a) == "normalize_server_spec"
                    if not ok and isinstance(a, ast.Name):
                        # a loop variable over a list that was built with normalize_server_spec(...)
                        for anc in _ancestors(c):
                            if isinstance(anc, ast.For) and isinstance(anc.target, ast.Name) and anc.target.id == a.id and isinstance(anc.iter, ast.Name):
                                defs = [n for n in walk_no_nested(f.node) if isinstance(n, ast.Assign) and any(isinstance(t, ast.Name) and t.id == anc.iter.id for t in n.targets)]
                                ok = bool(defs) and all(isinstance(d.value, (ast.ListComp, ast.GeneratorExp)) and isinstance(d.value.elt, ast.Call) and call_name(d.value.elt) == "normalize_server_spec" for d in defs)
                    r5.expect(ok, "%s adds normalize_server_spec(server)" % f.qualname, "%s:unnormalised-server" % f.qualname, "%s adds `%s` without normalize_server_spec: equivalent spellings of an address give different node names and therefore different placement" % (f.qualname, node_src(a) if a is not None else None), fn=f, node=c)
    r5.floor("add_server sites in constructors", n_add, 2)
    hc = prog.cls("HashClient")
    # add_server / remove_server know a (host, port) server under the one name _make_client_key gives it: decided by
    # interpreting them on a concrete spec (whatever helpers carry the name to the hasher and the client table)
    from . import failhist

    failhist.node_name_rows(prog, r5)
    # the AWS subclass rebuilds the rotation on re-discovery: afterwards exactly the advertised nodes are in it (C19.R2)
    from . import rules_C19, report

    report.include_rules(chk, r4, rules_C19, ("C19.R2",), "after re-discovery the rotation is exactly the advertised node set, whatever the failover history")
    # placement depends on the set of servers in rotation: after failures and recoveries that set is the configured one
    # again only if eviction and revival keep their records coupled (C13.R4)
    from . import rules_C13

    report.include_rules(chk, r4, rules_C13, ("C13.R4",) + (("C13.R7",) if getattr(chk, "included_for", None) is None else ()), "a server that was taken out of rotation comes back (and only then leaves the dead list): placement after recovery is that of a fresh client")
    # placement is what the hasher says: the client a key is sent to is the one get_node names for it, on every path of
    # the router (a shortcut that answers from the client table instead keeps using servers that left the rotation)
    from . import rules_C12

    report.include_rules(chk, r4, rules_C12, ("C12.R2",), "the client a key-addressed call uses is the hasher's answer for that key, on every path of the router")
    # the published rule names the hash: placement is the argmax of MurmurHash3_x86_32 scores, so a murmur3_32 that
    # differs from it (for long strings, for some bytes) moves keys away from where other clients of the cluster put them
    from . import rules_C14

    report.include_rules(chk, r2, rules_C14, ("C14.R1", "C14.R3"), "the default hash function is MurmurHash3 x86_32")
    # the normaliser only cuts the spec apart: host and port of the result are pieces of the given text, never text
    # that some other function produced from it (case folding, URL / IDNA canonicalisation, ...), so two spellings are
    # told apart or identified by exactly the documented rules
    ns = prog.function("pymemcache/client/base.py", "normalize_server_spec")
    pdom = PieceDomain(prog, ns)
    pouts = Interp(pdom, ns.node, prog).run(Env({ns.pos_params()[0].name: Piece("the spec")}))
    n_ret = 0
    for s_, v, t in pouts.of("ret"):
        n_ret += 1
        bad = _rewritten(v)
        r5.expect(bad is None, "normalize_server_spec returns pieces of its argument", "normalize_server_spec:host-rewritten", "normalize_server_spec returns %s: the host (or path) is no longer a piece of the text the caller gave, so spellings that the documented rules tell apart can collapse and spellings that are equal can get different node names (e.g. `Cache-A:11211` as a string vs. the tuple ('Cache-A', 11211))" % (bad,), fn=ns, node=ns.node, witness=fmt_trace(t))
    r5.floor("return paths of normalize_server_spec", n_ret, 2)
    chk.assume("scores are non-negative integers (C14.R1), so the initial best score -1 is below every score")
    chk.assume("node names are str (HashClient._make_client_key yields str), so str(node) is the identity")
    chk.assume("HRW theorem: the argmax of per-node scores that depend only on (node, key) moves a key only from a removed node / onto an added node")


class RotationDomain(ExactCollections, Domain):
    """The hasher's methods interpreted on a concrete rotation: node names are pairwise distinct symbols, the lists and
    dicts the hasher keeps are heap objects with exact content (pmcsa/colls.py), `self.<attr>` lives in the state.  For
    get_node the sequence its (first) loop walks over is recorded: that is the rotation as placement sees it."""

    async_enabled = False
    subscript_may_raise = False
    unpack_may_raise = False
    max_inline_depth = 3

    def __init__(self, prog, fn):
        super().__init__(prog, fn)
        self.walked = None

    def mark_imprecise(self, state, node):
        return state.set("#imprecise", 1)

    def name_load(self, name, state, node=None):
        return state.get(name, TOP)

    def attr_load(self, objval, node, state):
        b = self.coll_attr(objval, node)
        if b is not None:
            return b
        if is_self_attr(node):
            return state.get("self." + node.attr, TOP)
        return TOP

    def for_next(self, node, itval, state):
        if self.walked is None and self.fn is not None and self.fn.name == "get_node":
            seq = self._seq(itval, state)
            self.walked = tuple(seq) if seq is not None else "unknown"
        return super().for_next(node, itval, state)

    def call(self, node, fval, args, kwargs, state):
        r = self.coll_call(node, fval, args, kwargs, state)
        if r is not None:
            return r
        name = call_name(node)
        if name.startswith("self._") and name.count(".") == 1 and self.prog is not None and self.fn is not None and self.fn.cls is not None:
            m = self.fn.cls.methods.get(name[5:])
            if m is not None:
                res = self.inline(node, m, args, kwargs, state)
                if res is not None:
                    return res
        return [("ok", TOP, state)]


def rotation_histories(prog, rv, r4, tier):
    """C11.R4, decided on histories: from an empty hasher, every sequence of add_node / remove_node calls over four
    node names is followed until no new hasher state turns up (or the depth bound is reached); after every call the
    sequence get_node walks over must hold exactly the nodes the same calls leave in a *set* - each once.  So the
    rotation depends on which nodes are in it and not on the calls that put them there, whatever bookkeeping (position
    indexes, swap-removal, rebuilt lists) the hasher uses internally."""
    from .colls import carry_over, new_object

    init = prog.method(rv, "__init__")
    add = prog.method(rv, "add_node")
    rem = prog.method(rv, "remove_node")
    gn = prog.method(rv, "get_node")
    U = [Opaque("N%d" % i) for i in range(1, 5)]
    depth = 7 if tier == "thorough" else 5
    keep = lambda k: k.startswith("self.")

    def call(f, carried, argval):
        dom = RotationDomain(prog, f)
        env = dict(carried)
        for p in f.params:
            if p.name == "self":
                continue
            if argval is not None and p is f.pos_params()[0]:
                env[p.name] = argval
            elif p.has_default:
                env[p.name] = Const(p.default.value) if isinstance(p.default, ast.Constant) else Opaque("default:" + p.name)
            else:
                env[p.name] = TOP
        outs = Interp(dom, f.node, prog).run(Env(env))
        return dom, outs

    def walked(carried):
        dom, outs = call(gn, carried, Opaque("key"))
        return dom.walked

    def problem(construct, msg, f):
        r4.fail(construct, msg, fn=f, node=f.node)

    dom, outs = call(init, {}, None)
    rets = outs.of("ret")
    if len(rets) != 1 or outs.of("exc") or rets[0][0].get("#imprecise", 0):
        r4.undecided("RendezvousHash.__init__:rotation", "the constructor does not leave one exactly known state (%d normal exits, %d raising)" % (len(rets), len(outs.of("exc"))))
        return
    start = carry_over(rets[0][0], keep)
    w = walked(start)
    if w is None or w == "unknown":
        r4.undecided("RendezvousHash.get_node:rotation", "the sequence get_node walks over is not an exactly known collection of the hasher")
        return
    if w != ():
        problem("RendezvousHash.__init__:rotation-not-empty", "a hasher constructed without nodes has %s in rotation" % [getattr(x, "tag", str(x)) for x in w], init)
        return
    seen = {}
    frontier = [(frozenset(), tuple(sorted(start.items(), key=str)), ())]
    n_calls = 0
    reported = set()
    for d in range(depth):
        nxt = []
        for S, frozen, hist in frontier:
            carried = dict(frozen)
            for f, opname in ((add, "add_node"), (rem, "remove_node")):
                for x in U:
                    n_calls += 1
                    h2 = hist + ("%s(%s)" % (opname, x.tag),)
                    dom, outs = call(f, carried, x)
                    rets, excs = outs.of("ret"), outs.of("exc")
                    if len(rets) + len(excs) != 1 or any(s.get("#imprecise", 0) for s, v, t in rets + excs):
                        r4.undecided("RendezvousHash.%s:history" % opname, "after %s the call does not have one exactly known outcome (%d normal, %d raising)" % (", ".join(h2), len(rets), len(excs)))
                        return
                    raised = bool(excs)
                    s2 = (rets or excs)[0][0]
                    if opname == "add_node":
                        S2 = S | {x}
                        want_raise = False
                    else:
                        S2 = S - {x}
                        want_raise = x not in S
                    key = "RendezvousHash.%s:history" % opname
                    if raised != want_raise:
                        if key not in reported:
                            reported.add(key)
                            problem(key, "after %s: %s %s although the node is %s rotation" % (", ".join(hist) or "construction", h2[-1], "raises %s" % excs[0][1].cls if raised else "returns normally", "in" if x in S else "not in"), f)
                        continue
                    carried2 = carry_over(s2, keep)
                    w = walked(carried2)
                    if w is None or w == "unknown":
                        r4.undecided("RendezvousHash.get_node:rotation", "after %s the sequence get_node walks over is not exactly known" % ", ".join(h2))
                        return
                    if sorted(w, key=str) != sorted(S2, key=str):
                        if key not in reported:
                            reported.add(key)
                            problem(key, "after %s the rotation get_node walks over is %s; the nodes added and not removed are %s - placement now depends on the history of calls, not on the set of nodes" % (", ".join(h2), [n_.tag if isinstance(n_, Opaque) else str(n_) for n_ in w], sorted(n_.tag for n_ in S2)), f)
                        continue
                    fz = tuple(sorted(carried2.items(), key=str))
                    if (S2, fz) not in seen:
                        seen[(S2, fz)] = h2
                        nxt.append((S2, fz, h2))
        frontier = nxt
        if not frontier:
            break
    r4.count("hasher states reached by add/remove histories", len(seen))
    r4.count("add/remove calls interpreted", n_calls)
    r4.floor("hasher states reached by add/remove histories", len(seen), 16)
    if not reported:
        r4.ok("every add_node/remove_node history over 4 node names (all %d reachable hasher states%s) leaves exactly the set of nodes in rotation" % (len(seen), "" if not frontier else ", depth %d" % depth))
    return True


class MemberDomain(Domain):
    """add_node / remove_node with the membership of the given node fixed."""

    async_enabled = False
    subscript_may_raise = False

    def __init__(self, prog, fn, member, pname):
        super().__init__(prog, fn)
        self.member = member
        self.pname = pname
        self.bad = []

    def attr_load(self, objval, node, state):
        if is_self_attr(node, "nodes"):
            return Opaque("nodes")
        if objval == Opaque("nodes"):
            return ("nodes-method", node.attr)
        return TOP

    def compare(self, node, op, l, r, state):
        if isinstance(op, (ast.In, ast.NotIn)) and r == Opaque("nodes") and l == Opaque("the-node"):
            return Const(self.member if isinstance(op, ast.In) else not self.member)
        return super().compare(node, op, l, r, state)

    def call(self, node, fval, args, kwargs, state):
        if isinstance(fval, tuple) and fval and fval[0] == "nodes-method":
            if fval[1] in ("append", "remove"):
                if not args or args[0] != Opaque("the-node"):
                    self.bad.append(node)
                st = state.set("#mut", state.get("#mut", 0) + 1)
                if fval[1] == "remove" and not self.member:
                    return [("exc", Exc(ORD, "ValueError", node.lineno), state)]
                return [("ok", NONE, st)]
            if fval[1] in ("count", "index", "__contains__"):
                return [("ok", TOP, state)]
        return [("ok", TOP, state)]


def _same_rank(dom, a, b):
    if a == b:
        return True
    ra, rb = dom.rank(a), dom.rank(b)
    return ra is not None and ra == rb


def _ancestors(n):
    n = getattr(n, "_parent", None)
    while n is not None:
        yield n
        n = getattr(n, "_parent", None)


def _enclosing_itervar(call):
    for a in _ancestors(call):
        if isinstance(a, ast.For) and isinstance(a.target, ast.Name):
            return a.target.id
        if isinstance(a, (ast.ListComp, ast.GeneratorExp)) and isinstance(a.generators[0].target, ast.Name):
            return a.generators[0].target.id
        if isinstance(a, ast.Lambda) and a.args.args:
            return a.args.args[0].arg
    return None


def _hash_input_ok(arg, lv, keyp):
    if lv is None:
        return False, "not inside an iteration over the nodes"
    names = sorted({n.id for n in ast.walk(arg) if isinstance(n, ast.Name) and n.id not in ("str", "self")}) if arg is not None else []
    attrs = [n for n in ast.walk(arg) if isinstance(n, (ast.Attribute, ast.Call)) and not (isinstance(n, ast.Call) and call_name(n) == "str")] if arg is not None else []
    if names != sorted({lv, keyp}) or attrs:
        return False, "it depends on %s%s instead of exactly the node and the key (a score that depends on the index, the number of nodes or another node breaks minimal disruption)" % (names, " and " + node_src(attrs[0]) if attrs else "")
    # shape '<node>-<key>'
    if isinstance(arg, ast.JoinedStr):
        parts = arg.values
        ok = len(parts) == 3 and isinstance(parts[0], ast.FormattedValue) and isinstance(parts[0].value, ast.Name) and parts[0].value.id == lv and isinstance(parts[1], ast.Constant) and parts[1].value == "-" and isinstance(parts[2], ast.FormattedValue) and isinstance(parts[2].value, ast.Name) and parts[2].value.id == keyp and parts[0].conversion == -1 and parts[2].conversion == -1 and parts[0].format_spec is None and parts[2].format_spec is None
        return ok, "the published input is '<node>-<key>'"
    if isinstance(arg, ast.BinOp) and isinstance(arg.op, ast.Mod) and isinstance(arg.left, ast.Constant) and arg.left.value == "%s-%s" and isinstance(arg.right, ast.Tuple) and [getattr(e, "id", None) for e in arg.right.elts] == [lv, keyp]:
        return True, ""
    return False, "the published input is '<node>-<key>'"


def _max_form(gn):
    return False


def _fold_step_generic(prog, gn, loop, r3):
    """The inductive step of the argmax fold without naming the accumulators; -> number of cases evaluated."""
    written = {n.id for n in ast.walk(loop) if isinstance(n, ast.Name) and isinstance(n.ctx, ast.Store)}
    after = {n.id for s_ in gn.node.body if s_.lineno > loop.end_lineno for n in ast.walk(s_) if isinstance(n, ast.Name) and isinstance(n.ctx, ast.Load)}
    # variables of the loop that are read before they are (re)assigned in an iteration, or after the loop: its state
    killed = {n.id for n in ast.walk(loop.target) if isinstance(n, ast.Name)}
    read_first = set()
    for st in loop.body:
        loads = {n.id for n in ast.walk(st) if isinstance(n, ast.Name) and isinstance(n.ctx, ast.Load)}
        read_first |= (loads - killed)
        if isinstance(st, ast.Assign) and all(isinstance(t, ast.Name) for t in st.targets):
            killed |= {t.id for t in st.targets} - loads
    carried = sorted(written & (read_first | after))
    n = 0
    for rel in ("<", "=", ">"):
        for name_rel in ("<", ">"):
            n += 1
            srank = {0: 1, 1: {"<": 0, "=": 1, ">": 2}[rel]}
            nrank = {0: 1, 1: 0 if name_rel == "<" else 2}
            w = 1 if (rel == ">" or (rel == "=" and name_rel == ">")) else 0
            finals = []
            for order in ([0, 1], [w]):
                dom = OrderDomain(prog, gn, srank, nrank, order)
                outs = Interp(dom, gn.node, prog).run(Env())
                rets = outs.of("ret")
                if len(rets) != 1 or outs.of("exc"):
                    finals.append(None)
                    continue
                s_, v, t = rets[0]
                finals.append((tuple((k, s_.get(k, None)) for k in carried), v))

            def same(a, b):
                # two scores of the same rank are the same number
                if isinstance(a, Score) and isinstance(b, Score):
                    return srank.get(a.id) == srank.get(b.id)
                if isinstance(a, TupleV) and isinstance(b, TupleV):
                    return len(a.items) == len(b.items) and all(same(x, y) for x, y in zip(a.items, b.items))
                if isinstance(a, tuple) and isinstance(b, tuple) and not hasattr(a, "_fields") and not hasattr(b, "_fields"):
                    return len(a) == len(b) and all(same(x, y) for x, y in zip(a, b))
                return a == b

            ok = finals[0] is not None and finals[1] is not None and same(finals[0], finals[1])
            r3.expect(ok, "step: fold([S, N]) = fold([argmax]) with score_N %s score_S, name_N %s name_S" % (rel, name_rel), "RendezvousHash.get_node:step:score%sbest:name%swinner" % ({"<": "-below-", "=": "-ties-", ">": "-above-"}[rel], {"<": "-below-", ">": "-above-"}[name_rel]), "inductive step fails: with the second node's score %s the first one's and its name %s, folding both leaves the loop state %s, folding the %s alone leaves %s%s" % ({"<": "below", "=": "equal to", ">": "above"}[rel], {"<": "below", ">": "above"}[name_rel], finals[0], "second" if w else "first", finals[1], ": ties are not resolved to the greatest node name, so the result depends on insertion order" if rel == "=" else ""), fn=gn, node=loop)
    return n


def _state_vars(gn, loop):
    """(best-score variable, winner variable): assigned before the loop and inside it; the winner is what is returned."""
    rets = [r for r in walk_no_nested(gn.node) if isinstance(r, ast.Return) and isinstance(r.value, ast.Name)]
    if not rets:
        return None
    win = rets[-1].value.id
    pre = {}
    for s in gn.node.body:
        if s.lineno >= loop.lineno:
            break
        if isinstance(s, ast.Assign) and len(s.targets) == 1:
            t = s.targets[0]
            if isinstance(t, ast.Name):
                pre[t.id] = s.value
            elif isinstance(t, ast.Tuple) and isinstance(s.value, ast.Tuple):
                for a, b in zip(t.elts, s.value.elts):
                    if isinstance(a, ast.Name):
                        pre[a.id] = b
    inloop = {n.id for n in ast.walk(loop) if isinstance(n, ast.Name) and isinstance(n.ctx, ast.Store)}
    cands = [v for v in pre if v in inloop and v != win]
    if win not in pre or len(cands) != 1:
        return None
    return cands[0], win
