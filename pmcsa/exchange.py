"""Path analysis of the request/response functions of Client, shared by C01 (ORD colour), C10 (ASYNC colour),
C07 (swallow coverage), C03 (chunk liveness) and C05.

Private helper methods of Client are *inlined* by the path interpreter (Domain.inline), so extracting the send step,
the read step or an error check into a helper does not change what is analysed.  Reader functions are first-class
values (FuncRef): `_reader = partial(_readsegment, ...)` or a reader passed as an argument is followed by value.

  request/response function (root) = a Client method in whose dynamic extent both a send (<sock>.sendall) and a read
  (a call of a recv-reaching module function) occur, and none of whose private callees already has both."""
import ast
from collections import namedtuple

from .model import AnalysisError, node_src, is_self_attr, call_name
from .paths import Interp, Domain, Env, TOP, Const, Neq, NONE, Opaque, FuncRef, Exc, ORD, ASYNC, fmt_trace, Ctx
from .report import walk_no_nested

Truthiness = namedtuple("Truthiness", "b")

READERS_BASE = "pymemcache/client/base.py"
# Client methods that are summarised rather than inlined
SUMMARISED = ("close", "disconnect_all", "_connect", "check_key", "_check_integer", "_check_cas")


def _has_sendall(f):
    return any(isinstance(n, ast.Call) and isinstance(n.func, ast.Attribute) and n.func.attr == "sendall" for n in walk_no_nested(f.node))


def recv_reaching_functions(prog):
    """Module functions of base.py from which <sock>.recv is reachable (transitively), by name."""
    mod = prog.module(READERS_BASE)
    direct = set()
    for f in mod.functions.values():
        for n in walk_no_nested(f.node):
            if isinstance(n, ast.Call) and isinstance(n.func, ast.Attribute) and n.func.attr in ("recv", "recv_into"):
                direct.add(f.name)
    reach = set(direct)
    changed = True
    while changed:
        changed = False
        for f in mod.functions.values():
            if f.name in reach:
                continue
            for n in walk_no_nested(f.node):
                if isinstance(n, ast.Call) and isinstance(n.func, ast.Name) and n.func.id in reach:
                    reach.add(f.name)
                    changed = True
                    break
    return direct, reach


def _private_callees(prog, f):
    client = prog.cls("Client")
    out = []
    for n in walk_no_nested(f.node):
        if isinstance(n, ast.Call) and isinstance(n.func, ast.Attribute) and is_self_attr(n.func) and n.func.attr in client.methods and n.func.attr.startswith("_") and n.func.attr not in SUMMARISED:
            out.append(client.methods[n.func.attr])
    return out


def reader_choosers(prog, readers):
    """Module-level functions of base.py that are not readers themselves but hand one out (`return _readline`,
    `return partial(_readsegment, ...)`), transitively: a method that calls one of them obtains a reader."""
    mod = prog.module(READERS_BASE)
    out = set()
    changed = True
    while changed:
        changed = False
        for f in mod.functions.values():
            if f.name in readers or f.name in out:
                continue
            if any(isinstance(x, ast.Name) and isinstance(x.ctx, ast.Load) and (x.id in readers or x.id in out) for x in walk_no_nested(f.node)):
                out.add(f.name)
                changed = True
    return out


def _facts(prog):
    """name -> (sends?, reads?) transitively over private helper methods of Client."""
    cache = prog.__dict__.setdefault("_exch_facts", None)
    if cache is not None:
        return cache
    direct, readers = recv_reaching_functions(prog)
    client = prog.cls("Client")
    send = {n: _has_sendall(f) for n, f in client.methods.items()}
    choosers = reader_choosers(prog, readers)
    read = {n: any(isinstance(x, ast.Name) and (x.id in readers or x.id in choosers) and isinstance(x.ctx, ast.Load) for x in walk_no_nested(f.node)) for n, f in client.methods.items()}
    changed = True
    while changed:
        changed = False
        for n, f in client.methods.items():
            for g in _private_callees(prog, f):
                if send[g.name] and not send[n]:
                    send[n] = True
                    changed = True
                if read[g.name] and not read[n]:
                    read[n] = True
                    changed = True
    prog.__dict__["_exch_facts"] = (send, read)
    return send, read


def exchange_functions(prog):
    """The request/response functions (roots), in source order."""
    send, read = _facts(prog)
    client = prog.cls("Client")
    out = []
    for n, f in client.methods.items():
        if not (send[n] and read[n]) or not n.startswith("_"):
            continue
        if any(send[g.name] and read[g.name] for g in _private_callees(prog, f)):
            continue
        out.append(f)
    return sorted(out, key=lambda f: f.node.lineno)


reading_exchange_functions = exchange_functions


def sendall_methods(prog):
    return sorted([f for f in prog.cls("Client").methods.values() if _has_sendall(f)], key=lambda f: f.node.lineno)


def send_helpers(prog):
    """Client methods that send but are not request/response functions (wrappers around the send step)."""
    roots = {f.name for f in exchange_functions(prog)}
    send, read = _facts(prog)
    return {n: f for n, f in prog.cls("Client").methods.items() if n.startswith("_") and send[n] and n not in roots and not read[n]}


def local_reader_aliases(fn, readers):
    """Names inside fn bound to a reader: `_reader = _readline`, `_reader = partial(_readsegment, ...)`, and
    parameters whose default or use is a reader (a reader passed in by the caller)."""
    al = set()
    for n in walk_no_nested(fn.node):
        if isinstance(n, ast.Assign) and len(n.targets) == 1 and isinstance(n.targets[0], ast.Name):
            v = n.value
            if isinstance(v, ast.Name) and v.id in readers:
                al.add(n.targets[0].id)
            elif isinstance(v, ast.Call) and call_name(v) in ("partial", "functools.partial") and v.args and isinstance(v.args[0], ast.Name) and v.args[0].id in readers:
                al.add(n.targets[0].id)
    return al


def methods_reaching_readers(prog, readers=None):
    """Private Client methods (other than the roots) in whose extent a reader is called, e.g. _extract_value or an
    extracted _read_reply helper."""
    send, read = _facts(prog)
    roots = {f.name for f in exchange_functions(prog)}
    return {n for n in prog.cls("Client").methods if n.startswith("_") and read[n] and n not in roots and not send[n]}


class ExchangeDomain(Domain):
    """Tracked facts: sent (a sendall was started), closed (Client.close passed since), caught (colour of an
    exception intercepted since the sendall), reads (reader calls since the sendall: 0 / 1 = one or more)."""

    global_keys = ("#sent", "#closed", "#caught", "#reads", "#noreply_root", "#nread")

    def __init__(self, prog, fn, readers, reader_methods=None, with_async=True, helpers=None):
        super().__init__(prog, fn)
        self.readers = set(readers)
        self.aliases = local_reader_aliases(fn, readers)  # syntactic fallback when a loop body is analysed on its own
        self.module = prog.module(READERS_BASE)
        self.async_enabled = with_async
        self.events = []  # (kind, node, state)
        self.n_sendall = 0
        self.n_reader_calls = set()
        self.n_close_calls = set()

    def init_state(self, fn_node):
        return Env({"#sent": 0, "#closed": 0, "#caught": None, "#reads": 0})

    def truth(self, v, state=None):
        if isinstance(v, Truthiness):
            return v.b
        if isinstance(v, FuncRef):
            return True
        return super().truth(v, state)

    def never_none(self, v):
        return (isinstance(v, Truthiness) and v.b) or isinstance(v, FuncRef) or super().never_none(v)

    def name_load(self, name, state, node=None):
        if state.has(name):
            return state.get(name)
        if name in self.module.functions:
            return FuncRef(name)
        return TOP

    def assume_name(self, key, value, branch, state):
        if value is TOP and (key.startswith("self.") or key in ("noreply",)):
            return state.set(key, Truthiness(branch))
        return super().assume_name(key, value, branch, state)

    def on_catch(self, handler, exc, state):
        if state.get("#sent", 0):
            cur = state.get("#caught", None)
            if cur != ASYNC:
                state = state.set("#caught", exc.colour)
        return state

    def is_reader_call(self, node, fval):
        if isinstance(fval, FuncRef) and fval.name in self.readers:
            return True
        if isinstance(node.func, ast.Name) and node.func.id in self.readers:
            return True
        return fval is TOP and not self.frames and isinstance(node.func, ast.Name) and node.func.id in self.aliases

    def on_read(self, node, args, state):
        """Hook for subclasses (counting, chunk tracking)."""
        return state

    def call(self, node, fval, args, kwargs, state):
        name = call_name(node)
        if isinstance(node.func, ast.Attribute) and node.func.attr == "sendall":
            self.n_sendall += 1
            s2 = state.update({"#sent": 1, "#closed": 0, "#caught": None, "#reads": 0})
            return [("ok", NONE, s2.set("self.sock", Neq(None)))] + self.call_raises(node, s2)
        if name in ("self.close", "self.disconnect_all"):
            self.n_close_calls.add(node.lineno)
            s2 = state.set("#closed", 1).set("self.sock", NONE)
            # Client.close is summarised as not raising (C06.R6); an interruption inside the cleanup call itself is
            # not an interruption point of the property's quantifier.
            return [("ok", NONE, s2)]
        if name in ("partial", "functools.partial") and args and isinstance(args[0], FuncRef):
            return [("ok", args[0], state)]
        if self.is_reader_call(node, fval):
            self.n_reader_calls.add(node.lineno)
            self.events.append(("read", node, state))
            s2 = self.on_read(node, args, state.set("#reads", 1))
            return [("ok", TOP, s2)] + self.call_raises(node, state)
        if name == "self._connect":
            return [("ok", NONE, state.set("self.sock", Neq(None)))] + self.call_raises(node, state)
        if isinstance(node.func, ast.Name) and node.func.id in self.module.functions and node.func.id not in self.readers and node.func.id in reader_choosers(self.prog, self.readers):
            # a module-level function that chooses the reader: followed, so that what it returns is a reader value
            res = self.inline(node, self.module.functions[node.func.id], args, kwargs, state)
            if res is not None:
                return res
        if name in ("isinstance", "len", "logger.debug"):
            return [("ok", TOP, state)]
        if name.startswith("self.") and name.count(".") == 1 and self.prog is not None:
            m = self.prog.cls("Client").methods.get(name[5:])
            if m is not None and name[5:].startswith("_") and name[5:] not in SUMMARISED:
                res = self.inline(node, m, args, kwargs, state)
                if res is not None:
                    return res
        return [("ok", TOP, state)] + self.call_raises(node, state)


def analyse_exchange(prog, fn, readers, reader_methods=None, with_async=True, helpers=None, domain_cls=None):
    """Run the path interpreter on one request/response function for every truthiness of noreply / ignore_exc.
    Returns list of (config, outs, dom, interp)."""
    runs = []
    has_noreply = fn.param("noreply") is not None
    cls = domain_cls or ExchangeDomain
    for noreply in ((True, False) if has_noreply else (None,)):
        for ign in (True, False):
            dom = cls(prog, fn, readers, None, with_async=with_async)
            st = dom.init_state(fn.node).set("self.ignore_exc", Truthiness(ign))
            if noreply is not None:
                st = st.set("noreply", Truthiness(noreply))
            interp = Interp(dom, fn.node, prog)
            outs = interp.run(st)
            runs.append(({"noreply": noreply, "ignore_exc": ign}, outs, dom, interp))
    return runs


def close_obligations(prog, fn, runs, colour):
    """For each exit of the function: (ok, kind, exc, cfg, trace, state).  colour = ORD or ASYNC."""
    res = []
    for cfg, outs, dom, interp in runs:
        for s, exc, t in outs.of("exc"):
            if exc.colour != colour or not s.get("#sent"):
                continue
            ok = bool(s.get("#closed"))
            res.append((ok, "raise", exc, cfg, t, s))
        for s, v, t in outs.of("ret"):
            if s.get("#sent") and s.get("#caught") == colour:
                ok = bool(s.get("#closed"))
                res.append((ok, "swallow", None, cfg, t, s))
    return res


def handler_desc(trace):
    hs = [x for x in trace if isinstance(x, str) and x.startswith("except@")]
    return hs[-1] if hs else "no handler"
