#!/bin/sh
# verify_seed.sh <dir-with-patch.diff-and-demo.py> : confirm a seeded change in a private scratch copy of /repo HEAD.
# Prints: suite=<tail line> demo_with_change=<rc> demo_without_change=<rc>
D="$1"; NAME=$(echo "$D" | tr '/' '_')
WT=/tmp/wt/verify_$NAME
rm -rf "$WT"; mkdir -p "$WT"
git -C /repo archive HEAD | tar -x -C "$WT" || exit 3
cd "$WT"
PYTHONPATH="$WT" /venv/bin/python "$D/demo.py" >/dev/null 2>&1; WITHOUT=$?
if ! patch -p1 -s < "$D/patch.diff"; then echo "patch does not apply"; cd /; rm -rf "$WT"; exit 3; fi
PYTHONPATH="$WT" /venv/bin/python "$D/demo.py" >/dev/null 2>&1; WITH=$?
SUITE=$(PYTHONPATH="$WT" /venv/bin/python -m pytest -q -p no:cacheprovider --timeout=900 -x 2>&1 | tail -1)
cd /; rm -rf "$WT"
echo "suite='$SUITE' demo_with_change=$WITH demo_without_change=$WITHOUT"
