"""C17 - RetryingClient retries exactly as configured (decided: loop bound, 64-row decision table, sleep placement,
transparency, constructor guards in linear normal form)."""
import ast
import itertools
from collections import namedtuple

from .model import AnalysisError, node_src, is_self_attr, call_name
from .paths import Interp, Domain, Env, TOP, NONE, Const, Exc, ORD, ASYNC, fmt_trace, Opaque, Ctx
from .report import walk_no_nested

LEVEL = "proof"
LEVEL_TEXT = (
    "_retry touches the attempt index only through one comparison (reduced to linear normal form over "
    "0 <= attempt < attempts) and the exception only through isinstance/membership tests, so the handler is evaluated "
    "abstractly for all 64 assignments of (last attempt, retry_for set, matches retry_for, do_not_retry_for set, matches "
    "it, name known) and compared with the specified decision; sleep placement and transparency are path facts; the "
    "constructor guards are decided as integer half-lines / type-class tables."
)
TRUSTED = ["CPython ast", "pmcsa/paths.py", "linear normal form and truth-table evaluation in pmcsa/rules_C17.py"]

Lin = namedtuple("Lin", "a b c")  # a*attempt + b*attempts + c
Truthiness = namedtuple("Truthiness", "b")
Atom = namedtuple("Atom", "name")


def lin_of(v):
    if isinstance(v, Lin):
        return v
    if isinstance(v, Const) and isinstance(v.v, int) and not isinstance(v.v, bool):
        return Lin(0, 0, v.v)
    return None


class RetryDomain(Domain):
    def __init__(self, prog, fn, cfg, func_outcome, with_async=False):
        super().__init__(prog, fn)
        self.cfg = cfg
        self.func_outcome = func_outcome  # 'ok' | 'raise' | 'async'
        self.async_enabled = False
        self.bad = []
        self.func_calls = []
        self.sleep_args = []

    def attr_load(self, objval, node, state):
        if is_self_attr(node):
            a = node.attr
            if a == "_attempts":
                return Lin(0, 1, 0)
            if a == "_retry_for":
                return Atom("retry_for")
            if a == "_do_not_retry_for":
                return Atom("do_not_retry_for")
            if a == "_client_dir":
                return Atom("client_dir")
            if a == "_retry_delay":
                return Atom("retry_delay")
        return TOP

    def truth(self, v, state=None):
        if isinstance(v, Atom):
            if v.name == "retry_for":
                return self.cfg["rf"]
            if v.name == "do_not_retry_for":
                return self.cfg["dnr"]
            return None
        if isinstance(v, Truthiness):
            return v.b
        return super().truth(v, state)

    def binop(self, node, l, r, state):
        a, b = lin_of(l), lin_of(r)
        if a is not None and b is not None:
            if isinstance(node.op, ast.Add):
                return Lin(a.a + b.a, a.b + b.b, a.c + b.c)
            if isinstance(node.op, ast.Sub):
                return Lin(a.a - b.a, a.b - b.b, a.c - b.c)
        return super().binop(node, l, r, state)

    def compare(self, node, op, l, r, state):
        a, b = lin_of(l), lin_of(r)
        if a is not None and b is not None and (a.a or a.b or b.a or b.b):
            d = Lin(a.a - b.a, a.b - b.b, a.c - b.c)
            if d.a + d.b != 0:
                self.bad.append(("comparison-not-relative", "comparison `%s` depends on the absolute attempt index or count, not on the position relative to the last attempt" % node_src(node), node))
                return TOP
            # attempt = attempts - 1 - k ; k = 0 on the last attempt, k >= 1 otherwise:  d = c - a*(1+k)
            def holds(k):
                val = d.c - d.a * (1 + k)
                return {ast.Lt: val < 0, ast.LtE: val <= 0, ast.Gt: val > 0, ast.GtE: val >= 0, ast.Eq: val == 0, ast.NotEq: val != 0}[type(op)]
            if type(op) not in (ast.Lt, ast.LtE, ast.Gt, ast.GtE, ast.Eq, ast.NotEq):
                return TOP
            last = state.get("is_last", self.cfg.get("last"))
            if last is None:
                return TOP
            if last:
                return Const(holds(0))
            vals = {holds(k) for k in (1, 2, 3, 10, 10**6)}
            if len(vals) != 1:
                self.bad.append(("comparison-not-uniform", "comparison `%s` is not uniform over the non-final attempts" % node_src(node), node))
                return TOP
            return Const(vals.pop())
        if isinstance(op, (ast.In, ast.NotIn)) and r == Atom("client_dir"):
            k = self.cfg["known"]
            return Const(k if isinstance(op, ast.In) else not k)
        return super().compare(node, op, l, r, state)

    def call(self, node, fval, args, kwargs, state):
        name = call_name(node)
        if name == "range":
            return [("ok", Opaque("range"), state)]
        if name == "func":
            self.func_calls.append(node)
            if state.get("calls", 0) >= 1 and state.get("sleeps", 0) != 1:
                self.bad.append(("sleep-between-attempts", "between two consecutive attempts sleep() runs %d times instead of exactly once" % state.get("sleeps", 0), node))
            st = state.set("calls", min(2, state.get("calls", 0) + 1)).set("sleeps", 0)
            if self.func_outcome == "ok":
                return [("ok", Opaque("result"), st)]
            if self.func_outcome == "async":
                return [("exc", Exc(ASYNC, None, node.lineno), st)]
            return [("exc", Exc(ORD, None, node.lineno), st)]
        if name == "isinstance" and len(args) == 2:
            if args[1] == Atom("retry_for"):
                return [("ok", Const(self.cfg["mrf"]), state)]
            if args[1] == Atom("do_not_retry_for"):
                return [("ok", Const(self.cfg["mdnr"]), state)]
            return [("ok", TOP, state)]
        if name in ("sleep", "time.sleep"):
            self.sleep_args.append(args[0] if args else None)
            return [("ok", NONE, state.set("sleeps", min(3, state.get("sleeps", 0) + 1)))]
        # helper methods of the class are inlined one level (e.g. a _should_retry helper)
        if name.startswith("self.") and name.count(".") == 1 and self.prog is not None:
            m = self.prog.method("RetryingClient", name[5:], required=False)
            if m is not None and getattr(self, "_depth", 0) < 2:
                self._depth = getattr(self, "_depth", 0) + 1
                try:
                    env = dict(state.d)
                    for p, a in zip(m.pos_params(), args):
                        env[p.name] = a
                    for k, v in kwargs.items():
                        env[k] = v
                    outs = Interp(self, m.node, self.prog).run(Env(env))
                finally:
                    self._depth -= 1
                res = []
                for s, v, t in outs.of("ret"):
                    res.append(("ok", v, state.update({k: val for k, val in s.d.items() if k in ("sleeps", "calls")})))
                for s, v, t in outs.of("exc"):
                    res.append(("exc", v, state))
                return res
        return [("ok", TOP, state)]

    def for_next(self, node, itval, state):
        if itval == Opaque("range"):
            if "last" in self.cfg:
                return [(Lin(1, 0, 0), state)]
            if state.get("is_last", None):
                return []  # the last index has been used: the range is exhausted
            return [(Lin(1, 0, 0), state.set("is_last", False)), (Lin(1, 0, 0), state.set("is_last", True))]
        return super().for_next(node, itval, state)

    def for_exhausted(self, node, itval, state):
        if itval == Opaque("range") and "last" not in self.cfg:
            # attempts >= 1 (R5): the loop ends only after the iteration with the last index
            return state if state.get("is_last", None) else None
        return state


def spec_raises(cfg):
    return cfg["last"] or (cfg["rf"] and not cfg["mrf"]) or (cfg["dnr"] and cfg["mdnr"]) or (not cfg["known"])


def half_line(test, var):
    """Integer solution set of a linear comparison in `var`: ('le', T) / ('ge', T) or None."""
    if not (isinstance(test, ast.Compare) and len(test.ops) == 1):
        return None

    def lin(e):
        if isinstance(e, ast.Name) and e.id == var:
            return (1, 0)
        if isinstance(e, ast.Constant) and isinstance(e.value, int) and not isinstance(e.value, bool):
            return (0, e.value)
        if isinstance(e, ast.BinOp) and isinstance(e.op, (ast.Add, ast.Sub)):
            l, r = lin(e.left), lin(e.right)
            if l is None or r is None:
                return None
            s = 1 if isinstance(e.op, ast.Add) else -1
            return (l[0] + s * r[0], l[1] + s * r[1])
        if isinstance(e, ast.UnaryOp) and isinstance(e.op, ast.USub):
            l = lin(e.operand)
            return None if l is None else (-l[0], -l[1])
        return None

    l, r = lin(test.left), lin(test.comparators[0])
    if l is None or r is None:
        return None
    a, c = l[0] - r[0], l[1] - r[1]  # a*var + c (op) 0
    op = type(test.ops[0])
    if a == 0:
        return None
    if a < 0:
        a, c = -a, -c
        op = {ast.Lt: ast.Gt, ast.LtE: ast.GtE, ast.Gt: ast.Lt, ast.GtE: ast.LtE}.get(op, op)
    if a != 1:
        return None
    # var + c (op) 0   <=>  var (op) -c
    t = -c
    if op is ast.Lt:
        return ("le", t - 1)
    if op is ast.LtE:
        return ("le", t)
    if op is ast.Gt:
        return ("ge", t + 1)
    if op is ast.GtE:
        return ("ge", t)
    return None


def run(chk):
    prog = chk.prog
    rc = prog.cls("RetryingClient")
    rt = prog.method(rc, "_retry")
    # ------------------------------------------------------------------ R1 loop bound
    r1 = chk.rule("C17.R1", "the only loop of _retry iterates range(self._attempts) and calls the delegate once per iteration")
    loops = [n for n in walk_no_nested(rt.node) if isinstance(n, (ast.For, ast.While))]
    ok = len(loops) == 1 and isinstance(loops[0], ast.For) and isinstance(loops[0].iter, ast.Call) and call_name(loops[0].iter) == "range" and len(loops[0].iter.args) == 1 and is_self_attr(loops[0].iter.args[0], "_attempts")
    r1.expect(ok, "loop is `for attempt in range(self._attempts)`", "RetryingClient._retry:loop-bound", "the retry loop is `%s`, not exactly range(self._attempts): more or fewer than `attempts` invocations become possible" % (node_src(loops[0].iter) if loops and isinstance(loops[0], ast.For) else [type(l).__name__ for l in loops]), fn=rt, node=loops[0] if loops else rt.node)
    if not ok:
        return
    loop = loops[0]
    fcalls = [c for c in walk_no_nested(rt.node) if isinstance(c, ast.Call) and isinstance(c.func, ast.Name) and c.func.id == "func"]
    inloop = [c for c in fcalls if any(y is c for y in ast.walk(loop))]
    r1.expect(len(fcalls) == 1 and len(inloop) == 1, "one call site of func, inside the loop", "RetryingClient._retry:delegate-call-sites", "func is called at %d sites (%d inside the loop): the number of invocations is no longer bounded by attempts" % (len(fcalls), len(inloop)), fn=rt, node=rt.node)
    attempts_writers = []
    for f in rc.methods.values():
        for n in walk_no_nested(f.node):
            if isinstance(n, (ast.Assign, ast.AugAssign)):
                for t in (n.targets if isinstance(n, ast.Assign) else [n.target]):
                    if is_self_attr(t, "_attempts"):
                        attempts_writers.append((f, n))
    okw = len(attempts_writers) == 1 and attempts_writers[0][0].name == "__init__" and isinstance(attempts_writers[0][1].value, ast.Name) and attempts_writers[0][1].value.id == "attempts"
    r1.expect(okw, "self._attempts is the constructor's `attempts`", "RetryingClient:_attempts-rewritten", "self._attempts is not simply the constructor argument (%s)" % [node_src(n) for f, n in attempts_writers], fn=rt)

    # ------------------------------------------------------------------ R2 decision table (64 rows) + R3 sleep placement
    r2 = chk.rule("C17.R2", "64-row decision table of the handler: raise <=> last attempt or (retry_for and no match) or (do_not_retry_for and match) or name unknown")
    r3 = chk.rule("C17.R3", "sleep(retry_delay) exactly once between two attempts and never after the last; the function cannot fall off its end")
    rows = 0
    mism = []
    sleep_bad = []
    for vals in itertools.product((False, True), repeat=5):
        cfg = dict(zip(("rf", "mrf", "dnr", "mdnr", "known"), vals))
        dom = RetryDomain(prog, rt, cfg, "raise")
        outs = Interp(dom, rt.node, prog).run(Env({"sleeps": 0, "calls": 0}))
        rows += 2
        for construct, msg, node in dom.bad:
            if construct == "sleep-between-attempts":
                sleep_bad.append((cfg, msg))
            else:
                r2.fail("RetryingClient._retry:" + construct, msg, fn=rt, node=node)
        for a in dom.sleep_args:
            if a != Atom("retry_delay"):
                sleep_bad.append((cfg, "the sleep argument is not self._retry_delay"))
        immediate = spec_raises(dict(cfg, last=False))  # must raise on whatever attempt fails first
        for s_, v, t in outs.of("ret"):
            mism.append((dict(cfg, last=bool(s_.get("is_last", None))), "returns %s although every attempt failed" % (v,), "raise"))
        exits = outs.of("exc")
        if not exits and not outs.of("ret"):
            mism.append((cfg, "never terminates", "raise"))
        for s_, exc, t in exits:
            last = bool(s_.get("is_last", None))
            row = dict(cfg, last=last)
            if not (exc.colour == ORD and exc.origin == inloop[0].lineno):
                mism.append((row, "raises a different exception (%s)" % (exc,), "re-raise of the caught one"))
            if immediate:
                if s_.get("calls") != 1:
                    mism.append((dict(cfg, last=False), "retries", "raise"))
            else:
                if not last:
                    mism.append((row, "raises", "retry"))
            if s_.get("sleeps"):
                sleep_bad.append((row, "sleeps %d time(s) after the final attempt, before raising" % s_.get("sleeps")))
        if not immediate and not any(bool(s_.get("is_last", None)) and s_.get("calls") == 2 for s_, e, t in exits):
            mism.append((dict(cfg, last=False), "raises", "retry"))
    if mism:
        cfg, got, want = mism[0]
        r2.fail("RetryingClient._retry:decision-table", "%d deviations from the 64-row specification; e.g. for %s _retry %s but must %s" % (len(mism), _fmt(cfg), got, want), fn=rt, node=loop)
    else:
        r2.ok("all 64 rows of (last, retry_for, matches, do_not_retry_for, matches, known) agree with the specified decision")
        r2.obligations += 63
        r2.discharged += 63
    r2.count("rows evaluated", rows)
    if sleep_bad:
        cfg, what = sleep_bad[0]
        r3.fail("RetryingClient._retry:sleep-placement", "%d rows with misplaced sleep; e.g. for %s: %s" % (len(sleep_bad), _fmt(cfg), what), fn=rt, node=loop)
    else:
        r3.ok("sleep(self._retry_delay) runs exactly once between consecutive attempts and never after the final one")
    r3.ok("no path of _retry returns without a successful call (falling off the end is infeasible for attempts >= 1)") if not any("returns" in str(m[1]) for m in mism) else None
    # success row and fall-through
    dom = RetryDomain(prog, rt, dict(last=True, rf=False, mrf=False, dnr=False, mdnr=False, known=True), "ok")
    interp = Interp(dom, rt.node, prog)
    st = Env({"sleeps": 0, "calls": 0})
    tgt_states, _ = interp.assign(loop.target, Lin(1, 0, 0), st, Ctx(rt.node))
    outs = interp.block(loop.body, [(s, ()) for s in tgt_states], Ctx(rt.node))
    r4 = chk.rule("C17.R4", "transparency: the first successful result is returned unchanged, the caught exception is the one re-raised, BaseException is never retried")
    rets = outs.of("ret")
    okr = len(rets) >= 1 and all(v == Opaque("result") and s.get("sleeps") == 0 and s.get("calls") == 1 for s, v, t in rets) and not outs.of("norm") and not outs.of("cont")
    r4.expect(okr, "success: returns func's value itself, at once", "RetryingClient._retry:success-path", "a successful call does not immediately return the delegate's own result (%s)" % [(v, s.get("sleeps")) for s, v, t in rets], fn=rt, node=loop)
    for outcome in ("async",):
        dom = RetryDomain(prog, rt, dict(last=False, rf=False, mrf=False, dnr=False, mdnr=False, known=True), outcome)
        interp = Interp(dom, rt.node, prog)
        tgt_states, _ = interp.assign(loop.target, Lin(1, 0, 0), Env({"sleeps": 0, "calls": 0}), Ctx(rt.node))
        outs = interp.block(loop.body, [(s, ()) for s in tgt_states], Ctx(rt.node))
        ex = outs.of("exc")
        oka = len(ex) >= 1 and all(e.colour == ASYNC and s.get("sleeps") == 0 for s, e, t in ex) and not outs.of("norm") and not outs.of("cont") and not outs.of("ret")
        r4.expect(oka, "a BaseException from the delegate propagates at once (never retried, no sleep)", "RetryingClient._retry:BaseException-retried", "a BaseException raised by the wrapped call is intercepted by the retry handler", fn=rt, node=loop)

    # ------------------------------------------------------------------ R5 constructor guards
    r5 = chk.rule("C17.R5", "construction: attempts <= 0 rejected (linear normal form), argument containers and element classes validated, overlap rejected, all with ValueError")
    init = prog.method(rc, "__init__")
    guards = [n for n in walk_no_nested(init.node) if isinstance(n, ast.If) and any(isinstance(x, ast.Name) and x.id == "attempts" for x in ast.walk(n.test))]
    okg = False
    why = "no guard on `attempts` found"
    if len(guards) == 1:
        hl = half_line(guards[0].test, "attempts")
        raises = [x for x in guards[0].body if isinstance(x, ast.Raise)]
        cls = call_name(raises[0].exc) if raises and isinstance(raises[0].exc, ast.Call) else None
        okg = hl == ("le", 0) and cls == "ValueError"
        why = "guard `%s` rejects attempts %s and raises %s" % (node_src(guards[0].test), ("<= %d" % hl[1] if hl and hl[0] == "le" else ">= %d" % hl[1] if hl else "?"), cls)
        # the guard dominates the assignment of self._attempts
        asg = [n for n in walk_no_nested(init.node) if isinstance(n, ast.Assign) and any(is_self_attr(t, "_attempts") for t in n.targets)]
        okg = okg and asg and guards[0].lineno < asg[0].lineno
    r5.expect(okg, "attempts guard is exactly `attempts <= 0 => ValueError` and precedes the first use", "RetryingClient.__init__:attempts-guard", "invalid `attempts` are not rejected exactly: %s (required: reject every attempts < 1 with ValueError, accept 1)" % why, fn=init, node=guards[0] if guards else init.node)
    et = prog.function("pymemcache/client/retrying.py", "_ensure_tuple_argument")
    _check_ensure_tuple(prog, et, r5)
    # both filters go through it
    for attr, par in (("_retry_for", "retry_for"), ("_do_not_retry_for", "do_not_retry_for")):
        asg = [n for n in walk_no_nested(init.node) if isinstance(n, ast.Assign) and any(is_self_attr(t, attr) for t in n.targets)]
        okv = len(asg) == 1 and isinstance(asg[0].value, ast.Call) and call_name(asg[0].value) == "_ensure_tuple_argument" and len(asg[0].value.args) == 2 and isinstance(asg[0].value.args[1], ast.Name) and asg[0].value.args[1].id == par
        r5.expect(okv, "self.%s = _ensure_tuple_argument(.., %s)" % (attr, par), "RetryingClient.__init__:%s-unvalidated" % par, "self.%s is not the validated form of the `%s` argument" % (attr, par), fn=init)
    # overlap
    ov = False
    for n in walk_no_nested(init.node):
        if isinstance(n, ast.For) and is_self_attr(n.iter) and n.iter.attr in ("_retry_for", "_do_not_retry_for") and isinstance(n.target, ast.Name):
            other = "_do_not_retry_for" if n.iter.attr == "_retry_for" else "_retry_for"
            for i in ast.walk(n):
                if isinstance(i, ast.If) and isinstance(i.test, ast.Compare) and len(i.test.ops) == 1 and isinstance(i.test.ops[0], ast.In) and isinstance(i.test.left, ast.Name) and i.test.left.id == n.target.id and is_self_attr(i.test.comparators[0], other):
                    rs = [x for x in i.body if isinstance(x, ast.Raise) and isinstance(x.exc, ast.Call) and call_name(x.exc) == "ValueError"]
                    ov = ov or bool(rs)
    r5.expect(ov, "a class present in both lists is rejected with ValueError", "RetryingClient.__init__:overlap-check", "the constructor no longer rejects an exception class that is in both retry_for and do_not_retry_for with ValueError", fn=init)


def _check_ensure_tuple(prog, et, r5):
    """Type-class table for _ensure_tuple_argument."""
    class TagDomain(Domain):
        async_enabled = False

        def __init__(self, tag, all_ok):
            super().__init__(prog, et)
            self.tag = tag
            self.all_ok = all_ok
            self.issub = []

        def call(self, node, fval, args, kwargs, state):
            name = call_name(node)
            if name == "isinstance" and len(node.args) == 2 and isinstance(node.args[0], ast.Name) and node.args[0].id == et.pos_params()[1].name:
                t = node.args[1]
                names = [e.id for e in t.elts] if isinstance(t, ast.Tuple) else ([t.id] if isinstance(t, ast.Name) else [])
                return [("ok", Const(self.tag in names), state)]
            if name == "all":
                return [("ok", Const(self.all_ok), state)]
            if name == "issubclass":
                okform = len(args) == 2 and args[0] == Opaque("element") and isinstance(node.args[1], ast.Name) and node.args[1].id == "Exception"
                self.issub.append((node, okform))
                # the abstract element stands for the offending element if there is one, else for any (valid) element
                return [("ok", Const(self.all_ok), state)]
            if name == "tuple":
                return [("ok", Opaque("tuple-of-arg" if node.args else "empty-tuple"), state)]
            return [("ok", TOP, state)]

        def for_next(self, node, itval, state):
            if itval in (Opaque("tuple-of-arg"), Opaque("arg")):
                k = ("visited", getattr(node, "lineno", 0))
                if state.get(k, False):
                    return []
                return [(Opaque("element"), state.set(k, True))]
            return [(TOP, state)]

        def for_exhausted(self, node, itval, state):
            if itval in (Opaque("tuple-of-arg"), Opaque("arg")) and not state.get(("visited", getattr(node, "lineno", 0)), False):
                return None
            return state

        def comprehension(self, node, elem_values, state):
            return Opaque("list-of-tests")

        def name_load(self, name, state, node=None):
            if name == et.pos_params()[1].name and not state.has(name):
                return Const(None) if self.tag == "None" else Opaque("arg")
            return state.get(name, TOP)

    rows = 0
    for tag in ("None", "tuple", "set", "list", "dict", "str", "frozenset", "int"):
        for all_ok in (True, False):
            d = TagDomain(tag, all_ok)
            outs = Interp(d, et.node, prog).run(Env())
            rows += 1
            rets, excs = outs.of("ret"), outs.of("exc")
            if tag == "None":
                ok = len(rets) >= 1 and not excs and all(v in (Opaque("empty-tuple"), Const(())) for s, v, t in rets)
                want = "return an empty tuple"
            elif tag in ("tuple", "set", "list"):
                if all_ok:
                    ok = len(rets) >= 1 and not excs and all(v == Opaque("tuple-of-arg") for s, v, t in rets)
                    want = "return tuple(argument)"
                else:
                    ok = not rets and excs and all(e.cls == "ValueError" for s, e, t in excs)
                    want = "raise ValueError for a non-Exception element"
            else:
                ok = not rets and excs and all(e.cls == "ValueError" for s, e, t in excs)
                want = "raise ValueError for a container of type %s" % tag
            r5.expect(ok, "_ensure_tuple_argument(%s, elements %s) must %s" % (tag, "ok" if all_ok else "bad", want), "_ensure_tuple_argument:row:%s:%s" % (tag, all_ok), "_ensure_tuple_argument on a %s argument (elements %s) must %s but %s" % (tag, "all Exception subclasses" if all_ok else "not all Exception subclasses", want, ("returns %s" % [v for s, v, t in rets]) if rets else ("raises %s" % [e.cls for s, e, t in excs])), fn=et, node=et.node)
    # the element test is issubclass(<element>, Exception), applied to the elements of the (converted) argument
    forms = []
    for all_ok in (True, False):
        d = TagDomain("list", all_ok)
        Interp(d, et.node, prog).run(Env())
        forms += d.issub
    ok = bool(forms) and all(f[1] for f in forms)
    r5.expect(ok, "element test is issubclass(element, Exception) over the elements of the argument", "_ensure_tuple_argument:element-test", "the element test is no longer `issubclass(element, Exception)` applied to the elements of the argument (%s)" % ([node_src(f[0]) for f in forms] or "no issubclass call reached"), fn=et, node=et.node)
    r5.count("type-class rows", rows)


def _fmt(cfg):
    return ", ".join("%s=%s" % (k, int(v)) for k, v in cfg.items())
