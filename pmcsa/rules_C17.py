"""C17 - RetryingClient retries exactly as configured (decided: loop bound, 64-row decision table, sleep placement,
transparency, constructor guards in linear normal form)."""
import ast
import itertools
from collections import namedtuple

from .model import AnalysisError, node_src, is_self_attr, call_name
from .colls import ExactCollections
from .paths import Interp, Domain, Env, TOP, NONE, Const, Exc, ORD, ASYNC, fmt_trace, Opaque, Ctx, ClassRef, TupleV
from .report import walk_no_nested

LEVEL = "proof"
LEVEL_TEXT = (
    "_retry touches the attempt index only through one comparison (reduced to linear normal form over "
    "0 <= attempt < attempts) and the exception only through isinstance/membership tests, so the handler is evaluated "
    "abstractly for all 64 assignments of (last attempt, retry_for set, matches retry_for, do_not_retry_for set, matches "
    "it, name known) and compared with the specified decision; sleep placement and transparency are path facts; the "
    "constructor guards are decided as integer half-lines / type-class tables. R1 bounds the number of delegate "
    "invocations for every `attempts` from the loop structure; R6 interprets _retry end to end for attempts 1..3 against "
    "every script of delegate outcomes the specification distinguishes (any loop structure); R7: no state is kept "
    "between calls. For a _retry that is not the canonical one-loop shape the all-attempts argument is R1 only and the "
    "behaviour is decided for attempts 1..3 (4 thorough)."
)
TRUSTED = ["CPython ast", "pmcsa/paths.py", "linear normal form and truth-table evaluation in pmcsa/rules_C17.py"]

Lin = namedtuple("Lin", "a b c")  # a*attempt + b*attempts + c
Truthiness = namedtuple("Truthiness", "b")
Atom = namedtuple("Atom", "name")


def lin_of(v):
    if isinstance(v, Lin):
        return v
    if isinstance(v, Const) and isinstance(v.v, int) and not isinstance(v.v, bool):
        return Lin(0, 0, v.v)
    return None


class RetryDomain(Domain):
    global_keys = ("#is_last", "#sleeps", "#calls")

    def __init__(self, prog, fn, cfg, func_outcome, with_async=False):
        super().__init__(prog, fn)
        self.cfg = cfg
        self.func_outcome = func_outcome  # 'ok' | 'raise' | 'async'
        self.async_enabled = False
        self.bad = []
        self.func_calls = []
        self.sleep_args = []

    def name_load(self, name, state, node=None):
        if name == "self" and not state.has("self"):
            return Opaque("self")
        return super().name_load(name, state, node)

    def never_none(self, v):
        return isinstance(v, (Atom, Lin)) or super().never_none(v)

    def attr_load(self, objval, node, state):
        if is_self_attr(node) or objval == Opaque("self"):  # the instance, under whatever name a helper receives it
            a = node.attr
            if a == "_attempts":
                return Lin(0, 1, 0)
            if a == "_retry_for":
                return Atom("retry_for")
            if a == "_do_not_retry_for":
                return Atom("do_not_retry_for")
            if a == "_client_dir":
                return Atom("client_dir")
            if a == "_retry_delay":
                return Atom("retry_delay")
        return TOP

    def truth(self, v, state=None):
        if isinstance(v, Atom):
            if v.name == "retry_for":
                return self.cfg["rf"]
            if v.name == "do_not_retry_for":
                return self.cfg["dnr"]
            return None
        if isinstance(v, Truthiness):
            return v.b
        return super().truth(v, state)

    def binop(self, node, l, r, state):
        a, b = lin_of(l), lin_of(r)
        if a is not None and b is not None:
            if isinstance(node.op, ast.Add):
                return Lin(a.a + b.a, a.b + b.b, a.c + b.c)
            if isinstance(node.op, ast.Sub):
                return Lin(a.a - b.a, a.b - b.b, a.c - b.c)
        return super().binop(node, l, r, state)

    def compare(self, node, op, l, r, state):
        a, b = lin_of(l), lin_of(r)
        if a is not None and b is not None and (a.a or a.b or b.a or b.b):
            d = Lin(a.a - b.a, a.b - b.b, a.c - b.c)
            if d.a + d.b != 0:
                self.bad.append(("comparison-not-relative", "comparison `%s` depends on the absolute attempt index or count, not on the position relative to the last attempt" % node_src(node), node))
                return TOP
            # attempt = attempts - 1 - k ; k = 0 on the last attempt, k >= 1 otherwise:  d = c - a*(1+k)
            def holds(k):
                val = d.c - d.a * (1 + k)
                return {ast.Lt: val < 0, ast.LtE: val <= 0, ast.Gt: val > 0, ast.GtE: val >= 0, ast.Eq: val == 0, ast.NotEq: val != 0}[type(op)]
            if type(op) not in (ast.Lt, ast.LtE, ast.Gt, ast.GtE, ast.Eq, ast.NotEq):
                return TOP
            last = state.get("#is_last", self.cfg.get("last"))
            if last is None:
                return TOP
            if last:
                return Const(holds(0))
            vals = {holds(k) for k in (1, 2, 3, 10, 10**6)}
            if len(vals) != 1:
                self.bad.append(("comparison-not-uniform", "comparison `%s` is not uniform over the non-final attempts" % node_src(node), node))
                return TOP
            return Const(vals.pop())
        if isinstance(op, (ast.In, ast.NotIn)) and r == Atom("client_dir"):
            k = self.cfg["known"]
            return Const(k if isinstance(op, ast.In) else not k)
        return super().compare(node, op, l, r, state)

    def call(self, node, fval, args, kwargs, state):
        name = call_name(node)
        if name == "range":
            return [("ok", Opaque("range"), state)]
        if name == "func":
            self.func_calls.append(node)
            if state.get("#calls", 0) >= 1 and state.get("#sleeps", 0) != 1:
                self.bad.append(("sleep-between-attempts", "between two consecutive attempts sleep() runs %d times instead of exactly once" % state.get("#sleeps", 0), node))
            st = state.set("#calls", min(2, state.get("#calls", 0) + 1)).set("#sleeps", 0)
            if self.func_outcome == "ok":
                return [("ok", Opaque("result"), st)]
            if self.func_outcome == "async":
                return [("exc", Exc(ASYNC, None, node.lineno), st)]
            return [("exc", Exc(ORD, None, node.lineno), st)]
        if name == "isinstance" and len(args) == 2:
            if args[1] == Atom("retry_for"):
                return [("ok", Const(self.cfg["mrf"]), state)]
            if args[1] == Atom("do_not_retry_for"):
                return [("ok", Const(self.cfg["mdnr"]), state)]
            return [("ok", TOP, state)]
        if name in ("sleep", "time.sleep"):
            self.sleep_args.append(args[0] if args else None)
            return [("ok", NONE, state.set("#sleeps", min(3, state.get("#sleeps", 0) + 1)))]
        if isinstance(node.func, ast.Name) and self.fn is not None and node.func.id in self.fn.module.functions:
            # a module-level helper (e.g. the give-up predicate): interpreted in line
            res = self.inline(node, self.fn.module.functions[node.func.id], args, kwargs, state)
            if res is not None:
                return res
        # helper methods of the class are inlined one level (e.g. a _should_retry helper)
        if name.startswith("self.") and name.count(".") == 1 and self.prog is not None:
            m = self.prog.method("RetryingClient", name[5:], required=False)
            if m is not None and getattr(self, "_depth", 0) < 2:
                self._depth = getattr(self, "_depth", 0) + 1
                try:
                    env = dict(state.d)
                    for p, a in zip(m.pos_params(), args):
                        env[p.name] = a
                    for k, v in kwargs.items():
                        env[k] = v
                    outs = Interp(self, m.node, self.prog).run(Env(env))
                finally:
                    self._depth -= 1
                res = []
                for s, v, t in outs.of("ret"):
                    res.append(("ok", v, state.update({k: val for k, val in s.d.items() if k in ("#sleeps", "#calls")})))
                for s, v, t in outs.of("exc"):
                    res.append(("exc", v, state))
                return res
        return [("ok", TOP, state)]

    def for_next(self, node, itval, state):
        if itval == Opaque("range"):
            if "last" in self.cfg:
                return [(Lin(1, 0, 0), state)]
            if state.get("#is_last", None):
                return []  # the last index has been used: the range is exhausted
            return [(Lin(1, 0, 0), state.set("#is_last", False)), (Lin(1, 0, 0), state.set("#is_last", True))]
        return super().for_next(node, itval, state)

    def for_exhausted(self, node, itval, state):
        if itval == Opaque("range") and "last" not in self.cfg:
            # attempts >= 1 (R5): the loop ends only after the iteration with the last index
            return state if state.get("#is_last", None) else None
        return state


class RetryRowsDomain(ExactCollections, Domain):
    """_retry interpreted end to end for a concrete number of attempts against a script of outcomes, one per call of
    the delegate: 'ok', 'async' (a BaseException) or ('exc', matches retry_for, matches do_not_retry_for).  Ranges are
    exact, so any loop structure (one loop, a peeled last attempt, a while loop over a counter) is followed as it is.
    Observed: the sequence of delegate calls and sleeps, and what comes out."""

    async_enabled = False
    subscript_may_raise = False
    unpack_may_raise = False
    max_inline_depth = 3
    global_keys = ("#ev", "#imprecise")
    ORIGIN = 100000

    def __init__(self, prog, fn, attempts, cfg, script):
        super().__init__(prog, fn)
        self.attempts, self.cfg, self.script = attempts, cfg, script

    def mark_imprecise(self, state, node):
        return state.set("#imprecise", 1)

    def name_load(self, name, state, node=None):
        if name == "self" and not state.has("self"):
            return Opaque("self")
        return state.get(name, TOP)

    def never_none(self, v):
        return isinstance(v, Atom) or super().never_none(v)

    def attr_load(self, objval, node, state):
        b = self.coll_attr(objval, node)
        if b is not None:
            return b
        if is_self_attr(node) or objval == Opaque("self"):
            a = node.attr
            if a == "_attempts":
                return Const(self.attempts)
            if a in ("_retry_for", "_do_not_retry_for", "_client_dir", "_retry_delay"):
                return Atom(a[1:])
        return TOP

    def truth(self, v, state=None):
        if isinstance(v, Atom):
            return {"retry_for": self.cfg["rf"], "do_not_retry_for": self.cfg["dnr"]}.get(v.name)
        return super().truth(v, state)

    def compare(self, node, op, l, r, state):
        if isinstance(op, (ast.In, ast.NotIn)) and r == Atom("client_dir"):
            k = self.cfg["known"]
            return Const(k if isinstance(op, ast.In) else not k)
        return super().compare(node, op, l, r, state)

    def _ev(self, state, *e):
        return state.set("#ev", state.get("#ev", ()) + (tuple(e),))

    def call(self, node, fval, args, kwargs, state):
        name = call_name(node)
        if name == "func":
            n = sum(1 for e in state.get("#ev", ()) if e[0] == "call") + 1
            st = self._ev(state, "call", n)
            out = self.script[n - 1] if n <= len(self.script) else "ok"
            if out == "ok":
                return [("ok", Opaque("result:%d" % n), st)]
            return [("exc", Exc(ASYNC if out == "async" else ORD, None, self.ORIGIN + n), st)]
        if name == "isinstance" and len(args) == 2 and isinstance(args[1], Atom) and hasattr(args[0], "origin") and isinstance(args[0].origin, int) and args[0].origin > self.ORIGIN:
            out = self.script[args[0].origin - self.ORIGIN - 1]
            if isinstance(out, tuple):
                return [("ok", Const(out[1] if args[1].name == "retry_for" else out[2]), state)]
            return [("ok", TOP, self.mark_imprecise(state, node))]
        if name in ("sleep", "time.sleep"):
            return [("ok", NONE, self._ev(state, "sleep", args[0] if args and isinstance(args[0], Atom) else "?"))]
        r = self.coll_call(node, fval, args, kwargs, state)
        if r is not None:
            return r
        if isinstance(node.func, ast.Name) and self.fn is not None and node.func.id in self.fn.module.functions:
            res = self.inline(node, self.fn.module.functions[node.func.id], args, kwargs, state)
            if res is not None:
                return res
        if name.startswith("self.") and name.count(".") == 1 and self.prog is not None:
            m = self.prog.method("RetryingClient", name[5:], required=False)
            if m is not None:
                res = self.inline(node, m, args, kwargs, state)
                if res is not None:
                    return res
        return [("ok", TOP, state)]


def retry_rows(prog, rt, rule, tier):
    """C17.R6: for attempts = 1..3 (4 in the thorough tier) and every configuration of the two filters and the name
    test, every script of delegate outcomes that the specification distinguishes is run through _retry; calls, sleeps
    and the outcome must be those of the specification."""
    n_rows, bad = 0, []
    for A in range(1, (4 if tier == "thorough" else 3) + 1):
        for rf, dnr, known in itertools.product((False, True), repeat=3):
            cfg = dict(rf=rf, dnr=dnr, known=known)
            excs = [("exc", m1, m2) for m1 in ((False, True) if rf else (False,)) for m2 in ((False, True) if dnr else (False,))]
            immediate = lambda o: (rf and not o[1]) or (dnr and o[2]) or not known
            cont = [o for o in excs if not immediate(o)]
            finals = ["ok", "async"] + excs
            scripts = []
            for k in range(1, A + 1):
                for pre in itertools.product(cont, repeat=k - 1):
                    for last in finals:
                        if k < A and isinstance(last, tuple) and not immediate(last):
                            continue  # (the specification goes on: covered by a longer prefix)
                        scripts.append(tuple(pre) + (last,))
            for script in scripts:
                n_rows += 1
                # ---- the specification
                want_ev, want = [], None
                for i, o in enumerate(script, 1):
                    want_ev.append(("call", i))
                    if o == "ok":
                        want = ("ret", i)
                        break
                    if o == "async" or i == A or immediate(o):
                        want = ("exc", i)
                        break
                    want_ev.append(("sleep", Atom("retry_delay")))
                dom = RetryRowsDomain(prog, rt, A, cfg, script)
                env = {"#ev": ()}
                for p in rt.params:
                    if p.name == "self":
                        continue
                    env[p.name] = TupleV(()) if p.kind == "vararg" else (TOP if p.kind == "kwarg" else Opaque("arg:" + p.name))
                outs = Interp(dom, rt.node, prog).run(Env(env))
                exits = [("ret", s, v) for s, v, t in outs.of("ret")] + [("exc", s, v) for s, v, t in outs.of("exc")]
                what = "attempts=%d, %s, delegate outcomes %s" % (A, _fmt(dict(cfg)), [o if isinstance(o, str) else "raises(%sretry_for, %sdo_not_retry_for)" % ("in " if o[1] else "not in ", "in " if o[2] else "not in ") for o in script])
                if len(exits) != 1 or exits[0][1].get("#imprecise", 0):
                    rule.undecided("RetryingClient._retry:rows", "%s: %d exits, not one exactly known outcome" % (what, len(exits)))
                    return n_rows
                kind, s_, v = exits[0]
                got_ev = list(s_.get("#ev", ()))
                if kind == "ret":
                    got = ("ret", int(v.tag.split(":")[1])) if isinstance(v, Opaque) and v.tag.startswith("result:") else ("ret", str(v))
                else:
                    got = ("exc", v.origin - RetryRowsDomain.ORIGIN) if isinstance(v.origin, int) and v.origin > RetryRowsDomain.ORIGIN else ("exc", str(v))
                if got_ev != want_ev or got != want:
                    bad.append((what, got_ev, got, want_ev, want))
    show = lambda ev: " ".join("call#%d" % e[1] if e[0] == "call" else "sleep(%s)" % (e[1].name if isinstance(e[1], Atom) else e[1]) for e in ev)
    res = lambda r: ("returns the result of call #%s" % r[1]) if r[0] == "ret" else ("raises what call #%s raised" % r[1])
    if bad:
        what, got_ev, got, want_ev, want = bad[0]
        rule.fail("RetryingClient._retry:rows", "%d of %d end-to-end rows deviate; e.g. %s: _retry does [%s] and %s; specified: [%s] and %s" % (len(bad), n_rows, what, show(got_ev), res(got), show(want_ev), res(want)), fn=rt, node=rt.node)
    else:
        rule.ok("all %d end-to-end rows (attempts 1..%d x filters x outcome scripts) make the specified calls and sleeps and hand out the specified result or exception" % (n_rows, 4 if tier == "thorough" else 3))
    rule.count("end-to-end retry rows", n_rows)
    rule.floor("end-to-end retry rows", n_rows, 100)
    return n_rows


def spec_raises(cfg):
    return cfg["last"] or (cfg["rf"] and not cfg["mrf"]) or (cfg["dnr"] and cfg["mdnr"]) or (not cfg["known"])


def half_line(test, var):
    """Integer solution set of a linear comparison in `var`: ('le', T) / ('ge', T) or None."""
    if not (isinstance(test, ast.Compare) and len(test.ops) == 1):
        return None

    def lin(e):
        if isinstance(e, ast.Name) and e.id == var:
            return (1, 0)
        if isinstance(e, ast.Constant) and isinstance(e.value, int) and not isinstance(e.value, bool):
            return (0, e.value)
        if isinstance(e, ast.BinOp) and isinstance(e.op, (ast.Add, ast.Sub)):
            l, r = lin(e.left), lin(e.right)
            if l is None or r is None:
                return None
            s = 1 if isinstance(e.op, ast.Add) else -1
            return (l[0] + s * r[0], l[1] + s * r[1])
        if isinstance(e, ast.UnaryOp) and isinstance(e.op, ast.USub):
            l = lin(e.operand)
            return None if l is None else (-l[0], -l[1])
        return None

    l, r = lin(test.left), lin(test.comparators[0])
    if l is None or r is None:
        return None
    a, c = l[0] - r[0], l[1] - r[1]  # a*var + c (op) 0
    op = type(test.ops[0])
    if a == 0:
        return None
    if a < 0:
        a, c = -a, -c
        op = {ast.Lt: ast.Gt, ast.LtE: ast.GtE, ast.Gt: ast.Lt, ast.GtE: ast.LtE}.get(op, op)
    if a != 1:
        return None
    # var + c (op) 0   <=>  var (op) -c
    t = -c
    if op is ast.Lt:
        return ("le", t - 1)
    if op is ast.LtE:
        return ("le", t)
    if op is ast.Gt:
        return ("ge", t + 1)
    if op is ast.GtE:
        return ("ge", t)
    return None


def run(chk):
    prog = chk.prog
    rc = prog.cls("RetryingClient")
    rt = prog.method(rc, "_retry")
    # ------------------------------------------------------------------ R1 loop bound
    r1 = chk.rule("C17.R1", "the delegate is invoked at most `attempts` times: its call sites sit in counted loops over range(self._attempts + c) or outside any loop, and the bounds add up to self._attempts")
    loops = [n for n in walk_no_nested(rt.node) if isinstance(n, (ast.For, ast.While))]
    fcalls = [c for c in walk_no_nested(rt.node) if isinstance(c, ast.Call) and isinstance(c.func, ast.Name) and c.func.id == "func"]
    # invocation bound, for every attempts >= 1: each call site is executed at most once per iteration of the (single,
    # un-nested) counted loop around it, or at most once if it is outside every loop
    total, why = [0, 0], None  # coefficient of attempts, constant
    for c in fcalls:
        around = [l for l in loops if any(y is c for y in ast.walk(l))]
        if not around:
            total[1] += 1
            continue
        b = _range_bound(around[0]) if len(around) == 1 else None
        if b is None:
            why = "the delegate is called inside `%s`, which is not a single counted loop over range(self._attempts + c)" % node_src(around[0]).split("\n")[0]
            break
        total[0] += b[0]
        total[1] += b[1]
    if why is not None:
        # a loop this rule cannot count (a while loop over a counter, a nested loop): the bound for *all* attempts is not
        # decided here (R6 still decides attempts 1..3)
        r1.undecided("RetryingClient._retry:loop-bound", why)
    ok = why is None and fcalls and tuple(total) == (1, 0)
    canonical = len(loops) == 1 and isinstance(loops[0], ast.For) and isinstance(loops[0].iter, ast.Call) and call_name(loops[0].iter) == "range" and len(loops[0].iter.args) == 1 and is_self_attr(loops[0].iter.args[0], "_attempts") and len(fcalls) == 1 and any(y is fcalls[0] for y in ast.walk(loops[0]))
    r1.expect(ok or why is not None, "invocations of the delegate are bounded by %d*attempts%+d" % tuple(total), "RetryingClient._retry:loop-bound", "the call sites of the delegate allow %d*attempts%+d invocations, not exactly `attempts`: more or fewer than `attempts` invocations become possible" % tuple(total), fn=rt, node=loops[0] if loops else rt.node)
    # ------------------------------------------------------------------ R7 every call starts from the configuration
    r7 = chk.rule("C17.R7", "every call starts from the configured state: _retry and __getattr__ write no instance state, and no attribute set by the constructor is a one-shot iterator that calls would use up between them")
    ONE_SHOT = ("iter", "map", "filter", "zip", "reversed", "enumerate", "repeat", "cycle", "count", "chain", "islice", "takewhile", "dropwhile", "accumulate", "starmap", "tee", "zip_longest", "product", "permutations", "combinations")
    init_f = prog.method(rc, "__init__")
    for n in walk_no_nested(init_f.node):
        if isinstance(n, (ast.Assign, ast.AnnAssign)) and n.value is not None:
            tg = n.targets if isinstance(n, ast.Assign) else [n.target]
            v = n.value
            lazy = isinstance(v, ast.GeneratorExp) or (isinstance(v, ast.Call) and call_name(v).split(".")[-1] in ONE_SHOT)
            for t in tg:
                if is_self_attr(t) and lazy:
                    r7.fail("RetryingClient.__init__:one-shot-iterator:%s" % t.attr, "self.%s is set to `%s`, an iterator that can be walked once: the calls made through this client share it, so what one call consumes (delays, attempts) is missing from the next" % (t.attr, node_src(v)), fn=init_f, node=n)
    for f in (rt, prog.method(rc, "__getattr__")):
        writes = [n for n in ast.walk(f.node) if (isinstance(n, ast.Attribute) and isinstance(n.ctx, (ast.Store, ast.Del)) and is_self_attr(n)) or (isinstance(n, ast.Subscript) and isinstance(n.ctx, (ast.Store, ast.Del)) and is_self_attr(n.value))]
        from .report import memory_between_calls

        mem = memory_between_calls(f)
        what = ("writes `%s`" % node_src(writes[0])) if writes else (mem[0][1] if mem else "")
        r7.expect(not writes and not mem, "%s writes no instance or module state" % f.qualname, "%s:writes-state" % f.qualname, "%s %s: the outcome of a call depends on the calls made before it" % (f.qualname, what), fn=f, node=(writes[0] if writes else mem[0][0]) if (writes or mem) else f.node)
    r6 = chk.rule("C17.R6", "end to end for attempts = 1..3: for every filter configuration and every script of delegate outcomes, _retry makes the specified calls and sleeps and hands out the specified result or exception (any loop structure)")
    retry_rows(prog, rt, r6, chk.tier)
    if not ok:
        return
    if not canonical:
        # R2-R4 are the all-`attempts` argument for the canonical shape (one loop over range(self._attempts) around the
        # one call site); another loop structure is decided by R1 (bound, all attempts) and R6 (behaviour, attempts <= 3)
        for rid, text in (("C17.R2", "64-row decision table of the handler"), ("C17.R3", "sleep placement"), ("C17.R4", "transparency")):
            rr = chk.rule(rid, text + " (symbolic in the attempt index; applies to the canonical one-loop shape)")
            rr.note("_retry does not have the canonical shape `for attempt in range(self._attempts): try: return func(...)`: decided by R1 for all attempts (invocation bound) and by R6 for attempts 1..3 (behaviour)")
            rr.ok("not applicable to this loop structure; see R6")
        r5 = chk.rule("C17.R5", "construction, interpreted end to end on exact argument collections: attempts < 1 rejected for every integer, argument containers and element classes validated, overlap rejected, all with ValueError; valid configurations are stored as given")
        constructor_rows(prog, prog.method(rc, "__init__"), r5)
        _attempts_writers(rc, rt, r1)
        return
    loop = loops[0]
    inloop = [c for c in fcalls if any(y is c for y in ast.walk(loop))]
    _attempts_writers(rc, rt, r1)

    # ------------------------------------------------------------------ R2 decision table (64 rows) + R3 sleep placement
    r2 = chk.rule("C17.R2", "64-row decision table of the handler: raise <=> last attempt or (retry_for and no match) or (do_not_retry_for and match) or name unknown")
    r3 = chk.rule("C17.R3", "sleep(retry_delay) exactly once between two attempts and never after the last; the function cannot fall off its end")
    rows = 0
    mism = []
    sleep_bad = []
    for vals in itertools.product((False, True), repeat=5):
        cfg = dict(zip(("rf", "mrf", "dnr", "mdnr", "known"), vals))
        dom = RetryDomain(prog, rt, cfg, "raise")
        outs = Interp(dom, rt.node, prog).run(Env({"#sleeps": 0, "#calls": 0}))
        rows += 2
        for construct, msg, node in dom.bad:
            if construct == "sleep-between-attempts":
                sleep_bad.append((cfg, msg))
            else:
                r2.fail("RetryingClient._retry:" + construct, msg, fn=rt, node=node)
        for a in dom.sleep_args:
            if a != Atom("retry_delay"):
                sleep_bad.append((cfg, "the sleep argument is not self._retry_delay"))
        immediate = spec_raises(dict(cfg, last=False))  # must raise on whatever attempt fails first
        for s_, v, t in outs.of("ret"):
            mism.append((dict(cfg, last=bool(s_.get("#is_last", None))), "returns %s although every attempt failed" % (v,), "raise"))
        exits = outs.of("exc")
        if not exits and not outs.of("ret"):
            mism.append((cfg, "never terminates", "raise"))
        for s_, exc, t in exits:
            last = bool(s_.get("#is_last", None))
            row = dict(cfg, last=last)
            if not (exc.colour == ORD and exc.origin == inloop[0].lineno):
                mism.append((row, "raises a different exception (%s)" % (exc,), "re-raise of the caught one"))
            if immediate:
                if s_.get("#calls") != 1:
                    mism.append((dict(cfg, last=False), "retries", "raise"))
            else:
                if not last:
                    mism.append((row, "raises", "retry"))
            if s_.get("#sleeps"):
                sleep_bad.append((row, "sleeps %d time(s) after the final attempt, before raising" % s_.get("#sleeps")))
        if not immediate and not any(bool(s_.get("#is_last", None)) and s_.get("#calls") == 2 for s_, e, t in exits):
            mism.append((dict(cfg, last=False), "raises", "retry"))
    if mism:
        cfg, got, want = mism[0]
        r2.fail("RetryingClient._retry:decision-table", "%d deviations from the 64-row specification; e.g. for %s _retry %s but must %s" % (len(mism), _fmt(cfg), got, want), fn=rt, node=loop)
    else:
        r2.ok("all 64 rows of (last, retry_for, matches, do_not_retry_for, matches, known) agree with the specified decision")
        r2.obligations += 63
        r2.discharged += 63
    r2.count("rows evaluated", rows)
    if sleep_bad:
        cfg, what = sleep_bad[0]
        r3.fail("RetryingClient._retry:sleep-placement", "%d rows with misplaced sleep; e.g. for %s: %s" % (len(sleep_bad), _fmt(cfg), what), fn=rt, node=loop)
    else:
        r3.ok("sleep(self._retry_delay) runs exactly once between consecutive attempts and never after the final one")
    r3.ok("no path of _retry returns without a successful call (falling off the end is infeasible for attempts >= 1)") if not any("returns" in str(m[1]) for m in mism) else None
    # success row and fall-through
    dom = RetryDomain(prog, rt, dict(last=True, rf=False, mrf=False, dnr=False, mdnr=False, known=True), "ok")
    interp = Interp(dom, rt.node, prog)
    st = Env({"#sleeps": 0, "#calls": 0})
    tgt_states, _ = interp.assign(loop.target, Lin(1, 0, 0), st, Ctx(rt.node))
    outs = interp.block(loop.body, [(s, ()) for s in tgt_states], Ctx(rt.node))
    r4 = chk.rule("C17.R4", "transparency: the first successful result is returned unchanged, the caught exception is the one re-raised, BaseException is never retried")
    rets = outs.of("ret")
    okr = len(rets) >= 1 and all(v == Opaque("result") and s.get("#sleeps") == 0 and s.get("#calls") == 1 for s, v, t in rets) and not outs.of("norm") and not outs.of("cont")
    r4.expect(okr, "success: returns func's value itself, at once", "RetryingClient._retry:success-path", "a successful call does not immediately return the delegate's own result (%s)" % [(v, s.get("#sleeps")) for s, v, t in rets], fn=rt, node=loop)
    for outcome in ("async",):
        dom = RetryDomain(prog, rt, dict(last=False, rf=False, mrf=False, dnr=False, mdnr=False, known=True), outcome)
        interp = Interp(dom, rt.node, prog)
        tgt_states, _ = interp.assign(loop.target, Lin(1, 0, 0), Env({"#sleeps": 0, "#calls": 0}), Ctx(rt.node))
        outs = interp.block(loop.body, [(s, ()) for s in tgt_states], Ctx(rt.node))
        ex = outs.of("exc")
        oka = len(ex) >= 1 and all(e.colour == ASYNC and s.get("#sleeps") == 0 for s, e, t in ex) and not outs.of("norm") and not outs.of("cont") and not outs.of("ret")
        r4.expect(oka, "a BaseException from the delegate propagates at once (never retried, no sleep)", "RetryingClient._retry:BaseException-retried", "a BaseException raised by the wrapped call is intercepted by the retry handler", fn=rt, node=loop)

    # ------------------------------------------------------------------ R5 constructor guards
    r5 = chk.rule("C17.R5", "construction, interpreted end to end on exact argument collections: attempts < 1 rejected for every integer, argument containers and element classes validated, overlap rejected, all with ValueError; valid configurations are stored as given")
    constructor_rows(prog, prog.method(rc, "__init__"), r5)


def _attempts_writers(rc, rt, r1):
    attempts_writers = []
    for f in rc.methods.values():
        for n in walk_no_nested(f.node):
            if isinstance(n, (ast.Assign, ast.AugAssign)):
                for t in (n.targets if isinstance(n, ast.Assign) else [n.target]):
                    if is_self_attr(t, "_attempts"):
                        attempts_writers.append((f, n))
    okw = len(attempts_writers) == 1 and attempts_writers[0][0].name == "__init__" and isinstance(attempts_writers[0][1].value, ast.Name) and attempts_writers[0][1].value.id == "attempts"
    r1.expect(okw, "self._attempts is the constructor's `attempts`", "RetryingClient:_attempts-rewritten", "self._attempts is not simply the constructor argument (%s)" % [node_src(n) for f, n in attempts_writers], fn=rt)


def _range_bound(loop):
    """(a, c): the loop runs a*attempts + c times, for `for _ in range([k,] self._attempts +/- m)`; None otherwise."""
    if not (isinstance(loop, ast.For) and isinstance(loop.iter, ast.Call) and call_name(loop.iter) == "range" and 1 <= len(loop.iter.args) <= 3 and not loop.iter.keywords):
        return None

    def aff(e):
        if is_self_attr(e, "_attempts"):
            return (1, 0)
        if isinstance(e, ast.Constant) and isinstance(e.value, int) and not isinstance(e.value, bool):
            return (0, e.value)
        if isinstance(e, ast.BinOp) and isinstance(e.op, (ast.Add, ast.Sub)):
            l, r = aff(e.left), aff(e.right)
            if l is None or r is None:
                return None
            sg = 1 if isinstance(e.op, ast.Add) else -1
            return (l[0] + sg * r[0], l[1] + sg * r[1])
        return None

    args = [aff(a if not (isinstance(a, ast.UnaryOp) and isinstance(a.op, ast.USub) and isinstance(a.operand, ast.Constant)) else ast.Constant(value=-a.operand.value)) for a in loop.iter.args]
    if any(a is None for a in args):
        return None
    if len(args) == 3:
        # a countdown: range(hi, lo, -1) runs hi - lo times
        if args[2] != (0, -1):
            return None if args[2] != (0, 1) else _affine_count(args[0], args[1])
        return _affine_count(args[1], args[0])
    lo, hi = ((0, 0), args[0]) if len(args) == 1 else (args[0], args[1])
    if lo[0] != 0:
        return None
    b = (hi[0], hi[1] - lo[1])
    # (for attempts >= 1 a bound attempts + c with c >= -1 is never negative, so the count is exactly the bound)
    return b if b[0] in (0, 1) and (b[0] == 1 and b[1] >= -1 or b[0] == 0 and b[1] >= 0) else None


def _affine_count(lo, hi):
    b = (hi[0] - lo[0], hi[1] - lo[1])
    return b if b[0] in (0, 1) and (b[0] == 1 and b[1] >= -1 or b[0] == 0 and b[1] >= 0) else None


IntSym = namedtuple("IntSym", "name")  # an unknown integer; its interval is state[("iv", name)] = (lo, hi), None = unbounded
Arg = namedtuple("Arg", "tag items")  # a caller-supplied container of the given Python type
TypeTag = namedtuple("TypeTag", "name")


class InitDomain(ExactCollections, Domain):
    """RetryingClient.__init__ with module-level helpers inlined."""

    async_enabled = False
    subscript_may_raise = False
    unpack_may_raise = False
    max_inline_depth = 3

    def mark_imprecise(self, state, node):
        return state.set("#imprecise", 1)

    def is_global_key(self, k):
        return k == "#imprecise" or super().is_global_key(k)

    def name_load(self, name, state, node=None):
        if state.has(name):
            return state.get(name)
        if name in ("tuple", "set", "list", "dict", "frozenset", "str", "int", "bytes"):
            return TypeTag(name)
        return TOP

    def attr_load(self, objval, node, state):
        b = self.coll_attr(objval, node)
        if b is not None:
            return b
        return super().attr_load(objval, node, state)

    def _seq(self, itval, state=None):
        if isinstance(itval, Arg):
            return itval.items if itval.tag in ("tuple", "list", "set", "frozenset") else None
        return super()._seq(itval, state)

    def truth(self, v, state=None):
        if isinstance(v, Arg):
            return len(v.items) > 0 if v.items is not None else None
        if isinstance(v, TypeTag):
            return True
        return super().truth(v, state)

    def never_none(self, v):
        return isinstance(v, (Arg, TypeTag, IntSym)) or super().never_none(v)

    def _iv(self, v, state):
        return state.get(("iv", v.name), (None, None))

    def compare(self, node, op, l, r, state):
        for a, b, flip in ((l, r, False), (r, l, True)):
            if isinstance(a, IntSym) and isinstance(b, Const) and isinstance(b.v, int) and not isinstance(b.v, bool) and isinstance(op, (ast.Lt, ast.LtE, ast.Gt, ast.GtE, ast.Eq, ast.NotEq)):
                lo, hi = self._iv(a, state)
                t = _rel(type(op), flip)
                yes, no = _split(lo, hi, t, b.v)
                if yes is None:
                    return Const(False)
                if no is None:
                    return Const(True)
                return TOP
        return super().compare(node, op, l, r, state)

    def refine_compare(self, node, op, lexpr, l, rexpr, r, branch, state):
        for a, b, flip in ((l, r, False), (r, l, True)):
            if isinstance(a, IntSym) and isinstance(b, Const) and isinstance(b.v, int) and not isinstance(b.v, bool) and isinstance(op, (ast.Lt, ast.LtE, ast.Gt, ast.GtE, ast.Eq, ast.NotEq)):
                lo, hi = self._iv(a, state)
                yes, no = _split(lo, hi, _rel(type(op), flip), b.v)
                iv = yes if branch else no
                if iv is None:
                    return None
                if iv == "hole":
                    return state  # != on an interval: not representable, keep
                return state.set(("iv", a.name), iv)
        return super().refine_compare(node, op, lexpr, l, rexpr, r, branch, state)

    def binop(self, node, l, r, state):
        if isinstance(l, IntSym) or isinstance(r, IntSym):
            return TOP
        return super().binop(node, l, r, state)

    def call(self, node, fval, args, kwargs, state):
        r = self.coll_call(node, fval, args, kwargs, state)
        if r is not None:
            return r
        name = call_name(node)
        if name == "isinstance" and len(args) == 2:
            tags = [t.name for t in (args[1].items if isinstance(args[1], TupleV) else [args[1]]) if isinstance(t, TypeTag)]
            v = args[0]
            ty = v.tag if isinstance(v, Arg) else ("tuple" if isinstance(v, TupleV) else ("NoneType" if v == NONE else ("int" if isinstance(v, IntSym) else (type(v.v).__name__ if isinstance(v, Const) else None))))
            if ty is not None and tags:
                return [("ok", Const(ty in tags), state)]
            return [("ok", TOP, state)]
        if isinstance(fval, TypeTag) and fval.name in ("tuple", "list", "set", "frozenset") and len(args) <= 1:
            if not args:
                return [("ok", TupleV(()), state)]
            seq = self._seq(args[0], state)
            if seq is not None:
                return [("ok", TupleV(tuple(seq)) if fval.name == "tuple" else Arg(fval.name, tuple(seq)), state)]
            return [("exc", Exc(ORD, "TypeError", node.lineno), state)]
        if name == "issubclass" and len(args) == 2:
            c, b = args
            bs = list(b.items) if isinstance(b, TupleV) else [b]
            if isinstance(c, ClassRef) and bs and all(isinstance(x, ClassRef) for x in bs):
                return [("ok", Const(any(x.name in self.prog.exception_bases(c.name) or x.name == c.name for x in bs)), state)]
            if isinstance(c, (Const, Opaque)):
                return [("exc", Exc(ORD, "TypeError", node.lineno), state)]
            return [("ok", TOP, state)]
        if isinstance(node.func, ast.Name) and node.func.id in self.fn.module.functions:
            res = self.inline(node, self.fn.module.functions[node.func.id], args, kwargs, state)
            if res is not None:
                return res
        return [("ok", TOP, state)]


def _rel(op, flip):
    if flip:
        op = {ast.Lt: ast.Gt, ast.LtE: ast.GtE, ast.Gt: ast.Lt, ast.GtE: ast.LtE}.get(op, op)
    return op


def _split(lo, hi, op, c):
    """Interval (lo, hi) of x split by `x op c`: -> (interval where true | None, interval where false | None)."""
    def cut(lo2, hi2):
        lo3 = lo2 if lo is None else (lo if lo2 is None else max(lo, lo2))
        hi3 = hi2 if hi is None else (hi if hi2 is None else min(hi, hi2))
        if lo3 is not None and hi3 is not None and lo3 > hi3:
            return None
        return (lo3, hi3)

    if op is ast.Lt:
        return cut(None, c - 1), cut(c, None)
    if op is ast.LtE:
        return cut(None, c), cut(c + 1, None)
    if op is ast.Gt:
        return cut(c + 1, None), cut(None, c)
    if op is ast.GtE:
        return cut(c, None), cut(None, c - 1)
    inside = cut(c, c)
    outside = "hole" if (lo, hi) != (c, c) else None
    if op is ast.Eq:
        return inside, outside
    return outside, inside


def constructor_rows(prog, init, r5):
    from .rules_C05 import judge, settle, Val

    A, B_, C_ = ClassRef("OSError"), ClassRef("KeyError"), ClassRef("MemcacheError")
    KI = ClassRef("KeyboardInterrupt")  # a BaseException that is not an Exception
    pn = {p.name for p in init.params}
    for need in ("client", "attempts", "retry_delay", "retry_for", "do_not_retry_for"):
        if need not in pn:
            raise AnalysisError("C17.R5: RetryingClient.__init__ has no parameter `%s`" % need)

    def run(attempts, retry_for, do_not):
        dom = InitDomain(prog, init)
        env = {"client": Opaque("client"), "attempts": attempts, "retry_delay": Val("arg:retry_delay"), "retry_for": retry_for, "do_not_retry_for": do_not}
        return Interp(dom, init.node, prog).run(Env(env))

    # ---- attempts: every integer
    outs = run(IntSym("attempts"), NONE, NONE)
    bad = []
    rej = acc = 0
    for s, e, t in outs.of("exc"):
        lo, hi = s.get(("iv", "attempts"), (None, None))
        rej += 1
        if e.cls != "ValueError" or hi is None or hi > 0:
            bad.append("an attempts value in %s is rejected with %s" % (_ivs(lo, hi), e.cls))
    for s, v, t in outs.of("ret"):
        lo, hi = s.get(("iv", "attempts"), (None, None))
        acc += 1
        if lo is None or lo < 1:
            bad.append("an attempts value in %s is accepted" % _ivs(lo, hi))
        if s.get("self._attempts", None) != IntSym("attempts"):
            bad.append("the accepted value is not what is stored in self._attempts")
    if not rej:
        bad.append("no attempts value is rejected")
    if not acc:
        bad.append("no attempts value is accepted")
    r5.expect(not bad, "attempts: rejected with ValueError exactly when < 1 (interval analysis over all integers), stored unchanged otherwise", "RetryingClient.__init__:attempts-guard", "invalid `attempts` are not rejected exactly: %s (required: reject every attempts < 1 with ValueError, accept every attempts >= 1)" % "; ".join(bad), fn=init, node=init.node)

    # ---- containers and element classes, for each of the two filters
    rows = 0
    for par, attr in (("retry_for", "self._retry_for"), ("do_not_retry_for", "self._do_not_retry_for")):
        def go(v):
            return run(Const(2), v, NONE) if par == "retry_for" else run(Const(2), NONE, v)

        def stored(want):
            return lambda outs_: None

        cases = [("None", NONE, TupleV(()))]
        for tag in ("tuple", "list", "set"):
            cases.append(("%s of Exception subclasses" % tag, Arg(tag, (A, B_)), TupleV((A, B_))))
            cases.append(("empty %s" % tag, Arg(tag, ()), TupleV(())))
        for desc, v, want in cases:
            rows += 1
            outs = go(v)
            st, got, w = judge(outs, "ret", lambda x: True)
            if st == "ok":
                vals = {s.get(attr, TOP) for s, x, t in outs.of("ret")}
                if vals != {want}:
                    st, got = "fail", "stores %s in %s" % (sorted(map(str, vals)), attr)
            settle(r5, st, "%s = %s accepted and stored as a tuple" % (par, desc), "RetryingClient.__init__:%s:%s" % (par, desc.replace(" ", "-")), "RetryingClient(%s=<%s>) %s; it must be accepted and stored as the tuple of its elements" % (par, desc, got), init, w)
        for desc, v in [("a dict", Arg("dict", ())), ("a str", Arg("str", ())), ("a frozenset", Arg("frozenset", (A,))), ("an int", Const(5))]:
            rows += 1
            st, got, w = judge(go(v), "raise", "ValueError")
            settle(r5, st, "%s = %s rejected with ValueError" % (par, desc), "RetryingClient.__init__:%s:%s" % (par, desc.replace(" ", "-")), "RetryingClient(%s=<%s>) %s; only None, tuple, set and list are accepted, anything else is rejected with ValueError" % (par, desc, got), init, w)
        for desc, v in [("[KeyboardInterrupt, OSError]", Arg("list", (KI, A))), ("(OSError, KeyboardInterrupt)", Arg("tuple", (A, KI))), ("{KeyboardInterrupt}", Arg("set", (KI,)))]:
            rows += 1
            st, got, w = judge(go(v), "raise", "ValueError")
            settle(r5, st, "%s = %s (an element that is not an Exception subclass) rejected with ValueError" % (par, desc), "RetryingClient.__init__:%s:non-exception-element" % par, "RetryingClient(%s=%s) %s; a class that does not derive from Exception must be rejected with ValueError wherever it stands in the collection" % (par, desc, got), init, w)
    # ---- overlap
    for desc, rf, dn, clash in [("(OSError, KeyError) / (KeyError,)", Arg("tuple", (A, B_)), Arg("tuple", (B_,)), True), ("[KeyError] / {OSError, KeyError}", Arg("list", (B_,)), Arg("set", (A, B_)), True), ("(OSError,) / (KeyError,)", Arg("tuple", (A,)), Arg("tuple", (B_,)), False), ("(OSError, MemcacheError) / [KeyError]", Arg("tuple", (A, C_)), Arg("list", (B_,)), False), ("(KeyError,) / (LookupError,) [a subclass of a do-not-retry class]", Arg("tuple", (B_,)), Arg("tuple", (ClassRef("LookupError"),)), False), ("(LookupError,) / (KeyError,) [a base class of a do-not-retry class]", Arg("tuple", (ClassRef("LookupError"),)), Arg("tuple", (B_,)), False)]:
        rows += 1
        outs = run(Const(3), rf, dn)
        if clash:
            st, got, w = judge(outs, "raise", "ValueError")
            settle(r5, st, "retry_for / do_not_retry_for = %s: overlap rejected" % desc, "RetryingClient.__init__:overlap-check", "RetryingClient(retry_for / do_not_retry_for = %s) %s; a class present in both lists must be rejected with ValueError" % (desc, got), init, w)
        else:
            st, got, w = judge(outs, "ret", lambda x: True)
            if st == "ok":
                stored = {(s.get("self._retry_for", TOP), s.get("self._do_not_retry_for", TOP)) for s, x, t in outs.of("ret")}
                universe = ["OSError", "ConnectionError", "TimeoutError", "KeyError", "IndexError", "LookupError", "ValueError", "MemcacheError", "MemcacheUnknownError", "Exception", "RuntimeError"]

                def decides(rfl, dnl, e):
                    bases = prog.exception_bases(e)
                    return (not rfl or any(c.name in bases for c in rfl)) and not any(c.name in bases for c in dnl)

                for srf, sdn in stored:
                    if not (isinstance(srf, TupleV) and isinstance(sdn, TupleV) and all(isinstance(c, ClassRef) for c in srf.items + sdn.items)):
                        st, got = "undecided", "stores %s / %s" % (srf, sdn)
                        break
                    diff = [e for e in universe if decides(srf.items, sdn.items, e) != decides(rf.items, dn.items, e)]
                    if diff:
                        st, got = "fail", "stores retry_for=%s, do_not_retry_for=%s, under which %s is %s although the configuration says the opposite" % ([c.name for c in srf.items], [c.name for c in sdn.items], diff[0], "retried" if decides(srf.items, sdn.items, diff[0]) else "not retried")
                        break
            settle(r5, st, "retry_for / do_not_retry_for = %s: accepted, both lists stored as given" % desc, "RetryingClient.__init__:filters-stored", "RetryingClient(retry_for / do_not_retry_for = %s) %s; lists without a common class are a valid configuration and what is stored must decide every exception class as the given lists do (an emptied retry_for means 'retry for everything')" % (desc, got), init, w)
    r5.count("constructor rows", rows)
    r5.floor("constructor rows", rows, 30)


def _ivs(lo, hi):
    return "[%s, %s]" % ("-inf" if lo is None else lo, "+inf" if hi is None else hi)


def _fmt(cfg):
    return ", ".join("%s=%s" % (k, int(v)) for k, v in cfg.items())
