"""C05 - return values report the server's actual outcome (partial: tables, verbs, reply -> return decisions)."""
import ast

from .model import AnalysisError, NotConst, fold, node_src, is_self_attr, call_name
from .paths import Interp, Domain, Env, TOP, NONE, Const, TupleV, Exc, ORD, fmt_trace, Opaque
from .report import walk_no_nested
from . import wire, spec, exchange

LEVEL = "other"
LEVEL_TEXT = (
    "The composition 'verb sent / reply accepted / value returned' is decided statically: the reply tables are "
    "exhaustive and equal to the protocol/contract tables; each public method sends the verb it is documented to send "
    "and asks for cas tokens exactly in the gets family; for delete, touch, flush_all, incr, decr, version the code after "
    "the exchange is evaluated abstractly on every reply token the protocol allows for that verb and must return the "
    "documented value; with noreply the documented constant is returned and defaults resolve to default_noreply. "
    "Anything over histories (cas tokens accepted later, expiry, equivalence with a map model) is not decided."
)
TRUSTED = ["CPython ast", "pmcsa/paths.py", "pmcsa/wire.py", "protocol/contract tables in pmcsa/spec.py"]


class ReplyDomain(Domain):
    """Code after the exchange: results[0] is a constant reply token; pure builtins on constants are folded."""

    async_enabled = False
    subscript_may_raise = False
    unpack_may_raise = False

    def __init__(self, prog, fn, reply, noreply, exch_names):
        super().__init__(prog, fn)
        self.reply = reply
        self.noreply = noreply
        self.exch = exch_names
        # request/response functions whose noreply result is an empty list (they return `[]`)
        self.list_results = {n for n in exch_names if any(isinstance(r, ast.Return) and isinstance(r.value, ast.List) and not r.value.elts for r in ast.walk(prog.method("Client", n).node))}

    def name_load(self, name, state, node=None):
        if name == "noreply" and not state.has("noreply"):
            return Const(self.noreply)
        return state.get(name, TOP)

    def attr_load(self, objval, node, state):
        if is_self_attr(node, "default_noreply"):
            return Const(self.noreply)
        if isinstance(objval, Const):
            return ("cmeth", objval, node.attr)
        return TOP

    def call(self, node, fval, args, kwargs, state):
        name = call_name(node)
        if name.startswith("self.") and name[5:] in self.exch:
            if self.noreply:
                return [("ok", TupleV(()), state)] if name[5:] in self.list_results else [("ok", Opaque("noreply-result"), state)]
            return [("ok", TupleV((Const(self.reply),)), state)]
        if name.startswith("self.") and name.count(".") == 1:
            m = self.prog.cls("Client").methods.get(name[5:])
            if m is not None and name[5:].startswith("_") and name[5:] not in ("_connect", "_check_integer", "_check_cas", "check_key"):
                res = self.inline(node, m, args, kwargs, state)
                if res is not None:
                    return res
        if isinstance(fval, tuple) and fval and fval[0] == "cmeth" and fval[2] in ("partition", "startswith", "split", "decode", "isdigit", "strip", "find") and all(isinstance(a, Const) for a in args):
            try:
                v = getattr(fval[1].v, fval[2])(*[a.v for a in args])
            except Exception as e:
                return [("exc", Exc(ORD, type(e).__name__, node.lineno), state)]
            if isinstance(v, tuple):
                return [("ok", TupleV(tuple(Const(x) for x in v)), state)]
            return [("ok", Const(v), state)]
        if name == "int" and len(args) == 1 and isinstance(args[0], Const):
            try:
                return [("ok", Const(int(args[0].v)), state)]
            except Exception:
                return [("exc", Exc(ORD, "ValueError", node.lineno), state)]
        if name in ("self.check_key", "self._check_integer", "self._check_cas"):
            return [("ok", Const(b"x"), state)]
        return [("ok", TOP, state)]

    def subscript_load(self, objval, idxval, node, state):
        if isinstance(objval, TupleV) and isinstance(idxval, Const) and isinstance(idxval.v, int) and -len(objval.items) <= idxval.v < len(objval.items):
            return objval.items[idxval.v], False
        if objval == Opaque("noreply-result"):
            return Opaque("noreply-item"), False
        return TOP, False

    def binop(self, node, l, r, state):
        if isinstance(l, Const) and isinstance(r, Const) and isinstance(l.v, bytes) and isinstance(r.v, bytes) and isinstance(node.op, ast.Add):
            return Const(l.v + r.v)
        return super().binop(node, l, r, state)

    def fstring(self, node, parts, state):
        return TOP


def run(chk):
    prog = chk.prog
    base = prog.module("pymemcache/client/base.py")
    # ------------------------------------------------------------------ R1 tables
    r1 = chk.rule("C05.R1", "reply tables: accepted tokens per store verb equal the protocol table, every accepted token has a documented return value")
    try:
        valid = base.const("VALID_STORE_RESULTS")
        values = base.const("STORE_RESULTS_VALUE")
    except NotConst as e:
        raise AnalysisError("C05.R1: reply tables are no longer literal dicts (%s)" % e)
    for verb, toks in sorted(spec.STORE_REPLIES.items()):
        got = valid.get(verb.encode())
        r1.expect(got is not None and set(got) == set(toks), "VALID_STORE_RESULTS[%s] == %s" % (verb, sorted(toks)), "VALID_STORE_RESULTS:%s" % verb, "the replies accepted for `%s` are %s; the protocol defines %s: a legitimate server reply is reported as an unknown error, or an impossible one is accepted" % (verb, sorted(got) if got else None, sorted(toks)), file=base.rel, line=base.assigns["VALID_STORE_RESULTS"].lineno)
    for extra in sorted(set(valid) - {v.encode() for v in spec.STORE_REPLIES}):
        r1.fail("VALID_STORE_RESULTS:extra:%s" % extra.decode(), "VALID_STORE_RESULTS has an entry for %r, which is not a store verb" % extra, file=base.rel, line=base.assigns["VALID_STORE_RESULTS"].lineno)
    for tok, want in sorted(spec.STORE_VALUES.items()):
        ok = tok in values and values[tok] is want
        r1.expect(ok, "STORE_RESULTS_VALUE[%s] is %r" % (tok.decode(), want), "STORE_RESULTS_VALUE:%s" % tok.decode(), "the reply %s is reported as %r, the documented value is %r" % (tok.decode(), values.get(tok, "<missing>"), want), file=base.rel, line=base.assigns["STORE_RESULTS_VALUE"].lineno)
    for verb, toks in valid.items():
        for t in toks:
            r1.expect(t in values, "%s has a return value" % t.decode(), "STORE_RESULTS_VALUE:missing:%s" % t.decode(), "the accepted reply %s has no entry in STORE_RESULTS_VALUE (KeyError instead of a result)" % t.decode(), file=base.rel, line=base.assigns["STORE_RESULTS_VALUE"].lineno)
    store = [f for f in exchange.exchange_functions(prog) if f.param("values") is not None]
    for f in store:
        # the read loop looks the line up in the verb's own accepted set and maps it through the value table
        vname = f.pos_params()[0].name  # the verb parameter
        in_valid = [n for n in walk_no_nested(f.node) if isinstance(n, ast.Compare) and len(n.ops) == 1 and isinstance(n.ops[0], ast.In) and isinstance(n.left, ast.Name) and isinstance(n.comparators[0], ast.Subscript) and isinstance(n.comparators[0].value, ast.Name) and n.comparators[0].value.id == "VALID_STORE_RESULTS" and isinstance(n.comparators[0].slice, ast.Name) and n.comparators[0].slice.id == vname]
        linevar = in_valid[0].left.id if in_valid else None
        mapped = [n for n in walk_no_nested(f.node) if isinstance(n, ast.Subscript) and isinstance(n.value, ast.Name) and n.value.id == "STORE_RESULTS_VALUE" and isinstance(n.slice, ast.Name) and n.slice.id == linevar]
        ok = len(in_valid) == 1 and len(mapped) >= 1
        loops = [n for n in walk_no_nested(f.node) if isinstance(n, ast.For) and any(isinstance(x, ast.Subscript) and isinstance(x.value, ast.Name) and x.value.id == "STORE_RESULTS_VALUE" for x in ast.walk(n))]
        keyed = False
        if loops and isinstance(loops[0].target, ast.Name):
            lv = loops[0].target.id
            keyed = any(isinstance(n, ast.Assign) and isinstance(n.targets[0], ast.Subscript) and isinstance(n.targets[0].slice, ast.Name) and n.targets[0].slice.id == lv and isinstance(n.value, ast.Subscript) and isinstance(n.value.value, ast.Name) and n.value.value.id == "STORE_RESULTS_VALUE" for n in ast.walk(loops[0]))
        r1.expect(ok and keyed, "%s: results[key of this command] = STORE_RESULTS_VALUE[line] for a line in VALID_STORE_RESULTS[verb]" % f.qualname, "%s:table-lookup" % f.qualname, "%s does not map each reply line through the tables under the key of the command it answers" % f.qualname, fn=f, node=f.node)

    # ------------------------------------------------------------------ R2 method <-> verb, expect_cas, cmd_name
    r2 = chk.rule("C05.R2", "each public method sends the verb it is documented to send; cas tokens are requested exactly in the gets family; errors are reported under that verb")
    methods = wire.wire_methods(prog)
    for m in methods:
        if m.name in spec.EXEMPT_FROM_GRAMMAR:
            continue
        want = spec.METHOD_VERB.get(m.name, m.name)
        dom = wire.evaluate(prog, m)
        verbs = set()
        names = set()
        ecas = set()
        for ev in dom.events:
            for cmd in wire.commands_of(ev["wire"]):
                if cmd and cmd[0][0] == "lit":
                    verbs.add(cmd[0][1].decode("latin-1").split("\r")[0].split(" ")[0])
                elif cmd:
                    verbs.add("<non-literal>")
            b = ev["bound"]
            for k in ("name", "cmd_name"):
                if k in b:
                    names.add(b[k].v.decode() if isinstance(b[k], Const) and isinstance(b[k].v, bytes) else wire.describe(b[k]))
            if "expect_cas" in b:
                ecas.add(b["expect_cas"].v if isinstance(b["expect_cas"], Const) else wire.describe(b["expect_cas"]))
        r2.expect(verbs == {want}, "Client.%s sends `%s`" % (m.name, want), "Client.%s:verb" % m.name, "Client.%s sends the verb(s) %s; it is documented to send `%s`" % (m.name, sorted(verbs), want), fn=m, node=m.node)
        r2.expect(names == {want}, "Client.%s reports errors as `%s`" % (m.name, want), "Client.%s:cmd-name" % m.name, "Client.%s passes %s as the command name for reply checking / error reporting (expected `%s`): replies are validated against another verb's table" % (m.name, sorted(names), want), fn=m, node=m.node)
        if m.name in spec.EXPECT_CAS:
            r2.expect(ecas == {spec.EXPECT_CAS[m.name]}, "Client.%s expect_cas=%s" % (m.name, spec.EXPECT_CAS[m.name]), "Client.%s:expect_cas" % m.name, "Client.%s parses VALUE lines with expect_cas=%s (must be %s): the cas token is dropped or a 4-field line is unpacked into 5" % (m.name, sorted(map(str, ecas)), spec.EXPECT_CAS[m.name]), fn=m, node=m.node)
    r2.floor("methods checked", len(methods) - 1, 24)
    # readers and writers address the same namespace (same rule as C04.R4)
    from .rules_C04 import prefix_symmetry

    prefix_symmetry(prog, r2)

    # ------------------------------------------------------------------ R3 reply -> return decision tables
    r3 = chk.rule("C05.R3", "reply -> return value decision tables of delete, touch, flush_all, incr, decr, version over each verb's reply alphabet")
    exn = wire.exchange_names(prog)
    n_rows = 0
    for mname, table in sorted(spec.REPLY_TABLE.items()):
        f = prog.method("Client", mname)
        for reply, want in sorted(table.items()):
            n_rows += 1
            dom = ReplyDomain(prog, f, reply, False, exn)
            outs = Interp(dom, f.node, prog).run(Env({p.name: TOP for p in f.params if p.name not in ("self", "noreply")}))
            rets, excs = outs.of("ret"), outs.of("exc")
            if isinstance(want, str) and want.startswith("RAISE:"):
                ok = not rets and excs and all(e.cls == want[6:] for s, e, t in excs)
                got = ("returns %s" % [v for s, v, t in rets]) if rets else "raises %s" % [e.cls for s, e, t in excs]
            else:
                ok = len(rets) >= 1 and not excs and all(isinstance(v, Const) and v.v == want and type(v.v) is type(want) for s, v, t in rets)
                got = ("returns %s" % sorted({repr(v.v) if isinstance(v, Const) else str(v) for s, v, t in rets})) if rets else "raises %s" % [e.cls for s, e, t in excs]
            r3.expect(ok, "Client.%s: reply %r -> %r" % (mname, reply, want), "Client.%s:reply:%s" % (mname, reply.decode().split(" ")[0]), "Client.%s %s for the server reply %r; the documented result is %r" % (mname, got, reply, want), fn=f, node=f.node)
    r3.count("rows", n_rows)

    # ------------------------------------------------------------------ R4 noreply constants and defaults
    r4 = chk.rule("C05.R4", "with noreply the documented constant is returned; signature defaults are the documented ones and None resolves to default_noreply before use")
    for mname, want in sorted(spec.NOREPLY_CONSTANT.items()):
        f = prog.method("Client", mname)
        if mname in spec.STORE_VERBS + ("cas", "set_many"):
            # the store exchange returns {k: True for k in keys} under `if noreply`
            st = store[0] if store else None
            ok = False
            if st is not None:
                for n in walk_no_nested(st.node):
                    if isinstance(n, ast.If) and isinstance(n.test, ast.Name) and n.test.id == "noreply":
                        rr = [r for r in n.body if isinstance(r, ast.Return)]
                        if rr and isinstance(rr[0].value, ast.DictComp) and isinstance(rr[0].value.value, ast.Constant) and rr[0].value.value.value is True and isinstance(rr[0].value.key, ast.Name) and rr[0].value.key.id == rr[0].value.generators[0].target.id:
                            ok = True
            rets = sorted([r for r in walk_no_nested(f.node) if isinstance(r, ast.Return) and r.value is not None], key=lambda r: r.lineno)
            shape = node_src(rets[-1].value) if rets else ""
            if mname == "set_many":
                ok = ok and "if not v" in shape
            else:
                kp = f.pos_params()[0].name
                last = rets[-1].value if rets else None
                direct = isinstance(last, ast.Subscript) and isinstance(last.slice, ast.Name) and last.slice.id == kp
                via = isinstance(last, ast.Name) and any(isinstance(n, ast.Assign) and isinstance(n.targets[0], ast.Name) and n.targets[0].id == last.id and isinstance(n.value, ast.Subscript) and isinstance(n.value.slice, ast.Name) and n.value.slice.id == kp for n in walk_no_nested(f.node))
                ok = ok and (direct or via)
            r4.expect(ok, "Client.%s: noreply -> %r" % (mname, want), "Client.%s:noreply-constant" % mname, "with noreply Client.%s does not return the documented %r (store exchange must return {key: True} and the method must pick/filter it as documented)" % (mname, want), fn=f, node=f.node)
            continue
        dom = ReplyDomain(prog, f, b"", True, exn)
        outs = Interp(dom, f.node, prog).run(Env({p.name: TOP for p in f.params if p.name not in ("self", "noreply")}))
        rets = outs.of("ret")
        ok = rets and not outs.of("exc") and all(isinstance(v, Const) and v.v is want for s, v, t in rets)
        r4.expect(bool(ok), "Client.%s: noreply -> %r" % (mname, want), "Client.%s:noreply-constant" % mname, "with noreply Client.%s returns %s; the documented constant is %r" % (mname, sorted({str(v) for s, v, t in rets}), want), fn=f, node=f.node)
    for mname in spec.NOREPLY_DEFAULT_NONE + spec.NOREPLY_DEFAULT_FALSE:
        f = prog.method("Client", mname)
        p = f.param("noreply")
        want = None if mname in spec.NOREPLY_DEFAULT_NONE else False
        ok = p is not None and isinstance(p.default, ast.Constant) and p.default.value is want
        r4.expect(ok, "Client.%s(noreply=%r)" % (mname, want), "Client.%s:noreply-default" % mname, "the default of noreply in Client.%s is %s; documented: %r%s" % (mname, node_src(p.default) if p is not None and p.default is not None else None, want, " (= default_noreply)" if want is None else ""), fn=f, node=f.node)
        if want is None:
            dom = wire.evaluate(prog, f)
            bad = None
            seen = 0
            for ev in dom.events:
                st = ev["state"]
                isnone = st.get(("isnone", wire.P("noreply")), None)
                a = ev["noreply_arg"]
                if not [c for c in wire.commands_of(ev["wire"]) if c]:
                    continue
                seen += 1
                if isnone is True and a != wire.SelfAttr("default_noreply"):
                    bad = "when noreply is None the value passed on is %s, not self.default_noreply" % wire.describe(a)
                if isnone is None:
                    bad = "noreply is used without the `is None` test that resolves it to self.default_noreply (value passed on: %s)" % wire.describe(a)
                if isnone is False and a != wire.P("noreply"):
                    bad = "an explicit noreply is replaced by %s" % wire.describe(a)
            r4.expect(bad is None and seen > 0, "Client.%s resolves noreply=None to self.default_noreply before building and sending" % mname, "Client.%s:noreply-resolution" % mname, "Client.%s: %s" % (mname, bad or "no wire variant"), fn=f, node=f.node)
    # ------------------------------------------------------------------ R5 error replies are raised, for every reply line
    r5 = chk.rule("C05.R5", "error replies: ERROR / CLIENT_ERROR / SERVER_ERROR lines raise the documented exception, and every reply line read by an exchange passes that test before it is interpreted")
    re_fn = prog.method("Client", "_raise_errors")
    table = {b"ERROR": "MemcacheUnknownCommandError", b"ERROR extra": "MemcacheUnknownCommandError", b"CLIENT_ERROR bad data chunk": "MemcacheClientError", b"SERVER_ERROR out of memory": "MemcacheServerError", b"STORED": None, b"END": None, b"VALUE k 0 1": None, b"5": None}
    for line, want in sorted(table.items()):
        dom = ReplyDomain(prog, re_fn, b"", False, exn)
        pn = [p.name for p in re_fn.pos_params()]
        outs = Interp(dom, re_fn.node, prog).run(Env({pn[0]: Const(line), pn[1]: Const(b"cmd")}))
        rets, excs = outs.of("ret"), outs.of("exc")
        if want is None:
            ok = rets and not excs
            got = "raises %s" % [e.cls for s_, e, t in excs]
        else:
            ok = excs and not rets and all(e.cls == want for s_, e, t in excs)
            got = "returns normally" if rets else "raises %s" % [e.cls for s_, e, t in excs]
        r5.expect(bool(ok), "_raise_errors(%r) -> %s" % (line, want or "no error"), "Client._raise_errors:%s" % line.decode().split(" ")[0], "for the reply line %r _raise_errors %s; documented: %s" % (line, got, ("raise " + want) if want else "no error"), fn=re_fn, node=re_fn.node)
    direct, readers = exchange.recv_reaching_functions(prog)
    for f in exchange.reading_exchange_functions(prog):
        al = exchange.local_reader_aliases(f, readers) | set(readers)
        reads = [n for n in walk_no_nested(f.node) if isinstance(n, ast.Assign) and isinstance(n.value, ast.Call) and isinstance(n.value.func, ast.Name) and n.value.func.id in al and isinstance(n.targets[0], ast.Tuple) and len(n.targets[0].elts) == 2 and isinstance(n.targets[0].elts[1], ast.Name)]
        r5.expect(len(reads) >= 1, "%s reads reply lines" % f.qualname, "%s:no-line-reads" % f.qualname, "no reply line is read in %s" % f.qualname, fn=f)
        for rd in reads:
            lv = rd.targets[0].elts[1].id
            # statements after the read, in the same block (the read sits in a try: go up to the enclosing block)
            stmt = rd
            while not isinstance(getattr(stmt, "_parent", None), (ast.For, ast.While, ast.FunctionDef)):
                stmt = stmt._parent
            blk = stmt._parent.body
            after = blk[blk.index(stmt) + 1:]
            first_use = None
            for st in after:
                if any(isinstance(x, ast.Name) and x.id == lv and isinstance(x.ctx, ast.Load) for x in ast.walk(st)):
                    first_use = st
                    break
            ok = isinstance(first_use, ast.Expr) and isinstance(first_use.value, ast.Call) and call_name(first_use.value) == "self._raise_errors" and first_use.value.args and isinstance(first_use.value.args[0], ast.Name) and first_use.value.args[0].id == lv
            r5.expect(ok, "%s: a line read at line %d goes through _raise_errors first" % (f.qualname, rd.lineno), "%s:line-used-before-error-check" % f.qualname, "in %s the reply line `%s` is first used by `%s` rather than checked by _raise_errors: an ERROR / CLIENT_ERROR / SERVER_ERROR reply would be interpreted as a result" % (f.qualname, lv, node_src(first_use, 60) if first_use is not None else None), fn=f, node=rd)
    # a call's result is computed from its whole reply, and only from it (the C01 framing rule)
    from . import rules_C01, report

    report.include_rules(chk, r5, rules_C01, ("C01.R3",), "each call reads exactly the reply lines of its own commands, up to the terminator")
    # the value that decides whether replies are read is the one that put ` noreply` on the wire (same rule as C01.R2b)
    wire.check_noreply_coupling(prog, r4)
    chk.assume("the server answers with a reply from the verb's alphabet (error lines are handled by _raise_errors before these tables)")
