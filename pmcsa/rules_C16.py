"""C16 - PooledClient, single-server HashClient and RetryingClient behave like Client (conformance)."""
import ast

from .model import AnalysisError, NotConst, fold, node_src, is_self_attr, call_name
from .paths import MaybeV, Const, Domain, Interp, Env, Opaque, TOP, LambdaV
from .report import walk_no_nested

LEVEL = "other"
LEVEL_TEXT = (
    "Conformance checking between sibling implementations of one interface, Client being the reference: signature "
    "conformance of the key-addressed operations, argument forwarding (every parameter exactly once, unmodified, to the "
    "same-named parameter; nothing else consumes it), propagation of every shared constructor option to the inner "
    "clients, and transparency of RetryingClient. Identical wire bytes per server state follow only under the assumption "
    "that the inner object is a Client (client_class) and are a runtime statement not decided here."
)
TRUSTED = ["CPython ast", "signature/argument matching in pmcsa/rules_C16.py"]

KEY_PARAMS = ("key", "keys", "values")
# constructor options that wrappers deliberately do not forward as such, one reason each
EXEMPT_OPTIONS = {
    "PooledClient": {
        "ignore_exc": "the wrapper must see failures to destroy the connection; re-implemented per method (checked by C07/C09.R3)",
        "server": "passed positionally",
    },
    "HashClient": {"ignore_exc": "failures must reach the failover logic; re-implemented in _safely_run_func (C07/C13)", "server": "one client per server"},
}


def _dropped_option(cinit, o, v):
    """An option that is forwarded only when a filter lets it through (MaybeV): None if leaving it out is the same as
    passing it - the filter is `<x> is not None` and the inner constructor's own default is None - else the text that
    says when the option is lost."""
    import re

    p_ = cinit.param(o)
    if re.fullmatch(r"\w+ is not None", v.why or "") and (p_ is None or (p_.has_default and isinstance(p_.default, ast.Constant) and p_.default.value is None)):
        return None
    return "when `%s` holds for its value: with any other value (0, False, an empty prefix, ...) the option is left out and the inner client falls back to its own default, so it is configured differently from a Client given the same option" % (v.why or "the filter")


# the deprecated pair may reach the inner clients inside the `serde` they are given
FOLDED_INTO_SERDE = ("serializer", "deserializer")


def key_ops(prog):
    """Public methods of Client (alias names included) that send a command and whose first parameter is a key or a
    key collection (discovered, not listed)."""
    from . import wire

    sending = {f.name for f in wire.wire_methods(prog)}
    out = {}
    for name, f in prog.public_methods("Client").items():
        pp = f.pos_params()
        if pp and pp[0].name in KEY_PARAMS and f.name in sending:
            out[name] = f
    return out


def _default(p, module):
    if not p.has_default:
        return ("<required>",)
    try:
        return ("const", repr(fold(p.default, module)))
    except NotConst:
        return ("expr", node_src(p.default))


class _GetattrDomain(Domain):
    """RetryingClient.__getattr__ and the callable it returns: what reaches self._retry."""

    async_enabled = False
    global_keys = ("#retry",)

    def attr_load(self, objval, node, state):
        if is_self_attr(node, "_client"):
            return Opaque("client")
        if is_self_attr(node, "_retry"):
            return Opaque("self._retry")
        if objval == Opaque("client"):
            if node.attr == "__getattribute__":
                return Opaque("client.__getattribute__")
            return Opaque("client." + node.attr)
        return TOP

    def call(self, node, fval, args, kwargs, state):
        name = call_name(node)
        if (name == "getattr" and len(args) == 2 and args[0] == Opaque("client") and args[1] == Opaque("NAME")) or (fval == Opaque("client.__getattribute__") and list(args) == [Opaque("NAME")]):
            return [("ok", Opaque("client.NAME"), state)]
        if fval == Opaque("self._retry"):
            def h(v):
                try:
                    hash(v)
                    return v
                except TypeError:
                    return TOP
            rec = (tuple(h(a) for a in args), tuple(sorted((("**" if k.startswith("**") else k), h(v)) for k, v in kwargs.items())))
            return [("ok", Opaque("retry-result"), state.set("#retry", state.get("#retry", ()) + (rec,)))]
        return [("ok", TOP, state)]


def _show_retry(c):
    def sh(v):
        return getattr(v, "tag", None) or str(v)
    return "_retry(%s)" % ", ".join([sh(a) for a in c[0]] + ["%s%s" % ("**" if k == "**" else k + "=", sh(v)) for k, v in c[1]])


def run(chk):
    prog = chk.prog
    ops = key_ops(prog)
    r1 = chk.rule("C16.R1", "signature conformance of every key-addressed operation on PooledClient and HashClient with Client")
    r1.floor("key-addressed operations of Client (incl. aliases)", len(ops), 18)
    pooled = prog.cls("PooledClient")
    hashc = prog.cls("HashClient")
    for name, cf in sorted(ops.items()):
        cpos = cf.pos_params()
        # ---- PooledClient: identical parameter list
        pf = prog.method(pooled, name, required=False)
        if pf is None:
            r1.fail("PooledClient.%s:missing" % name, "PooledClient has no method %s" % name, file=pooled.module.rel, line=pooled.node.lineno)
        else:
            a = [(p.name, p.kind, _default(p, cf.module)) for p in cf.params if p.name != "self"]
            b = [(p.name, p.kind, _default(p, pf.module)) for p in pf.params if p.name != "self"]
            r1.expect(a == b, "PooledClient.%s has Client.%s's parameter list" % (name, name), "PooledClient.%s:signature" % pf.name, "PooledClient.%s%s differs from Client.%s%s" % (name, _sig(b), name, _sig(a)), fn=pf, node=pf.node)
        # ---- HashClient: explicit parameters agree position by position
        hf = prog.method(hashc, name, required=False)
        if hf is None:
            r1.fail("HashClient.%s:missing" % name, "HashClient has no method %s: the operation cannot be used through the hash client" % name, file=hashc.module.rel, line=hashc.node.lineno)
            continue
        hpos = hf.pos_params()
        bad = None
        for i, hp in enumerate(hpos):
            if i < len(cpos):
                cp = cpos[i]
                if hp.name != cp.name or (hp.has_default != cp.has_default) or (hp.has_default and _default(hp, hf.module) != _default(cp, cf.module)):
                    bad = "positional parameter %d is `%s%s` but Client.%s has `%s%s` there" % (i + 1, hp.name, _d(hp, hf), name, cp.name, _d(cp, cf))
                    break
            elif not hp.has_default:
                bad = "wrapper-only parameter `%s` has no default" % hp.name
                break
        if bad is None and len(hpos) < len(cpos) and not (hf.has_varargs() or hf.has_kwargs()):
            bad = "takes fewer parameters than Client.%s and has no *args/**kwargs" % name
        if bad is None and len(hpos) < len(cpos) and not hf.has_varargs():
            # remaining Client positionals can only be given by keyword
            later = [p.name for p in cpos[len(hpos):]]
            kwonly_ok = hf.has_kwargs()
            if not kwonly_ok:
                bad = "parameters %s of Client.%s cannot be passed" % (later, name)
            elif any(not p.has_default for p in cpos[len(hpos):]):
                bad = "required parameters %s of Client.%s can only be passed by keyword" % (later, name)
            else:
                # optional Client positionals (e.g. gat's expire) are not accepted positionally: a positional call valid on
                # Client binds a different parameter on the wrapper only if the wrapper has explicit params there (handled above)
                pass
        r1.expect(bad is None, "HashClient.%s agrees with Client.%s on its explicit parameters" % (name, name), "HashClient.%s:signature" % hf.name, "HashClient.%s%s: %s - a call that is valid on Client means something else here" % (name, _sig([(p.name, p.kind, _default(p, hf.module)) for p in hf.params if p.name != "self"]), bad), fn=hf, node=hf.node)

    # ------------------------------------------------------------------ R2 forwarding
    r2 = chk.rule("C16.R2", "argument forwarding: each wrapper parameter reaches the same-named parameter of the delegate exactly once, unmodified, and is used for nothing else")
    n_fw = 0
    from . import pooled as pooled_an

    for name, runs in sorted(pooled_an.analyse(prog).items()):
        pf = pooled.methods[name]
        n_fw += 1
        problems = pooled_an.forwarding_problems(prog, name, runs)
        r2.expect(not problems, "PooledClient.%s forwards every parameter to client.%s" % (name, name), "PooledClient.%s:forwarding" % name, "PooledClient.%s: %s" % (name, "; ".join(problems)), fn=pf, node=pf.node)
    r2.floor("PooledClient forwarding methods", n_fw, 24)
    # HashClient: _run_cmd("<own name>", key, default, ...) and explicit params forwarded by keyword
    n_rc = 0
    aliases = {a: t for a, t in hashc.aliases.items()}
    for name, hf in sorted(hashc.methods.items()):
        for c in walk_no_nested(hf.node):
            if isinstance(c, ast.Call) and call_name(c) == "self._run_cmd":
                n_rc += 1
                problems = []
                a0 = c.args[0] if c.args else None
                own = {name} | {a for a, t in aliases.items() if t == name}
                expected = own | ({"delete"} if name == "delete_many" else set())
                if not (isinstance(a0, ast.Constant) and a0.value in expected):
                    problems.append("runs command %s inside %s" % (node_src(a0) if a0 is not None else None, name))
                a1 = c.args[1] if len(c.args) > 1 else None
                keyvars = {p_.name for p_ in hf.pos_params()[:1]}
                for anc in _for_ancestors(c):
                    if isinstance(anc.iter, ast.Name) and anc.iter.id in keyvars and isinstance(anc.target, ast.Name):
                        keyvars.add(anc.target.id)
                if not (isinstance(a1, ast.Name) and a1.id in keyvars):
                    problems.append("second argument `%s` is not the key" % (node_src(a1) if a1 is not None else None))
                explicit = [p.name for p in hf.pos_params() if p.name not in ("key", "keys")]
                kws = {k.arg: k.value for k in c.keywords if k.arg}
                for pn in explicit:
                    v = kws.get(pn)
                    if not (isinstance(v, ast.Name) and v.id == pn):
                        problems.append("explicit parameter `%s` is not forwarded as %s=%s" % (pn, pn, pn))
                star = [a for a in c.args if isinstance(a, ast.Starred)]
                dstar = [k for k in c.keywords if k.arg is None]
                if hf.has_varargs() and not (len(star) == 1 and isinstance(star[0].value, ast.Name) and star[0].value.id == [p.name for p in hf.params if p.kind == "vararg"][0]):
                    problems.append("*args not forwarded")
                if hf.has_kwargs() and not (len(dstar) == 1 and isinstance(dstar[0].value, ast.Name) and dstar[0].value.id == [p.name for p in hf.params if p.kind == "kwarg"][0]):
                    problems.append("**kwargs not forwarded")
                r2.expect(not problems, "HashClient.%s -> _run_cmd(%r, key, ...) forwards *args/**kwargs" % (name, a0.value if isinstance(a0, ast.Constant) else None), "HashClient.%s:_run_cmd-forwarding" % name, "HashClient.%s: %s" % (name, "; ".join(problems)), fn=hf, node=c)
    # every single-key operation goes through _run_cmd (the many-key ones are decided end to end by C12.R3/R4, included
    # in R5): one without such a call forwards in a way this rule does not follow
    single = [name for name, hf in sorted(hashc.methods.items()) if not name.startswith("_") and [p_.name for p_ in hf.pos_params()[:1]] == ["key"] and name in prog.cls("Client").methods]
    for name in single:
        if not any(isinstance(c, ast.Call) and call_name(c) == "self._run_cmd" for c in walk_no_nested(hashc.methods[name].node)):
            r2.undecided("HashClient.%s:_run_cmd-forwarding" % name, "HashClient.%s does not hand its arguments to _run_cmd; how it forwards them is not followed by this rule" % name)
    r2.floor("single-key operations of HashClient", len(single), 14)
    r2.floor("_run_cmd call sites in HashClient", n_rc, 14)
    _check_run_cmd(prog, r2)

    # ------------------------------------------------------------------ R3 configuration propagation
    r3 = chk.rule("C16.R3", "every constructor option shared with Client reaches the inner clients (PooledClient._create_client; HashClient/AWS default_kwargs)")
    cinit = prog.method("Client", "__init__")
    copts = [p.name for p in cinit.params if p.name != "self"]
    # PooledClient
    pinit = prog.method(pooled, "__init__")
    shared = [o for o in copts if pinit.param(o) is not None]
    r3.floor("options shared by Client and PooledClient", len(shared), 14)
    # __init__ followed by _create_client, interpreted with the constructor parameters as symbols: what the client class
    # is finally called with, on every path, whatever local names, helper tables or `**mappings` carry it there
    from . import pooled as pooled_an

    pinit2, cc, created = pooled_an.created_client_options(prog)
    if not created:
        raise AnalysisError("C16.R3: no call of the client class is reached through PooledClient.__init__ + _create_client")
    for o in shared:
        if o in EXEMPT_OPTIONS["PooledClient"]:
            r3.note("PooledClient option `%s` exempt: %s" % (o, EXEMPT_OPTIONS["PooledClient"][o]))
            continue
        if o in FOLDED_INTO_SERDE and not any(o in kw for pos, kw in created):
            # the deprecated pair travels inside `serde`: on the path where `serde` itself is not what is passed,
            # the value passed as serde is computed from this option
            if any("**" in kw for pos, kw in created):
                r3.undecided("PooledClient:option-not-propagated:%s" % o, "the clients are constructed with a `**mapping` whose content the analysis lost")
                continue
            carried = any(isinstance(kw.get("serde"), pooled_an.Derived) and o in kw["serde"].names for pos, kw in created)
            r3.expect(carried, "PooledClient option %s: constructor parameter -> folded into client_class(serde=...)" % o, "PooledClient:option-not-propagated:%s" % o,
                      "the clients PooledClient creates are given neither `%s` nor a serde computed from it: a pool configured with the deprecated %s function creates clients that use the pass-through serde, while Client with the same option does not" % (o, o), fn=cc, node=cc.node)
            continue
        msg = None
        for pos, kw in created:
            v = kw.get(o, "<not passed>")
            if v == "<not passed>" and "**" in kw:
                r3.undecided("PooledClient:option-not-propagated:%s" % o, "the clients are constructed with a `**mapping` whose content the analysis lost")
                break
            if isinstance(v, MaybeV):
                dropped = _dropped_option(cinit, o, v)
                if dropped is not None:
                    msg = "the clients PooledClient creates are given `%s` only %s" % (o, dropped)
                    break
                v = v.v
            if v == "<not passed>":
                msg = "the clients PooledClient creates are not given `%s`: the option is accepted by PooledClient and silently ignored" % o
            elif isinstance(v, pooled_an.P) and v.name == o:
                continue
            elif isinstance(v, pooled_an.Derived) and o in v.names:
                continue  # normalised first (e.g. a str prefix encoded to bytes)
            elif o == "serde" and isinstance(v, pooled_an.Derived) and v.names <= {"serde", "serializer", "deserializer"}:
                continue  # the deprecated serializer/deserializer pair folded into a serde
            else:
                shown = "its `%s` parameter" % v.name if isinstance(v, pooled_an.P) else ("a value computed from %s" % sorted(v.names) if isinstance(v, pooled_an.Derived) else str(v))
                msg = "the clients PooledClient creates get %s=%s instead of the PooledClient's own `%s` option" % (o, shown, o)
            break
        r3.expect(msg is None, "PooledClient option %s: constructor parameter -> client_class(%s=...)" % (o, o), "PooledClient:option-not-propagated:%s" % o, msg or "", fn=cc, node=cc.node)
    # HashClient and its AWS sibling: __init__ followed by add_server, interpreted with the constructor parameters as
    # symbols - what the per-server client (Client or PooledClient) is finally constructed with, on every path
    for cname in ("HashClient", "AWSElastiCacheHashClient"):
        cls = prog.cls(cname)
        init = prog.method(cls, "__init__")
        if init.cls is not cls:
            continue
        shared = [o for o in copts if init.param(o) is not None]
        r3.floor("options shared by Client and %s" % cname, len(shared), 14)
        hinit, hadd, hcreated = pooled_an.created_client_options(prog, cname, "add_server")
        if not hcreated:
            raise AnalysisError("C16.R3: no construction of a per-server client is reached through %s.__init__ + add_server" % cname)
        pool_opts = [o for o in ("max_pool_size", "pool_idle_timeout", "lock_generator") if init.param(o) is not None]
        for o in shared + pool_opts:
            if o in EXEMPT_OPTIONS["HashClient"]:
                r3.note("%s option `%s` exempt: %s" % (cname, o, EXEMPT_OPTIONS["HashClient"][o]))
                continue
            msg = None
            n_with = 0
            for pos, kw in hcreated:
                if o in pool_opts and o not in kw:
                    continue  # pool options travel only when pooling is switched on
                n_with += 1
                v = kw.get(o, "<not passed>")
                if v == "<not passed>" and "**" in kw:
                    r3.undecided("%s:option-not-propagated:%s" % (cname, o), "the per-server clients are constructed with a `**mapping` whose content the analysis lost")
                    break
                if isinstance(v, MaybeV):
                    dropped = _dropped_option(cinit, o, v)
                    if dropped is not None:
                        msg = "the per-server clients are given `%s` only %s" % (o, dropped)
                        break
                    v = v.v
                if v == "<not passed>":
                    msg = "the per-server clients are not given `%s`: the option is accepted by %s and never reaches them" % (o, cname)
                elif isinstance(v, pooled_an.P) and v.name == o:
                    continue
                elif isinstance(v, pooled_an.Derived) and o in v.names:
                    continue
                else:
                    shown = "its `%s` parameter" % v.name if isinstance(v, pooled_an.P) else str(v)
                    msg = "the per-server clients get %s=%s instead of %s's own `%s` option" % (o, shown, cname, o)
                break
            if o in pool_opts and not n_with and msg is None:
                msg = "pool option `%s` is never forwarded, also not under use_pooling" % o
            construct = "%s:%soption-not-propagated:%s" % (cname, "pool-" if o in pool_opts else "", o)
            r3.expect(msg is None, "%s option %s: constructor parameter -> per-server client(%s=...)" % (cname, o, o), construct, msg or "", fn=hinit, node=hinit.node)
        allowed = set(copts) | {"max_pool_size", "pool_idle_timeout", "lock_generator"}
        for pos, kw in hcreated:
            for k in kw:
                if k not in allowed and k != "**":
                    r3.fail("%s:unknown-option:%s" % (cname, k), "the per-server clients are constructed with `%s`, which Client.__init__ does not accept" % k, fn=hinit, node=hinit.node)
            # failures must reach the failover logic: the per-server clients are never told to swallow them
            v = kw.get("ignore_exc", None)
            if type(v).__name__ == "MaybeV" and v.v == Const(False):
                v = v.v  # passed as False or left to Client's default False: the same
            if v is None and "**" in kw:
                r3.undecided("%s:ignore_exc-forwarded" % cname, "the per-server clients are constructed with a `**mapping` whose content the analysis lost")
                continue
            r3.expect(v is None or v == Const(False), "%s: per-server clients keep ignore_exc=False" % cname, "%s:ignore_exc-forwarded" % cname, "%s constructs its per-server clients with ignore_exc=%s: with ignore_exc set their reads swallow connection errors, so %s never sees a failure - no marking, no back-off, no eviction, every call contacts the dead server" % (cname, "its own `ignore_exc` option" if isinstance(v, pooled_an.P) else v, cname), fn=hinit, node=hinit.node)

    # ------------------------------------------------------------------ R4 RetryingClient transparency
    r4 = chk.rule("C16.R4", "RetryingClient forwards name, bound method and all arguments; _retry returns the delegate's result unmodified; dunders mirror Client's")
    rc = prog.cls("RetryingClient")
    ga = prog.method(rc, "__getattr__")
    # __getattr__ interpreted with a symbolic name; the callable it returns (a lambda or a nested single-return def)
    # applied to symbolic *A, **K: the one call it makes must be self._retry(name, <the client's attribute `name`>, *A, **K)
    # and its result is what the callable returns
    nm = ga.pos_params()[0].name if ga.pos_params() else "name"
    gdom = _GetattrDomain(prog, ga)
    gouts = Interp(gdom, ga.node, prog).run(Env({nm: Opaque("NAME")}))
    n_ret = 0
    for s_, v, t in gouts.of("ret"):
        n_ret += 1
        if not isinstance(v, LambdaV):
            r4.undecided("RetryingClient.__getattr__:forwarding", "__getattr__ returns %s: not a lambda or a single-return function this analysis can apply" % (v,))
            continue
        res = gdom.apply_lambda(v.node, v, [], {"#star": Opaque("*A"), "#dstar": Opaque("**K")}, s_)
        if res is None:
            r4.undecided("RetryingClient.__getattr__:forwarding", "the callable returned by __getattr__ does not take (*args, **kwargs) only")
            continue
        for kind, val, s2 in res:
            calls_ = s2.get("#retry", ())
            want = ((Opaque("NAME"), Opaque("client.NAME"), Opaque("*A")), (("**", Opaque("**K")),))
            if kind != "ok":
                r4.fail("RetryingClient.__getattr__:forwarding", "the callable returned by __getattr__ raises %s before anything is forwarded" % (val,), fn=ga, node=ga.node)
            elif len(calls_) != 1 or calls_[0] != want:
                r4.fail("RetryingClient.__getattr__:forwarding", "RetryingClient.__getattr__ does not forward name/method/arguments intact: client.<name>(*a, **k) through the wrapper makes the _retry calls %s (wanted: _retry(name, client.<name>, *a, **k))" % ([_show_retry(c) for c in calls_],), fn=ga, node=ga.node)
            elif val != Opaque("retry-result"):
                r4.fail("RetryingClient.__getattr__:result-modified", "the callable returned by __getattr__ returns %s, not the value _retry returned" % (val,), fn=ga, node=ga.node)
            else:
                r4.ok("__getattr__(name)(*a, **k) = self._retry(name, client.<name>, *a, **k)")
    for s_, e_, t in gouts.of("exc"):
        r4.fail("RetryingClient.__getattr__:raises", "__getattr__ raises %s" % (e_,), fn=ga, node=ga.node)
    r4.floor("returns of RetryingClient.__getattr__", n_ret, 1)
    rt = prog.method(rc, "_retry")
    calls = [c for c in walk_no_nested(rt.node) if isinstance(c, ast.Call) and isinstance(c.func, ast.Name) and c.func.id == "func"]
    va = [p_.name for p_ in rt.params if p_.kind == "vararg"]
    kw = [p_.name for p_ in rt.params if p_.kind == "kwarg"]
    # every call site of the delegate passes exactly the caller's *args and **kwargs (how many times it runs is C17's)
    okc = bool(calls) and len(va) == 1 and len(kw) == 1 and all(len(c.args) == 1 and isinstance(c.args[0], ast.Starred) and isinstance(c.args[0].value, ast.Name) and c.args[0].value.id == va[0] and len(c.keywords) == 1 and c.keywords[0].arg is None and isinstance(c.keywords[0].value, ast.Name) and c.keywords[0].value.id == kw[0] for c in calls)
    r4.expect(okc, "_retry calls func(*args, **kwargs)", "RetryingClient._retry:call", "_retry does not call func(*args, **kwargs) with exactly the caller's arguments at every call site", fn=rt, node=rt.node)
    for c in calls if okc else ():
        p = getattr(c, "_parent", None)
        okr = isinstance(p, ast.Return) or (isinstance(p, ast.Assign) and isinstance(p.targets[0], ast.Name) and any(isinstance(r, ast.Return) and isinstance(r.value, ast.Name) and r.value.id == p.targets[0].id for r in walk_no_nested(rt.node)))
        r4.expect(okr, "_retry returns the delegate's value itself", "RetryingClient._retry:result-modified", "_retry does not return func's result unmodified", fn=rt, node=c)
    for d in ("__setitem__", "__getitem__", "__delitem__"):
        a = prog.method("Client", d)
        b = prog.method(rc, d, required=False)
        if b is None:
            r4.fail("RetryingClient.%s:missing" % d, "RetryingClient lacks %s" % d, fn=rt)
            continue
        same = _norm_body(a.node) == _norm_body(b.node)
        r4.expect(same, "RetryingClient.%s mirrors Client.%s" % (d, d), "RetryingClient.%s:differs" % d, "RetryingClient.%s (`%s`) differs from Client.%s (`%s`)" % (d, _norm_body(b.node), d, _norm_body(a.node)), fn=b, node=b.node)
        c = prog.method(pooled, d, required=False)
        if c is not None:
            r4.expect(_norm_body(a.node) == _norm_body(c.node), "PooledClient.%s mirrors Client.%s" % (d, d), "PooledClient.%s:differs" % d, "PooledClient.%s differs from Client.%s" % (d, d), fn=c, node=c.node)
    # ------------------------------------------------------------------ R5 a single-server HashClient is transparent
    r5 = chk.rule("C16.R5", "a HashClient with one server hands every operation, with the caller's own key object, to that server's client, and only bypasses it after an OSError")
    from . import rules_C12, rules_C13, report

    report.include_rules(chk, r5, rules_C12, ("C12.R1", "C12.R2"), "the routed client is the hasher's answer for this call and the key passed on is this call's own key")
    rules_C12.duplicate_key_rows(prog, r5)
    from . import rules_C11

    report.include_rules(chk, r5, rules_C11, ("C11.R2", "C11.R3"), "the router accepts every key Client accepts and answers from the key alone (it hashes '<node>-<key>' as given, str or bytes, and takes the argmax): it cannot fail or misroute for keys a plain Client serves")
    report.include_rules(chk, r5, rules_C12, ("C12.R3", "C12.R4"), "the multi-key operations hand every key to the server's client through its own multi-key method and return what it answered (no special-cased path that interprets values itself)")
    report.include_rules(chk, r5, rules_C13, ("C13.R1",), "a server that answered (or failed with something other than an OSError) is not marked as failing, so later calls are still sent to it like a plain Client would")
    # what the wrappers add around the inner Client must not show on the wire or in the outcome: the pool discards a
    # failed connection by closing it and nothing else (no farewell command a plain Client never sends), and the inner
    # Client's connection set-up leaves no half-initialised socket behind that a wrapper-less Client would go on using
    from . import rules_C09, rules_C06

    report.include_rules(chk, r5, rules_C09, ("C09.R3",), "discarding a pooled connection closes it and sends nothing")
    report.include_rules(chk, r5, rules_C06, ("C06.R1",), "a connection attempt that fails leaves no socket on the client: the next call behaves the same through every wrapper")
    chk.assume("the inner object of the wrappers is a Client (client_class); user-supplied client classes are outside the property")


def _check_run_cmd(prog, r2):
    hashc = prog.cls("HashClient")
    rc = prog.method(hashc, "_run_cmd")
    from .rules_C12 import run_cmd_problems

    rcp = run_cmd_problems(prog)
    r2.expect(not rcp, "_run_cmd hands (routed client, its method looked up by the command name, default, inner key, *args, **kwargs) to the safe runner and returns its result", "HashClient._run_cmd:forwarding", "_run_cmd: %s" % "; ".join(rcp), fn=rc, node=rc.node)
    sf = prog.method(hashc, "_safely_run_func")
    calls = [c for c in walk_no_nested(sf.node) if isinstance(c, ast.Call) and isinstance(c.func, ast.Name) and c.func.id == "func"]
    good = 0
    for c in calls:
        star = [a for a in c.args if isinstance(a, ast.Starred)]
        dstar = [k for k in c.keywords if k.arg is None]
        p = getattr(c, "_parent", None)
        ret_ok = isinstance(p, ast.Return) or (isinstance(p, ast.Assign) and isinstance(p.targets[0], ast.Name))
        if len(c.args) == 1 and len(star) == 1 and len(c.keywords) == 1 and len(dstar) == 1 and ret_ok:
            good += 1
    r2.expect(calls and good == len(calls), "_safely_run_func calls func(*args, **kwargs) (%d sites) and keeps the result" % len(calls), "HashClient._safely_run_func:call", "_safely_run_func does not call func(*args, **kwargs) with the caller's arguments", fn=sf, node=sf.node)
    # what it returns on the success paths is that result variable
    for c in calls:
        p = getattr(c, "_parent", None)
        if isinstance(p, ast.Assign):
            var = p.targets[0].id
            # the next return in the same block returns var
            blk = getattr(p, "_parent", None)
            body = None
            for fld in ("body", "orelse", "finalbody"):
                if p in getattr(blk, fld, []):
                    body = getattr(blk, fld)
            rets = [s for s in (body or []) if isinstance(s, ast.Return) and s.lineno > p.lineno]
            ok = bool(rets) and isinstance(rets[0].value, ast.Name) and rets[0].value.id == var
            r2.expect(ok, "_safely_run_func returns the delegate's result (`%s`)" % var, "HashClient._safely_run_func:result-modified", "_safely_run_func does not return func's result unmodified after line %d" % p.lineno, fn=sf, node=p)


def _for_ancestors(n):
    n = getattr(n, "_parent", None)
    while n is not None:
        if isinstance(n, ast.For):
            yield n
        n = getattr(n, "_parent", None)


def _forwarding(pf, cf, call):
    """Problems in mapping the wrapper's parameters onto the delegate's."""
    problems = []
    cpos = [p.name for p in cf.pos_params()]
    seen = {}
    for i, a in enumerate(call.args):
        if isinstance(a, ast.Starred):
            va = [p.name for p in pf.params if p.kind == "vararg"]
            if not (isinstance(a.value, ast.Name) and va and a.value.id == va[0]):
                problems.append("star argument `%s` is not the wrapper's *%s" % (node_src(a), va[0] if va else "args"))
            else:
                seen[va[0]] = seen.get(va[0], 0) + 1
            continue
        if i >= len(cpos):
            if not cf.has_varargs():
                problems.append("too many positional arguments")
            continue
        target = cpos[i]
        if not (isinstance(a, ast.Name) and a.id == target):
            problems.append("positional argument %d `%s` lands on parameter `%s` of Client.%s" % (i + 1, node_src(a), target, cf.name))
        else:
            seen[target] = seen.get(target, 0) + 1
    for k in call.keywords:
        if k.arg is None:
            continue
        if cf.param(k.arg) is None and not cf.has_kwargs():
            problems.append("keyword `%s` is not a parameter of Client.%s" % (k.arg, cf.name))
        elif not (isinstance(k.value, ast.Name) and k.value.id == k.arg):
            problems.append("`%s=%s` does not forward the same-named parameter unmodified" % (k.arg, node_src(k.value)))
        else:
            seen[k.arg] = seen.get(k.arg, 0) + 1
    for p in pf.params:
        if p.name == "self":
            continue
        if seen.get(p.name, 0) != 1:
            problems.append("parameter `%s` is forwarded %d times" % (p.name, seen.get(p.name, 0)))
    return problems


def _returns_none(cf):
    ann = cf.node.returns
    if isinstance(ann, ast.Constant) and ann.value is None:
        return True
    rets = [r for r in walk_no_nested(cf.node) if isinstance(r, ast.Return) and r.value is not None and not (isinstance(r.value, ast.Constant) and r.value.value is None)]
    return not rets


def _ancestor_kinds(n):
    out = set()
    p = getattr(n, "_parent", None)
    while p is not None and not isinstance(p, (ast.FunctionDef, ast.AsyncFunctionDef)):
        out.add(type(p))
        p = getattr(p, "_parent", None)
    return out


def _stmt_of(n):
    while n is not None and not isinstance(n, ast.stmt):
        n = getattr(n, "_parent", None)
    return n


def _derives_from(expr, pname):
    if isinstance(expr, ast.Name) and expr.id == pname:
        return True
    # `x or <fallback built from deprecated options>`
    if isinstance(expr, ast.BoolOp) and isinstance(expr.op, ast.Or) and isinstance(expr.values[0], ast.Name) and expr.values[0].id == pname:
        return True
    return False


def _sig(ps):
    return "(" + ", ".join(("*" if k == "vararg" else "**" if k == "kwarg" else "") + n + ("=" + d[1] if d[0] != "<required>" and len(d) > 1 else "") for n, k, d in ps) + ")"


def _d(p, f):
    d = _default(p, f.module)
    return "" if d[0] == "<required>" else "=" + d[1]


def _norm_body(fn):
    body = [s for s in fn.body if not (isinstance(s, ast.Expr) and isinstance(s.value, ast.Constant) and isinstance(s.value.value, str))]
    return "; ".join(node_src(s, 200) for s in body)
