"""Exact small collections for the path interpreter, with a heap.

A rule that has to follow *which* keys end up in a list or a dict (the store exchange: `keys.append(key)` ...
`{k: True for k in keys}` ... `results[key] = ...`; HashClient's `client_batches[client.server].append(key)`) mixes this
class into its domain.

  * tuples are values: TupleV (exact sequence of abstract values);
  * lists and dicts are *objects*: a `Ref(kind, site, n)` names the n-th object allocated at a source position, its
    content lives in the state under ("heap", ref) as a TupleV (list) or DictV (dict, insertion-ordered pairs).
    Mutation through any alias, through a nested subscript (`d[k].append(x)`, `d[k][j] = v`) or inside an inlined helper
    (heap entries are tuple keys, so they flow through `Domain.inline`) therefore updates the one object;
  * `collections.defaultdict(list | dict)` is a dict object whose missing keys are created on subscript load;
  * generator expressions / iter() are one-shot iterators (GenV; ("gen", site) in the state = used up);
  * `for` over an exact collection is unrolled exactly (an index per loop site in the state, reading the live
    content), comprehensions are evaluated per element.

Everything that is not understood degrades to TOP, never to a wrong exact value: an object that keeps growing is
widened (content TOP) after MAX_LEN elements, an allocation site that keeps allocating yields TOP after MAX_ALLOC
objects, a loop over an unknown iterable marks the state imprecise (`mark_imprecise`)."""
import ast
from collections import namedtuple

from .paths import TOP, NONE, NOVALUE, Const, TupleV, Opaque, Exc, ORD, ClassRef, Env, SliceV, MaybeV

DictV = namedtuple("DictV", "items")  # content of a dict object: tuple of (key value, value) pairs, keys pairwise distinct
Ref = namedtuple("Ref", "kind site n")  # kind: 'list' | 'dict' | 'ddict:list' | 'ddict:dict'
Bound = namedtuple("Bound", "obj attr")  # a method of a collection
GenV = namedtuple("GenV", "site items")  # a one-shot iterator
CONSUMERS = ("list", "tuple", "set", "frozenset", "sorted", "dict", "sum", "any", "all", "max", "min", "enumerate", "zip", "map", "filter", "reversed")
MAX_LEN = 32
MAX_ALLOC = 12
SCENARIO_LIMIT = 8  # sizes compared with a constant >= this are beyond what the small scenarios say anything about


ItemGetter = namedtuple("ItemGetter", "idx")  # operator.itemgetter(i, ...)
_IDX_NODE = ast.parse("x[0]").body[0].value  # a plain (non-slice) subscript node, for lookups made by the model itself


class LenV(namedtuple("LenV", "n")):
    """len() of an exact collection of the scenario: the number n, remembered to be a *size* so that a comparison with
    a large constant (a batch limit, a threshold) is not decided from the scenario's two or three elements."""



def distinct(a, b):
    """Surely different abstract values (symbolic keys are Opaque and pairwise distinct by construction)."""
    if a == b:
        return False
    if isinstance(a, (Const, Opaque, ClassRef)) and isinstance(b, (Const, Opaque, ClassRef)):
        return True
    if isinstance(a, TupleV) and isinstance(b, TupleV):
        return len(a.items) != len(b.items) or any(distinct(x, y) for x, y in zip(a.items, b.items))
    if isinstance(a, TupleV) != isinstance(b, TupleV) and isinstance(a, (Const, Opaque, ClassRef, TupleV)) and isinstance(b, (Const, Opaque, ClassRef, TupleV)):
        return True
    return False


def member(x, seq):
    """x in seq for an exact sequence: True / False / None (unknown)."""
    unknown = False
    for y in seq:
        if x == y and x is not TOP:
            return True
        if not distinct(x, y):
            unknown = True
    return None if unknown else False


def dict_get(d, k):
    """-> ('hit', v) | ('miss',) | ('unknown',)"""
    unknown = False
    for kk, vv in d.items:
        if kk == k and kk is not TOP:
            return ("hit", vv) if not isinstance(vv, MaybeV) else ("unknown",)
        if not distinct(kk, k):
            unknown = True
    return ("unknown",) if unknown else ("miss",)


def dict_set(d, k, v):
    items = list(d.items)
    for i, (kk, vv) in enumerate(items):
        if kk == k and kk is not TOP:
            items[i] = (kk, v)
            return DictV(tuple(items))
        if not distinct(kk, k):
            return TOP
    if len(items) >= MAX_LEN:
        return TOP
    items.append((k, v))
    return DictV(tuple(items))


def dict_del(d, k):
    r = dict_get(d, k)
    if r[0] == "hit":
        return DictV(tuple((kk, vv) for kk, vv in d.items if kk != k))
    return d if r[0] == "miss" else TOP


def content(ref, state):
    """TupleV / DictV, or None when the object's content is not known."""
    c = state.get(("heap", ref), None) if isinstance(state, Env) else None
    return c if isinstance(c, (TupleV, DictV)) else None


def deref(v, state, depth=0):
    """The pure value denoted by `v` in `state`: list objects become TupleV, dict objects DictV (recursively)."""
    if depth > 6:
        return TOP
    if isinstance(v, Ref):
        c = content(v, state)
        if c is None:
            return TOP
        return deref(c, state, depth + 1)
    if isinstance(v, TupleV):
        return TupleV(tuple(deref(x, state, depth + 1) for x in v.items))
    if isinstance(v, DictV):
        return DictV(tuple((deref(k, state, depth + 1), deref(x, state, depth + 1)) for k, x in v.items))
    return v


def carry_over(state, keep):
    """The part of `state` that outlives a call - the bindings whose name satisfies keep(name), with everything they
    reach on the heap - as a dict for the next call's initial state.  Heap objects are renamed in first-visit order
    (sharing preserved), allocation counters and loop positions are dropped: two states that denote the same object
    graph become equal, whatever the calls that built them."""
    mapping, env = {}, {}

    def conv(v):
        if isinstance(v, Ref):
            if v not in mapping:
                nr = Ref(v.kind, ("kept", len(mapping)), 0)
                mapping[v] = nr
                c = content(v, state)
                env[("heap", nr)] = conv(c) if c is not None else TOP
            return mapping[v]
        if isinstance(v, TupleV):
            return TupleV(tuple(conv(x) for x in v.items))
        if isinstance(v, DictV):
            return DictV(tuple((conv(k), conv(x)) for k, x in v.items))
        return v

    for k in sorted((k for k in state.d if isinstance(k, str) and keep(k))):
        env[k] = conv(state.d[k])
    return env


def new_object(env, name, kind, cont):
    """Bind `name` in the dict `env` (the initial state under construction) to a fresh list/dict object."""
    ref = Ref(kind, ("arg", name), 0)
    env[name] = ref
    env[("heap", ref)] = cont
    return ref


class ExactCollections:
    """Mixin; list it *before* the Domain base class."""

    comp_exact = True

    comp_sequential = True  # comprehensions over exact iterables are evaluated element by element (paths._comp_sequential)
    slice_values = True  # slice bounds are values (paths.SliceV)
    # sizes compared with a constant >= scenario_limit are beyond what a two- or three-element scenario says anything
    # about: both outcomes are explored and the path is marked imprecise.  The constants met are collected in
    # `thresholds`, so that a rule can come back with a scenario on either side of them and the limit lifted
    scenario_limit = SCENARIO_LIMIT
    thresholds = None

    eager_generators = True  # a generator function called from here is interpreted and its yields collected (paths.inline)

    def generator_value(self, node, yields, finfo):
        return GenV((node.lineno, node.col_offset, finfo.name), tuple(yields))

    def yield_(self, node, value, state):
        key = ("#yields", self._depth)
        if state.has(key):
            return [("ok", NONE, state.set(key, state.get(key) + (value,)))]
        return super().yield_(node, value, state)

    # ---- record objects: instances of small data classes of the analysed package ----------------------------------------
    def record_class(self, cls):
        """'plain' | 'namedtuple' | 'dataclass' for a class this model instantiates exactly, else None: no methods
        beyond __init__ (and dunders that only read), no base class that carries behaviour."""
        bases = [b.split(".")[-1] for b in getattr(cls, "bases", [])]
        decos = " ".join(ast.unparse(d) for d in cls.node.decorator_list)
        others = [m for m in cls.methods if m not in ("__init__", "__repr__", "__str__", "__eq__", "__hash__")]
        if others or len(cls.node.body) > 12:
            return None
        if "NamedTuple" in bases and len(bases) == 1:
            return "namedtuple"
        if "dataclass" in decos and not bases:
            return "dataclass"
        if not bases or bases == ["object"]:
            return "plain" if "__init__" in cls.methods else None
        return None

    def _record_fields(self, cls):
        out = []
        for st in cls.node.body:
            if isinstance(st, ast.AnnAssign) and isinstance(st.target, ast.Name):
                out.append((st.target.id, st.value))
        return out

    def instantiate(self, node, cls, args, kwargs, state):
        kind = self.record_class(cls)
        if kind is None or any(isinstance(a, ast.Starred) for a in node.args) or any(k.startswith("**") for k in kwargs):
            return None
        ref, st = self.alloc(state, node, "obj:" + cls.name, DictV(()))
        if ref is TOP:
            return [("ok", TOP, self.mark_imprecise(state, node))]
        if kind in ("namedtuple", "dataclass"):
            fields = self._record_fields(cls)
            vals = {}
            for (fname, dflt), a in zip(fields, args):
                vals[fname] = a
            for k, v in kwargs.items():
                vals[k] = v
            d = DictV(())
            for fname, dflt in fields:
                if fname not in vals:
                    if dflt is None or not isinstance(dflt, ast.Constant):
                        return [("ok", TOP, self.mark_imprecise(state, node))]
                    vals[fname] = Const(dflt.value)
                d = dict_set(d, Const(fname), vals[fname])
            if len(args) > len(fields) or any(k not in dict(fields) for k in kwargs):
                return [("exc", Exc(ORD, "TypeError", node.lineno), state)]
            return [("ok", ref, self.put(st, ref, d))]
        # a plain class: its __init__ runs with `self` bound to the new object
        init = cls.methods["__init__"]
        if self._depth >= self.max_inline_depth:
            return [("ok", TOP, self.mark_imprecise(state, node))]
        bound = self.bind_params(init, args, kwargs)
        pname = init.node.args.args[0].arg if init.node.args.args else "self"
        bound[pname] = ref
        env = {k: v for k, v in st.d.items() if self.is_global_key(k)}
        env.update(bound)
        from .paths import Interp as _Interp

        self._depth += 1
        self.frames.append({"fn": init, "site": node, "bound": bound})
        saved = self.fn
        self.fn = init
        try:
            outs = _Interp(self, init.node, self.prog).run(Env(env))
        finally:
            self.fn = saved
            self.frames.pop()
            self._depth -= 1
        locals_ = {k: v for k, v in st.d.items() if not self.is_global_key(k)}
        res = []
        for kind_, val in (("ret", ref), ("exc", None)):
            for s2, v2, t2 in outs.of(kind_):
                md = dict(locals_)
                md.update({k: x for k, x in s2.d.items() if self.is_global_key(k)})
                res.append(("ok", ref, Env(md)) if kind_ == "ret" else ("exc", v2, Env(md)))
        return res

    def record_load(self, ref, attr, state):
        """-> (value, definitely missing)"""
        c = content(ref, state)
        if c is None:
            return TOP, False
        r = dict_get(c, Const(attr))
        if r[0] == "hit":
            return r[1], False
        return (TOP, False) if r[0] == "unknown" else (NOVALUE, True)

    def record_store(self, ref, attr, value, state):
        c = content(ref, state)
        if c is None:
            return state
        return self.put(state, ref, dict_set(c, Const(attr), value))

    def while_continue(self, node, state):
        """Another round of a `while` loop: unbounded on exact paths; on a path already marked imprecise (a size
        compared with a far-away constant, an unknown iterable) at most three rounds per loop."""
        if not state.get("#imprecise", 0):
            return state
        key = ("witer", node.lineno)
        n = state.get(key, 0)
        if n >= 3:
            return None
        return state.set(key, n + 1)

    def _apply_key(self, node, keyf, x, state):
        """A key function (lambda, operator.itemgetter) applied to one element -> (value, state) or None."""
        if isinstance(keyf, ItemGetter):
            vals = []
            for i in keyf.idx:
                v, may, state = self.subscript_load_s(x, Const(i), _IDX_NODE, state)
                if v is NOVALUE or v is TOP:
                    return None
                vals.append(v)
            return (vals[0] if len(vals) == 1 else TupleV(tuple(vals))), state
        if hasattr(keyf, "closure") and hasattr(self, "apply_lambda"):
            rr = self.apply_lambda(node, keyf, [x], {}, state)
            if rr and len(rr) == 1 and rr[0][0] == "ok":
                return (deref(rr[0][1], rr[0][2]) if isinstance(rr[0][1], Ref) else rr[0][1]), rr[0][2]
        return None

    def _threshold(self, c):
        if self.thresholds is None:
            self.thresholds = set()
        self.thresholds.add(abs(c))

    def mark_imprecise(self, state, node):
        return state

    def consumed_call(self, node, fval, args, kwargs, state):
        """A consumer the mixin does not model itself, with its one-shot arguments already replaced by what it sees:
        the domain's own `call` continues (it must not come back to coll_call with a GenV)."""
        return [("ok", TOP, state)]

    # ---- heap ---------------------------------------------------------------------------------------
    def alloc(self, state, node, kind, cont):
        """-> (Ref | TOP, state)"""
        site = (getattr(node, "lineno", 0), getattr(node, "col_offset", 0), kind.split(":")[0])
        n = state.get(("nalloc", site), 0)
        if n >= MAX_ALLOC or cont is TOP:
            return TOP, state
        ref = Ref(kind, site, n)
        return ref, state.set(("nalloc", site), n + 1).set(("heap", ref), cont)

    def put(self, state, ref, cont):
        if isinstance(cont, TupleV) and len(cont.items) > MAX_LEN:
            cont = TOP
        return state.set(("heap", ref), cont)

    # ---- construction -----------------------------------------------------------------
    def make_list_s(self, items, node, state):
        if any(isinstance(e, ast.Starred) for e in getattr(node, "elts", ())):
            flat = []
            for e, v in zip(node.elts, items):
                if isinstance(e, ast.Starred):
                    seq, state = self.consume(v, state)
                    if seq is None:
                        return TOP, state
                    flat += list(seq)
                else:
                    flat.append(v)
            items = flat
        return self.alloc(state, node, "list", TupleV(tuple(items)))

    def make_dict_s(self, keys, values, node, state):
        if len(keys) != len(values):
            return TOP, state
        d = DictV(())
        for k, v in zip(keys, values):
            d = dict_set(d, k, v)
            if d is TOP:
                return TOP, state
        return self.alloc(state, node, "dict", d)

    def truth(self, v, state=None):
        if isinstance(v, LenV):
            return v.n != 0
        if isinstance(v, Ref):
            c = content(v, state) if state is not None else None
            return (len(c.items) > 0) if c is not None else None
        if isinstance(v, DictV):
            return len(v.items) > 0
        if isinstance(v, (Bound, GenV)):
            return True  # an iterator object is truthy whether or not anything is left in it
        return super().truth(v, state)

    def never_none(self, v):
        return isinstance(v, (Ref, DictV, Bound, GenV, LenV)) or super().never_none(v)

    def compare(self, node, op, l, r, state):
        if isinstance(l, LenV) or isinstance(r, LenV):
            other = r if isinstance(l, LenV) else l
            a = Const(l.n) if isinstance(l, LenV) else l
            b = Const(r.n) if isinstance(r, LenV) else r
            if isinstance(other, Const) and isinstance(other.v, int) and not isinstance(other.v, bool) and abs(other.v) >= self.scenario_limit and isinstance(op, (ast.Lt, ast.LtE, ast.Gt, ast.GtE, ast.Eq, ast.NotEq)):
                self._threshold(other.v)
                return TOP  # a size threshold beyond the scenario: both outcomes, marked imprecise by refine_compare
            return super().compare(node, op, a, b, state)
        if isinstance(op, (ast.In, ast.NotIn)):
            seq = self._seq(r, state) if not isinstance(r, GenV) else None
            if seq is not None:
                m = member(l, seq)
                if m is not None:
                    return Const(m if isinstance(op, ast.In) else not m)
                return TOP
        if isinstance(op, (ast.Is, ast.IsNot)) and isinstance(l, Ref) and isinstance(r, Ref):
            return Const((l == r) if isinstance(op, ast.Is) else (l != r))
        return super().compare(node, op, l, r, state)

    def refine_compare(self, node, op, lexpr, l, rexpr, r, branch, state):
        if isinstance(l, LenV) or isinstance(r, LenV):
            return self.mark_imprecise(state, node)
        return super().refine_compare(node, op, lexpr, l, rexpr, r, branch, state)

    def binop_s(self, node, l, r, state):
        if isinstance(node.op, (ast.FloorDiv, ast.Mod, ast.Div)) and isinstance(l, LenV) and isinstance(r, Const) and isinstance(r.v, int) and not isinstance(r.v, bool) and abs(r.v) >= self.scenario_limit:
            # len(batch) // chunk, len(batch) % chunk: a size threshold, like a comparison with that constant
            self._threshold(r.v)
            state = self.mark_imprecise(state, node)
        if isinstance(l, LenV):
            l = Const(l.n)
        if isinstance(r, LenV):
            r = Const(r.n)
        if isinstance(node.op, ast.Add):
            if isinstance(l, TupleV) and isinstance(r, TupleV):
                return TupleV(l.items + r.items), state
            if isinstance(l, Ref) and l.kind == "list":
                cl = content(l, state)
                seq = self._seq(r, state) if isinstance(r, (Ref, TupleV)) else None
                if cl is not None and seq is not None:
                    if getattr(node, "_aug", None) is not None:
                        return l, self.put(state, l, TupleV(cl.items + tuple(seq)))  # `x += y` extends x in place
                    return self.alloc(state, node, "list", TupleV(cl.items + tuple(seq)))
                if getattr(node, "_aug", None) is not None:
                    return l, self.put(state, l, TOP)
                return TOP, state
        return self.binop(node, l, r, state), state

    # ---- methods -------------------------------------------------------------------------
    def coll_attr(self, objval, node):
        if isinstance(objval, (Ref, TupleV, DictV)):
            return Bound(objval, node.attr)  # (a bare DictV is an immutable mapping constant, e.g. a module-level table)
        return None

    def coll_call(self, node, fval, args, kwargs, state):
        """-> result list or None when this is not a collection operation."""
        ok = lambda v, s=None: [("ok", v, state if s is None else s)]
        if isinstance(fval, Bound):
            obj, attr = fval
            if isinstance(obj, TupleV):
                return ok(TOP) if attr in ("index", "count") else None
            if isinstance(obj, DictV):
                if attr not in ("items", "keys", "values", "get"):
                    return ok(TOP)
                cont, obj = obj, Ref("dict", ("const",), 0)
            else:
                cont = content(obj, state)
            if cont is None:
                # an object whose content is unknown: mutators keep it unknown, readers know nothing
                return ok(NONE if attr in ("append", "appendleft", "extend", "insert", "remove", "discard", "add", "clear", "sort", "reverse", "update") else TOP)
            if obj.kind == "list":
                items = cont.items
                if attr == "append" and len(args) == 1:
                    return ok(NONE, self.put(state, obj, TupleV(items + (args[0],))))
                if attr == "extend" and len(args) == 1:
                    seq, st = self.consume(args[0], state)
                    return ok(NONE, self.put(st, obj, TupleV(items + tuple(seq)) if seq is not None else TOP))
                if attr == "insert" and len(args) == 2 and isinstance(args[0], Const) and isinstance(args[0].v, int):
                    lst = list(items)
                    lst.insert(args[0].v, args[1])
                    return ok(NONE, self.put(state, obj, TupleV(tuple(lst))))
                if attr == "pop" and len(args) <= 1 and (not args or (isinstance(args[0], Const) and isinstance(args[0].v, int))):
                    i = args[0].v if args else -1
                    if not (-len(items) <= i < len(items)):
                        return [("exc", Exc(ORD, "IndexError", node.lineno), state)]
                    lst = list(items)
                    v = lst.pop(i)
                    return ok(v, self.put(state, obj, TupleV(tuple(lst))))
                if attr == "popleft" and not args:
                    if not items:
                        return [("exc", Exc(ORD, "IndexError", node.lineno), state)]
                    return ok(items[0], self.put(state, obj, TupleV(items[1:])))
                if attr == "appendleft" and len(args) == 1:
                    return ok(NONE, self.put(state, obj, TupleV((args[0],) + items)))
                if attr == "remove" and len(args) == 1:
                    m = member(args[0], items)
                    if m is True:
                        lst = list(items)
                        lst.remove(args[0])
                        return ok(NONE, self.put(state, obj, TupleV(tuple(lst))))
                    if m is False:
                        return [("exc", Exc(ORD, "ValueError", node.lineno), state)]
                    return ok(NONE, self.put(state, obj, TOP)) + [("exc", Exc(ORD, "ValueError", node.lineno), state)]
                if attr == "clear" and not args:
                    return ok(NONE, self.put(state, obj, TupleV(())))
                if attr == "reverse" and not args:
                    return ok(NONE, self.put(state, obj, TupleV(tuple(reversed(items)))))
                if attr == "copy" and not args:
                    return [("ok",) + self.alloc(state, node, "list", cont)]
                if attr == "count" and len(args) == 1:
                    if all(x == args[0] or distinct(x, args[0]) for x in items) and args[0] is not TOP:
                        return ok(Const(sum(1 for x in items if x == args[0])))
                    return ok(TOP)
                if attr == "index" and len(args) == 1:
                    for i, x in enumerate(items):
                        if x == args[0] and x is not TOP:
                            return ok(Const(i))
                        if not distinct(x, args[0]):
                            return ok(TOP)
                    return [("exc", Exc(ORD, "ValueError", node.lineno), state)]
                if attr in ("index", "count"):
                    return ok(TOP)
                if attr == "sort":
                    return ok(NONE, self.put(state, obj, TOP if len(items) > 1 else cont))
                return ok(TOP)
            if obj.kind == "set":
                # a set object: its elements in insertion order (the order a loop over it sees is unspecified in
                # Python; what is decided with it must not depend on that order)
                items = cont.items
                if attr == "add" and len(args) == 1:
                    m = member(args[0], items)
                    if m is True:
                        return ok(NONE)
                    if m is False:
                        return ok(NONE, self.put(state, obj, TupleV(items + (args[0],))))
                    return ok(NONE, self.put(state, obj, TOP))
                if attr in ("discard", "remove") and len(args) == 1:
                    m = member(args[0], items)
                    if m is True:
                        return ok(NONE, self.put(state, obj, TupleV(tuple(x for x in items if x != args[0]))))
                    if m is False:
                        return ok(NONE) if attr == "discard" else [("exc", Exc(ORD, "KeyError", node.lineno), state)]
                    return ok(NONE, self.put(state, obj, TOP)) + ([] if attr == "discard" else [("exc", Exc(ORD, "KeyError", node.lineno), state)])
                if attr == "clear" and not args:
                    return ok(NONE, self.put(state, obj, TupleV(())))
                if attr == "copy" and not args:
                    return [("ok",) + self.alloc(state, node, "set", cont)]
                if attr == "update" and len(args) == 1:
                    seq, st = self.consume(args[0], state)
                    if seq is None:
                        return ok(NONE, self.put(st, obj, TOP))
                    cur = items
                    for x in seq:
                        m = member(x, cur)
                        if m is None:
                            return ok(NONE, self.put(st, obj, TOP))
                        if m is False:
                            cur = cur + (x,)
                    return ok(NONE, self.put(st, obj, TupleV(cur)))
                if attr == "pop" and not args:
                    if not items:
                        return [("exc", Exc(ORD, "KeyError", node.lineno), state)]
                    return ok(TOP, self.mark_imprecise(self.put(state, obj, TOP), node))  # an arbitrary element
                return ok(TOP)
            # dict objects
            if any(isinstance(v_, MaybeV) for k_, v_ in cont.items) and attr in ("items", "keys", "values", "copy", "popitem"):
                return ok(TOP, self.mark_imprecise(state, node))
            if attr == "items" and not args:
                return ok(TupleV(tuple(TupleV((k, v)) for k, v in cont.items)))
            if attr == "keys" and not args:
                return ok(TupleV(tuple(k for k, v in cont.items)))
            if attr == "values" and not args:
                return ok(TupleV(tuple(v for k, v in cont.items)))
            if attr == "copy" and not args:
                return [("ok",) + self.alloc(state, node, "dict", cont)]
            if attr == "get" and 1 <= len(args) <= 2:
                r = dict_get(cont, args[0])
                if r[0] == "hit":
                    return ok(r[1])
                if r[0] == "miss":
                    return ok(args[1] if len(args) == 2 else NONE)
                return ok(TOP)
            if attr == "update" and len(args) <= 1:
                d = cont
                pairs = []
                if args:
                    src = args[0]
                    sc = content(src, state) if isinstance(src, Ref) else (src if isinstance(src, DictV) else None)
                    if isinstance(sc, DictV):
                        pairs = list(sc.items)
                    elif isinstance(sc, TupleV) or isinstance(src, TupleV):
                        seq = (sc or src).items
                        if all(isinstance(p, TupleV) and len(p.items) == 2 for p in seq):
                            pairs = [(p.items[0], p.items[1]) for p in seq]
                        else:
                            return ok(NONE, self.put(state, obj, TOP))
                    else:
                        return ok(NONE, self.put(state, obj, TOP))
                pairs += [(Const(k), v) for k, v in kwargs.items() if not k.startswith("**")]
                for k, v in pairs:
                    d = dict_set(d, k, v) if d is not TOP else TOP
                return ok(NONE, self.put(state, obj, d))
            if attr == "setdefault" and 1 <= len(args) <= 2:
                r = dict_get(cont, args[0])
                dflt = args[1] if len(args) == 2 else NONE
                if r[0] == "hit":
                    return ok(r[1])
                if r[0] == "miss":
                    return ok(dflt, self.put(state, obj, dict_set(cont, args[0], dflt)))
                return ok(TOP, self.put(state, obj, TOP))
            if attr == "pop" and 1 <= len(args) <= 2:
                r = dict_get(cont, args[0])
                if r[0] == "hit":
                    return ok(r[1], self.put(state, obj, dict_del(cont, args[0])))
                if r[0] == "miss":
                    return ok(args[1]) if len(args) == 2 else [("exc", Exc(ORD, "KeyError", node.lineno), state)]
                return ok(TOP, self.put(state, obj, TOP))
            if attr == "clear" and not args:
                return ok(NONE, self.put(state, obj, DictV(())))
            if attr == "popitem":
                return ok(TOP, self.put(state, obj, TOP))
            return ok(TOP)
        f = node.func
        if any(isinstance(a, GenV) for a in args):
            # a consumer of a one-shot iterator sees what is left of it and uses it up
            consumer = (isinstance(f, ast.Name) and f.id in CONSUMERS) or (isinstance(f, ast.Attribute) and f.attr in ("join", "extend", "update", "fromkeys", "writelines"))
            if consumer:
                new_args = []
                for a in args:
                    if isinstance(a, GenV):
                        seq, state = self.consume(a, state)
                        a = TupleV(seq)
                    new_args.append(a)
                r = self.coll_call(node, fval, new_args, kwargs, state)
                if r is not None:
                    return r
                return self.consumed_call(node, fval, new_args, kwargs, state)
        fname = f.id if isinstance(f, ast.Name) else (f.attr if isinstance(f, ast.Attribute) and isinstance(f.value, ast.Name) and f.value.id == "collections" else None)
        if fname == "defaultdict" and len(args) <= 1 and not kwargs:
            fac = node.args[0].id if node.args and isinstance(node.args[0], ast.Name) else None
            if fac in ("list", "dict") or not node.args:
                return [("ok",) + self.alloc(state, node, "ddict:%s" % fac if fac else "dict", DictV(()))]
            return ok(TOP)
        def _itertools(nm):
            return (isinstance(f, ast.Attribute) and f.attr == nm and isinstance(f.value, ast.Name) and f.value.id == "itertools") or (isinstance(f, ast.Name) and f.id == nm)

        if ((isinstance(f, ast.Attribute) and f.attr == "itemgetter" and isinstance(f.value, ast.Name) and f.value.id == "operator") or (isinstance(f, ast.Name) and f.id == "itemgetter")) and args and not kwargs and all(isinstance(a, Const) for a in args):
            return ok(ItemGetter(tuple(a.v for a in args)))
        if isinstance(fval, ItemGetter) and len(args) == 1 and not kwargs:
            r_ = self._apply_key(node, fval, args[0], state)
            return ok(r_[0], r_[1]) if r_ is not None else ok(TOP)
        if _itertools("chain") and not kwargs:
            # itertools.chain(a, b, ...): a one-shot iterator over the elements of the arguments, in order
            out, st = [], state
            for a in args:
                seq, st = self.consume(a, st)
                if seq is None:
                    out = None
                    break
                out += list(seq)
            if out is not None:
                return ok(GenV((node.lineno, node.col_offset), tuple(out)), st)
            return ok(TOP, self.mark_imprecise(state, node))
        if _itertools("islice") and 2 <= len(args) <= 4 and not kwargs:
            nums = [None if a == NONE else (a.n if isinstance(a, LenV) else (a.v if isinstance(a, Const) and isinstance(a.v, int) and not isinstance(a.v, bool) else "?")) for a in args[1:]]
            src = args[0]
            if "?" not in nums and (self._seq(src, state) is not None):
                lo, hi, step = (0, nums[0], 1) if len(nums) == 1 else (nums[0] or 0, nums[1], (nums[2] if len(nums) == 3 and nums[2] is not None else 1))
                if step == 1:
                    rest = self._seq(src, state)
                    stop = len(rest) if hi is None else min(hi, len(rest))
                    taken = tuple(rest[lo:stop]) if lo < stop else ()
                    st = state
                    if isinstance(src, GenV):
                        # the slice takes max(lo, stop) elements from the underlying one-shot iterator (when consumed)
                        pos = st.get(("gen", src.site), 0)
                        st = st.set(("gen", src.site), pos + max(min(lo, len(rest)), stop))
                    return ok(GenV((node.lineno, node.col_offset), taken), st)
            return ok(TOP, self.mark_imprecise(state, node))
        if ((isinstance(f, ast.Attribute) and f.attr == "groupby" and isinstance(f.value, ast.Name) and f.value.id == "itertools") or (isinstance(f, ast.Name) and f.id == "groupby")) and 1 <= len(args) <= 2:
            # itertools.groupby over an exact sequence: runs of *consecutive* elements with equal keys.  Each group is
            # given as a tuple (what a consumer that uses the group before advancing sees)
            seq, st = self.consume(args[0], state)
            keyf = args[1] if len(args) == 2 else kwargs.get("key")
            if seq is not None and hasattr(self, "apply_lambda"):
                keys = []
                for x in seq:
                    if keyf is None or keyf == NONE:
                        keys.append(x)
                        continue
                    rr = self._apply_key(node, keyf, x, st)
                    if rr is None:
                        keys = None
                        break
                    keys.append(rr[0])
                    st = rr[1]
                if keys is not None:
                    groups = []
                    decided = True
                    for k, x in zip(keys, seq):
                        if groups and groups[-1][0] == k and k is not TOP:
                            groups[-1][1].append(x)
                        elif not groups or distinct(groups[-1][0], k):
                            groups.append((k, [x]))
                        else:
                            decided = False
                            break
                    if decided:
                        return ok(GenV((node.lineno, node.col_offset), tuple(TupleV((k, TupleV(tuple(xs)))) for k, xs in groups)), st)
            return ok(TOP, self.mark_imprecise(st, node))
        if isinstance(f, ast.Name) and f.id in ("sorted", "min", "max") and len(args) == 1 and set(kwargs) <= {"reverse", "key"}:
            # concrete elements: the order (or the TypeError of comparing values of different kinds) is Python's own
            seq, st = self.consume(args[0], state)
            keyf = kwargs.get("key")
            rev = kwargs.get("reverse", Const(False))
            if seq is not None and isinstance(rev, Const):
                try:
                    keyed = []
                    for x in seq:
                        kx = x
                        if keyf is not None and keyf != NONE:
                            rr = self._apply_key(node, keyf, x, st)
                            if rr is None:
                                raise NotConcrete(x)
                            kx, st = rr
                        keyed.append((lower_value(deref(kx, st)), x))
                    try:
                        if f.id == "sorted":
                            order = sorted(range(len(keyed)), key=lambda i: keyed[i][0], reverse=bool(rev.v))
                            return [("ok",) + self.alloc(st, node, "list", TupleV(tuple(keyed[i][1] for i in order)))]
                        if not keyed:
                            return [("exc", Exc(ORD, "ValueError", node.lineno), st)]
                        pick = (max if (f.id == "max") != bool(rev.v and False) else min)(range(len(keyed)), key=lambda i: keyed[i][0])
                        return ok(keyed[pick][1], st)
                    except TypeError:
                        return [("exc", Exc(ORD, "TypeError", node.lineno), st)]
                except NotConcrete:
                    pass
            return ok(TOP, self.mark_imprecise(st, node) if seq is not None and len(seq) > 1 else st)
        if isinstance(f, ast.Name) and f.id == "dict" and len(args) <= 1:
            d = None
            if not args:
                d = DictV(())
            else:
                src = args[0]
                sc = content(src, state) if isinstance(src, Ref) else src
                if isinstance(sc, DictV):
                    d = sc
                elif isinstance(sc, TupleV) and all(isinstance(p, TupleV) and len(p.items) == 2 for p in sc.items):
                    d = DictV(())
                    for p in sc.items:
                        d = dict_set(d, p.items[0], p.items[1]) if d is not TOP else TOP
            # dict(a=1, **m): keyword arguments are entries, in order, after the positional source
            for k, v in (kwargs or {}).items():
                if d is None or d is TOP:
                    break
                if k.startswith("**"):
                    mc = content(v, state) if isinstance(v, Ref) else v
                    if not isinstance(mc, DictV):
                        d = None
                        break
                    for kk, vv in mc.items:
                        d = dict_set(d, kk, vv) if d is not TOP else TOP
                else:
                    d = dict_set(d, Const(k), v)
            if d is not None and d is not TOP:
                return [("ok",) + self.alloc(state, node, "dict", d)]
        if isinstance(f, ast.Name) and not kwargs:
            if f.id == "next" and 1 <= len(args) <= 2 and isinstance(args[0], GenV):
                g = args[0]
                pos = state.get(("gen", g.site), 0)
                if pos < len(g.items):
                    return ok(g.items[pos], state.set(("gen", g.site), pos + 1))
                if len(args) == 2:
                    return ok(args[1])
                return [("exc", Exc(ORD, "StopIteration", node.lineno), state)]
            if f.id == "bool" and len(args) == 1:
                t_ = self.truth(args[0], state)
                if t_ is not None:
                    return ok(Const(t_))
            if f.id == "iter" and len(args) == 1:
                seq = self._seq(args[0], state)
                if seq is not None:
                    return ok(GenV((node.lineno, node.col_offset), tuple(seq)))
            if f.id == "len" and len(args) == 1:
                seq = self._seq(args[0], state)
                if seq is not None:
                    return ok(LenV(len(seq)))
            if f.id == "range" and 1 <= len(args) <= 3 and all(isinstance(a, (Const, LenV)) and isinstance(a.v if isinstance(a, Const) else a.n, int) for a in args):
                nums = [a.v if isinstance(a, Const) else a.n for a in args]
                beyond = any(isinstance(a, LenV) for a in args) and any(isinstance(a, Const) and abs(a.v) >= self.scenario_limit for a in args)
                if beyond:
                    for a in args:
                        if isinstance(a, Const) and abs(a.v) >= self.scenario_limit:
                            self._threshold(a.v)
                try:
                    vals = tuple(range(*nums))
                except (ValueError, TypeError):
                    return None
                if len(vals) > MAX_LEN:
                    return ok(TOP)
                # a stride / bound far larger than the collections of the scenario: what happens for a collection
                # that large is not what is being explored
                return ok(TupleV(tuple(Const(x) for x in vals)), self.mark_imprecise(state, node) if beyond else state)
            if f.id == "tuple" and len(args) <= 1:
                if not args:
                    return ok(TupleV(()))
                seq = self._seq(args[0], state)
                if seq is not None:
                    return ok(TupleV(tuple(seq)))
            if f.id == "set" and len(args) <= 1:
                if not args:
                    return [("ok",) + self.alloc(state, node, "set", TupleV(()))]
                seq = self._seq(args[0], state)
                if seq is not None:
                    cur = ()
                    for x in seq:
                        m = member(x, cur)
                        if m is None:
                            cur = None
                            break
                        if m is False:
                            cur = cur + (x,)
                    if cur is not None:
                        return [("ok",) + self.alloc(state, node, "set", TupleV(cur))]
            if f.id == "list" and len(args) <= 1:
                if not args:
                    return [("ok",) + self.alloc(state, node, "list", TupleV(()))]
                seq = self._seq(args[0], state)
                if seq is not None:
                    return [("ok",) + self.alloc(state, node, "list", TupleV(tuple(seq)))]
            if f.id == "zip" and len(args) == 2:
                a, b = self._seq(args[0], state), self._seq(args[1], state)
                if a is not None and b is not None:
                    return ok(TupleV(tuple(TupleV((x, y)) for x, y in zip(a, b))))
            if f.id == "enumerate" and len(args) == 1:
                a = self._seq(args[0], state)
                if a is not None:
                    return ok(TupleV(tuple(TupleV((Const(i), x)) for i, x in enumerate(a))))
            if f.id in ("all", "any") and len(args) == 1:
                a = self._seq(args[0], state)
                if a is not None:
                    ts = [self.truth(x, state) for x in a]
                    if f.id == "all":
                        res = False if any(t is False for t in ts) else (True if all(t is True for t in ts) else None)
                    else:
                        res = True if any(t is True for t in ts) else (False if all(t is False for t in ts) else None)
                    return ok(Const(res) if res is not None else TOP)
            if f.id == "reversed" and len(args) == 1 and self._seq(args[0], state) is not None and not isinstance(args[0], GenV):
                return ok(GenV((node.lineno, node.col_offset), tuple(reversed(self._seq(args[0], state)))))
            if f.id in ("sorted", "reversed", "frozenset") and args and self._seq(args[0], state) is not None:
                return ok(TOP)
        if isinstance(f, ast.Attribute) and f.attr == "fromkeys" and isinstance(f.value, ast.Name) and f.value.id == "dict" and 1 <= len(args) <= 2:
            seq = self._seq(args[0], state)
            if seq is not None:
                d = DictV(())
                for k in seq:
                    d = dict_set(d, k, args[1] if len(args) == 2 else NONE) if d is not TOP else TOP
                return [("ok",) + self.alloc(state, node, "dict", d)]
        return None

    def unpack(self, value, n, node, state):
        seq = self._seq(value, state) if not isinstance(value, GenV) else None
        if seq is not None and not (isinstance(value, Ref) and value.kind != "list"):
            if len(seq) != n:
                return None, True
            return list(seq), False
        return super().unpack(value, n, node, state)

    def unpack_starred(self, value, star_index, n, node, state):
        seq = self._seq(value, state) if not isinstance(value, GenV) else None
        if seq is None or (isinstance(value, Ref) and value.kind != "list"):
            return super().unpack_starred(value, star_index, n, node, state)
        after = n - star_index - 1
        if len(seq) < star_index + after:
            return None, True
        mid = TupleV(tuple(seq[star_index : len(seq) - after]))  # (a list in Python; nobody mutates a `*rest`)
        return list(seq[:star_index]) + [mid] + list(seq[len(seq) - after :] if after else []), False

    # ---- subscripts -----------------------------------------------------------------------
    def subscript_load_s(self, objval, idxval, node, state):
        """-> (value, may_raise, state)"""
        if isinstance(idxval, LenV):
            idxval = Const(idxval.n)
        if isinstance(objval, DictV):
            r = dict_get(objval, idxval)
            return (r[1], False, state) if r[0] == "hit" else ((NOVALUE, "KeyError", state) if r[0] == "miss" else (TOP, True, state))
        if isinstance(objval, Ref) and objval.kind == "set":
            return NOVALUE, "TypeError", state  # a set is not subscriptable
        if isinstance(objval, Ref) and objval.kind != "list":
            cont = content(objval, state)
            if cont is None:
                return TOP, True, state
            r = dict_get(cont, idxval)
            if r[0] == "hit":
                return r[1], False, state
            if r[0] == "miss":
                if objval.kind.startswith("ddict:"):
                    fac = objval.kind.split(":")[1]
                    v, st = self.alloc(state, node, "list" if fac == "list" else "dict", TupleV(()) if fac == "list" else DictV(()))
                    if v is TOP:
                        return TOP, False, self.put(st, objval, TOP)
                    return v, False, self.put(st, objval, dict_set(cont, idxval, v))
                return NOVALUE, "KeyError", state
            return TOP, True, state
        seq = None
        if isinstance(objval, TupleV):
            seq = objval.items
        elif isinstance(objval, Ref):
            c = content(objval, state)
            seq = c.items if c is not None else None
            if seq is None:
                return TOP, True, state
        if seq is not None:
            if isinstance(node.slice, ast.Slice):
                if isinstance(idxval, SliceV):
                    bounds = [None if b == NONE else (b.n if isinstance(b, LenV) else (b.v if isinstance(b, Const) else b)) for b in idxval]
                    if not all(b is None or (isinstance(b, int) and not isinstance(b, bool)) for b in bounds):
                        return TOP, False, state
                    lo, hi, stp = bounds
                else:
                    from .model import fold, NotConst

                    try:
                        lo, hi, stp = [None if b is None else fold(b) for b in (node.slice.lower, node.slice.upper, node.slice.step)]
                    except NotConst:
                        return TOP, False, state
                if all(b is None or (isinstance(b, int) and not isinstance(b, bool)) for b in (lo, hi, stp)) and stp != 0:
                    part = TupleV(tuple(seq[slice(lo, hi, stp)]))
                    if isinstance(objval, Ref):
                        v, st = self.alloc(state, node, "list", part)
                        return v, False, st
                    return part, False, state
                return TOP, False, state
            if isinstance(idxval, Const) and isinstance(idxval.v, int) and not isinstance(idxval.v, bool):
                if -len(seq) <= idxval.v < len(seq):
                    return seq[idxval.v], False, state
                return NOVALUE, "IndexError", state
            return TOP, True, state
        v, may = self.subscript_load(objval, idxval, node, state)
        return v, may, state

    def subscript_store(self, objval, idxval, value, node, state):
        if isinstance(idxval, LenV):
            idxval = Const(idxval.n)
        if isinstance(objval, Ref):
            cont = content(objval, state)
            if cont is None:
                return state
            if objval.kind == "list":
                if value is not None and isinstance(idxval, Const) and isinstance(idxval.v, int) and -len(cont.items) <= idxval.v < len(cont.items):
                    lst = list(cont.items)
                    lst[idxval.v] = value
                    return self.put(state, objval, TupleV(tuple(lst)))
                if value is None and not isinstance(node.slice, ast.Slice) and isinstance(idxval, Const) and isinstance(idxval.v, int) and -len(cont.items) <= idxval.v < len(cont.items):
                    lst = list(cont.items)  # del lst[i]
                    del lst[idxval.v]
                    return self.put(state, objval, TupleV(tuple(lst)))
                return self.put(state, objval, TOP)
            if objval.kind == "set":
                return state
            if value is None:  # del d[k]
                return self.put(state, objval, dict_del(cont, idxval))
            return self.put(state, objval, dict_set(cont, idxval, value))
        return super().subscript_store(objval, idxval, value, node, state)

    # ---- iteration -------------------------------------------------------------------------------
    def _seq(self, itval, state=None):
        if isinstance(itval, TupleV):
            return itval.items
        if isinstance(itval, Ref):
            c = content(itval, state) if state is not None else None
            if c is None:
                return None
            if isinstance(c, DictV) and any(isinstance(v, MaybeV) for k, v in c.items):
                return None
            return c.items if isinstance(c, TupleV) else tuple(k for k, v in c.items)
        if isinstance(itval, DictV):
            if any(isinstance(v, MaybeV) for k, v in itval.items):
                return None
            return tuple(k for k, v in itval.items)
        if isinstance(itval, Const) and isinstance(itval.v, (tuple, list)):
            return tuple(Const(x) for x in itval.v)
        if isinstance(itval, GenV):
            # ("gen", site) = how many elements have been taken from this one-shot iterator so far
            pos = state.get(("gen", itval.site), 0) if state is not None else 0
            return itval.items[pos:]
        return None

    def consume(self, v, state):
        """The elements a consumer of `v` sees, and the state afterwards (a one-shot iterator is used up)."""
        seq = self._seq(v, state)
        if isinstance(v, GenV):
            state = state.set(("gen", v.site), len(v.items))
        return seq, state

    def for_next(self, node, itval, state):
        key = ("iter", node.lineno, getattr(node, "col_offset", 0))
        if isinstance(itval, GenV) and not isinstance(node, ast.comprehension):
            # a `for` over a one-shot iterator takes its elements one by one from where it stands
            pos = state.get(("gen", itval.site), 0)
            if pos >= len(itval.items):
                return []
            return [(itval.items[pos], state.set(("gen", itval.site), pos + 1))]
        midway = False
        seq = self._seq(itval, state)
        if seq is None:
            # an iterable whose elements are not known: whatever is counted or collected in this loop is a guess.  The
            # state is marked imprecise (verdicts on such paths are 'undecided'), so two iterations are explored and
            # no more: nothing further could be learnt, and objects allocated per iteration would never converge
            ukey = ("uiter", node.lineno, getattr(node, "col_offset", 0))
            n = state.get(ukey, 0)
            if n >= 2 and not isinstance(node, ast.comprehension):
                return []
            res = super().for_next(node, itval, state)
            return [(v, self.mark_imprecise(s.set(ukey, n + 1) if not isinstance(node, ast.comprehension) else s, node)) for v, s in res]
        if isinstance(node, ast.comprehension):
            st = state.set(("gen", itval.site), len(itval.items)) if isinstance(itval, GenV) else state
            return [(v, st) for v in seq]
        i = state.get(key, 0)
        if i >= len(seq):
            return []
        return [(seq[i], state.set(key, i + 1))]

    def for_exhausted(self, node, itval, state):
        key = ("iter", node.lineno, getattr(node, "col_offset", 0))
        if isinstance(itval, GenV):
            return state if state.get(("gen", itval.site), 0) >= len(itval.items) else None
        seq = self._seq(itval, state)
        if seq is None:
            res = super().for_exhausted(node, itval, state)
            return self.mark_imprecise(res, node) if res is not None else None
        if state.get(key, 0) < len(seq):
            return None
        return state.drop(key) if state.has(key) else state

    def comprehension_s(self, node, elem_values, state):
        if not self.comp_exact:
            return TOP, state
        for g in node.generators:
            iv = getattr(g, "_itval", None)
            if iv is None or (self._seq(iv, state) is None and not isinstance(iv, GenV)):
                return TOP, state
        if isinstance(node, ast.DictComp):
            d = DictV(())
            for ev_ in elem_values:
                maybe = isinstance(ev_, MaybeV)
                k, v = ev_.v if maybe else ev_
                if maybe and d is not TOP and dict_get(d, k)[0] != "miss":
                    d = TOP  # (an optional entry that would overwrite another one: not representable)
                d = dict_set(d, k, MaybeV(v, ev_.why) if maybe else v) if d is not TOP else TOP
            return self.alloc(state, node, "dict", d)
        if any(isinstance(ev_, MaybeV) for ev_ in elem_values):
            return TOP, self.mark_imprecise(state, node)  # a sequence with optional elements is not an exact sequence
        if isinstance(node, ast.ListComp):
            return self.alloc(state, node, "list", TupleV(tuple(v[0] for v in elem_values)))
        if isinstance(node, ast.GeneratorExp):
            return GenV((node.lineno, node.col_offset), tuple(v[0] for v in elem_values)), state
        return TOP, state


# ---- constant folding of pure str / bytes methods ----------------------------------------------------------------
PURE_METHODS = ("split", "rsplit", "splitlines", "decode", "encode", "strip", "lstrip", "rstrip", "startswith", "endswith", "partition", "rpartition", "find", "rfind", "isdigit", "lower", "upper", "join", "replace", "format", "count", "index", "title", "zfill")


class NotConcrete(Exception):
    pass


def lower_value(v):
    """Abstract value -> Python value, when it denotes exactly one."""
    if isinstance(v, Const):
        return v.v
    if isinstance(v, TupleV):
        return tuple(lower_value(x) for x in v.items)
    raise NotConcrete(v)


def lift_value(x):
    """Python value -> abstract value (lists and tuples become TupleV)."""
    if isinstance(x, (list, tuple)):
        return TupleV(tuple(lift_value(y) for y in x))
    if isinstance(x, dict):
        return DictV(tuple((lift_value(k), lift_value(v)) for k, v in x.items()))
    return Const(x)


def fold_method(recv, attr, args, kwargs, lineno):
    """recv.attr(*args, **kwargs) on constants: -> [('ok', value)] / [('exc', Exc)] or None when not foldable."""
    if attr not in PURE_METHODS or not isinstance(recv, Const) or not isinstance(recv.v, (str, bytes)):
        return None
    try:
        a = [lower_value(x) for x in args]
        kw = {k: lower_value(x) for k, x in kwargs.items()}
    except NotConcrete:
        return None
    a = [list(x) if isinstance(x, tuple) and attr == "join" else x for x in a]
    try:
        return [("ok", lift_value(getattr(recv.v, attr)(*a, **kw)))]
    except Exception as e:
        return [("exc", Exc(ORD, type(e).__name__, lineno))]


# =====================================================================================================================
# Module-level constants that are built by statements rather than written as one literal
# =====================================================================================================================
def module_constants(prog, mod):
    """{name: Python value} for the module-level names whose final value the exact collections can compute from the
    module's own top-level assignments (a dict comprehension over a tuple of names, `dict([...])`, a table completed
    by `TABLE[k] = v` or `.update(...)`, `frozenset({...})`): the module body's simple statements interpreted in
    order.  Names whose value is not fully concrete are left out (the caller treats them as lost)."""
    memo = getattr(mod, "_module_constants", None)
    if memo is not None:
        return memo
    from .paths import Interp, Domain, Env

    class _ModuleDomain(ExactCollections, Domain):
        async_enabled = False
        subscript_may_raise = False
        unpack_may_raise = False

        def name_load(self, name, state, node=None):
            return state.get(name) if state.has(name) else TOP

        def attr_load(self, objval, node, state):
            b = self.coll_attr(objval, node)
            return b if b is not None else TOP

        def make_set(self, items, node, state):
            if all(isinstance(x, Const) for x in items):
                return Const(frozenset(x.v for x in items))  # a display of constants: an immutable set value
            return TOP

        def call(self, node, fval, args, kwargs, state):
            if isinstance(node.func, ast.Name) and node.func.id in ("frozenset", "set") and len(args) == 1 and not kwargs:
                a = args[0]
                if isinstance(a, Const) and isinstance(a.v, frozenset):
                    return [("ok", a, state)]
                seq = self._seq(a, state)
                if seq is not None and all(isinstance(x, Const) for x in seq):
                    return [("ok", Const(frozenset(x.v for x in seq)), state)]
            r = self.coll_call(node, fval, args, kwargs, state)
            return r if r is not None else [("ok", TOP, state)]

    from .model import AnalysisError

    stmts = [st for st in mod.tree.body if isinstance(st, (ast.Assign, ast.AugAssign)) or (isinstance(st, ast.AnnAssign) and st.value is not None) or (isinstance(st, ast.Expr) and isinstance(st.value, ast.Call) and isinstance(st.value.func, ast.Attribute) and isinstance(st.value.func.value, ast.Name))]
    fn = ast.FunctionDef(name="<module>", args=ast.arguments(posonlyargs=[], args=[], vararg=None, kwonlyargs=[], kw_defaults=[], kwarg=None, defaults=[]), body=stmts, decorator_list=[], returns=None, lineno=1, col_offset=0)

    class _F:
        node = fn
        module = mod
        cls = None
        name = qualname = "<module %s>" % getattr(mod, "rel", "?")
        params = ()

    out = {}
    try:
        dom = _ModuleDomain(prog, _F())
        rets = Interp(dom, fn, prog).run(Env()).of("ret") if stmts else []
    except AnalysisError:
        rets = []
    if len(rets) == 1:
        s = rets[0][0]
        for k in list(s.d):
            if isinstance(k, str) and not k.startswith("#") and "." not in k:
                try:
                    out[k] = _to_python(s.get(k), s)
                except NotConcrete:
                    pass
    mod._module_constants = out
    return out


def _to_python(v, state, depth=0):
    if depth > 6:
        raise NotConcrete(v)
    if isinstance(v, Ref):
        c = content(v, state)
        if c is None:
            raise NotConcrete(v)
        kind = v.kind
        if kind == "set":
            return frozenset(_to_python(x, state, depth + 1) for x in (c.items if isinstance(c, TupleV) else ()))
        if kind in ("dict",) or kind.startswith("ddict"):
            if not isinstance(c, DictV):
                raise NotConcrete(v)
            return {_to_python(k, state, depth + 1): _to_python(x, state, depth + 1) for k, x in c.items}
        if kind == "list" and isinstance(c, TupleV):
            return [_to_python(x, state, depth + 1) for x in c.items]
        raise NotConcrete(v)
    if isinstance(v, Const):
        return v.v
    if isinstance(v, TupleV):
        return tuple(_to_python(x, state, depth + 1) for x in v.items)
    if isinstance(v, DictV):
        return {_to_python(k, state, depth + 1): _to_python(x, state, depth + 1) for k, x in v.items}
    raise NotConcrete(v)
