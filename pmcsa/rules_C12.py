"""C12 - HashClient single-key and multi-key operations agree on where a key lives (decided structurally)."""
import ast
import re
from collections import namedtuple

from .model import AnalysisError, node_src, is_self_attr, call_name
from .paths import Interp, Domain, Env, TOP, NONE, Const, TupleV, Exc, ORD, fmt_trace, Opaque, Ctx, Neq, FuncRef
from .report import walk_no_nested
from . import wire
from .colls import ExactCollections, DictV, deref, Ref, content

LEVEL = "other"
LEVEL_TEXT = (
    "Routing structure of HashClient decided by def-use and path rules: a single routing function whose result is the "
    "hasher's answer for the raw server key on every path; every key-addressed operation reaches a client only through "
    "it and sends the inner key; in the batching code each key of the input is inserted exactly once into the batch of "
    "the server its own routing call returned (skipped only when no server is left), batches are dispatched once to the "
    "client registered under that server's name, and the partial results are merged. Equality of merged values with "
    "per-key gets is a runtime statement that follows from these rules plus C16."
)
TRUSTED = ["CPython ast", "pmcsa/paths.py", "clients[_make_client_key(s)].server == s (checked in add_server, its only writer)"]

Sym = namedtuple("Sym", "name")
ClientOf = namedtuple("ClientOf", "key")
InnerOf = namedtuple("InnerOf", "key")
ServerOf = namedtuple("ServerOf", "key")
Batch = namedtuple("Batch", "server")
NodeOf = namedtuple("NodeOf", "arg")


class RouteDomain(Domain):
    """_get_client: which value is routed, which is returned."""

    async_enabled = False
    unpack_may_raise = False
    subscript_may_raise = False

    def __init__(self, prog, fn, is_pair, dead):
        super().__init__(prog, fn)
        self.is_pair = is_pair
        self.dead = dead
        self.routed = []
        self.lookups = []

    def attr_load(self, objval, node, state):
        if is_self_attr(node, "_dead_clients"):
            return Const(self.dead)
        if is_self_attr(node):
            return state.get("self." + node.attr, Opaque("self." + node.attr))
        return TOP

    def truth(self, v, state=None):
        if isinstance(v, Opaque) and v.tag == "self.ignore_exc":
            return None
        if isinstance(v, (Sym, NodeOf)):
            return None
        return super().truth(v, state)

    def never_none(self, v):
        if isinstance(v, (Sym, NodeOf)):
            return False
        return super().never_none(v)

    def call(self, node, fval, args, kwargs, state):
        name = call_name(node)
        if name == "isinstance" and len(args) == 2 and args[0] == Sym("key"):
            # the key of the scenario is a 2-tuple (pair) or, for a plain key, a str / bytes of whatever length - two
            # characters included: what the test says depends on the class(es) it names
            names = {x.split(".")[-1] for x in re.findall(r"[A-Za-z_][A-Za-z_0-9.]*", node_src(node.args[1]))}
            general = {"Sequence", "Iterable", "Collection", "Sized", "Container", "Reversible", "object"}
            if self.is_pair:
                return [("ok", Const(bool(names & ({"tuple"} | general))), state)]
            return [("ok", Const(bool(names & ({"str", "bytes"} | general))), state)]
        if name == "len" and args and args[0] == Sym("key"):
            return [("ok", Const(2) if (self.is_pair or getattr(self, "two_chars", False)) else TOP, state)]
        if name == "self.hasher.get_node":
            self.routed.append((node, args[0] if args else TOP, state))
            return [("ok", NodeOf(args[0] if args else TOP), state)]
        if name == "check_key_helper":
            st = state.set("#validated", state.get("#validated", ()) + ((args[0] if args else TOP),))
            return [("ok", Opaque("validated-key"), st), ("exc", Exc(ORD, "MemcacheIllegalInputError", node.lineno), state)]
        if name == "self._retry_dead":
            return [("ok", NONE, state)]
        if name.startswith("self._") and name.count(".") == 1 and self.prog is not None:
            # a private helper of the router (e.g. an extracted pair splitter): interpreted in line
            m = self.prog.method("HashClient", name[5:], required=False)
            if m is not None and m is not self.fn:
                res = self.inline(node, m, args, kwargs, state)
                if res is not None:
                    return res
        return [("ok", TOP, state)]

    def unpack(self, value, n, node, state):
        if value == Sym("key") and n == 2 and self.is_pair:
            return [Sym("server_key_of_pair"), Sym("inner_of_pair")], False
        if value == Sym("key") and n == 2 and getattr(self, "two_chars", False):
            return [Sym("first character of the key"), Sym("second character of the key")], False
        return super().unpack(value, n, node, state)

    def subscript_load(self, objval, idxval, node, state):
        if objval == Opaque("self.clients"):
            self.lookups.append((node, idxval))
            return ("client-for", idxval), False
        return TOP, False

    def compare(self, node, op, l, r, state):
        for a, b in ((l, r), (r, l)):
            if isinstance(a, NodeOf) and b == NONE:
                return TOP
        return super().compare(node, op, l, r, state)

    def refine_compare(self, node, op, lexpr, l, rexpr, r, branch, state):
        return state


class BatchDomain(Domain):
    """Builder loops of set_many / get_many."""

    async_enabled = False
    unpack_may_raise = False
    subscript_may_raise = False

    def __init__(self, prog, fn, batch_var, items_mode):
        super().__init__(prog, fn)
        self.batch_var = batch_var
        self.items_mode = items_mode
        self.problems = []
        self.route_calls = []

    def name_load(self, name, state, node=None):
        if name == self.batch_var:
            return Opaque("batches")
        return state.get(name, TOP)

    def never_none(self, v):
        if isinstance(v, ClientOf):
            return True
        return super().never_none(v)

    def truth(self, v, state=None):
        if isinstance(v, ClientOf):
            return True
        return super().truth(v, state)

    def attr_load(self, objval, node, state):
        if isinstance(objval, ClientOf) and node.attr == "server":
            return ServerOf(objval.key)
        if isinstance(objval, ClientOf):
            return ("attr", objval, node.attr)
        if isinstance(objval, Batch):
            return ("batch-method", objval, node.attr)
        return TOP

    def call(self, node, fval, args, kwargs, state):
        name = call_name(node)
        if name == "self._get_client":
            self.route_calls.append((node, args, kwargs))
            a = args[0] if args else TOP
            return [("ok", TupleV((ClientOf(a), InnerOf(a))), state), ("ok", TupleV((NONE, InnerOf(a))), state)]
        if isinstance(fval, tuple) and fval and fval[0] == "batch-method":
            _, b, meth = fval
            if meth in ("append", "add"):
                return [("ok", NONE, self._insert(state, b.server, args[0] if args else TOP, None, node))]
            if meth in ("extend", "update", "insert", "setdefault"):
                self.problems.append(("batch-op:%s" % meth, "batch is filled with .%s(): cannot show one insertion per key" % meth, node))
            return [("ok", TOP, state)]
        if name == "id" and args and isinstance(args[0], ClientOf):
            return [("ok", ("id-of", args[0]), state)]
        return [("ok", TOP, state)]

    def _insert(self, state, server, key, value, node):
        ins = state.get("#ins", ())
        return state.set("#ins", ins + ((server, key, value, node.lineno),))

    def subscript_load(self, objval, idxval, node, state):
        if objval == Opaque("batches"):
            return Batch(idxval), False
        return TOP, False

    def subscript_store(self, objval, idxval, value, node, state):
        if isinstance(objval, Batch):
            return self._insert(state, objval.server, idxval, value, node)
        if objval == Opaque("batches"):
            self.problems.append(("batch-rebound", "a whole batch is re-bound (`%s`): earlier keys of that server are dropped" % node_src(node), node))
        return state



BoundCall = namedtuple("BoundCall", "obj attr")
StarArgs = namedtuple("StarArgs", "name")
ArgList = namedtuple("ArgList", "items star")
ResultOf = namedtuple("ResultOf", "n")
Truthiness = namedtuple("Truthiness", "b")


class DispatchDomain(Domain):
    """_run_cmd and the dispatch loops: which client, which bound method and which payload reach the safe runner,
    and where its result goes.  Argument lists built with list(args) + insert(0, x) or passed as `x, *args` are the same."""

    async_enabled = False
    unpack_may_raise = False
    subscript_may_raise = False
    global_keys = ("#runs", "#merges")

    def truth(self, v, state=None):
        if isinstance(v, Truthiness):
            return v.b
        if isinstance(v, (ClientOf, BoundCall, ResultOf)) or (isinstance(v, tuple) and v and v[0] == "client-of-key"):
            return True if not isinstance(v, ResultOf) else None
        return super().truth(v, state)

    def never_none(self, v):
        return isinstance(v, (ClientOf, BoundCall)) or (isinstance(v, tuple) and v and v[0] == "client-of-key") or super().never_none(v)

    def attr_load(self, objval, node, state):
        if is_self_attr(node, "clients"):
            return Opaque("self.clients")
        if is_self_attr(node):
            return Opaque("self." + node.attr)
        if isinstance(objval, ClientOf) or (isinstance(objval, tuple) and objval and objval[0] == "client-of-key"):
            if node.attr == "server":
                return ServerOf(objval)
            return BoundCall(objval, Const(node.attr))
        return TOP

    def subscript_load(self, objval, idxval, node, state):
        if objval == Opaque("self.clients"):
            return ("client-of-key", idxval), False
        if isinstance(objval, Sym) and isinstance(node.slice, ast.Slice):
            return ("slice-of", objval), False
        return TOP, False

    def name_store(self, name, value, state, node=None):
        if isinstance(value, tuple) and value and value[0] == "acc+":
            state = state.set("#merges", state.get("#merges", ()) + ((name, value[2]),))
            value = ("acc", name)
        return state.set(name, value)

    def binop(self, node, l, r, state):
        if isinstance(node.op, ast.Add) and isinstance(r, ResultOf):
            return ("acc+", l, r)
        return TOP

    def for_next(self, node, itval, state):
        # an inner loop (slices of a batch) is unrolled twice: enough to tell "merged per slice" from "merged once"
        k = ("visited", getattr(node, "lineno", 0))
        n = state.get(k, 0)
        if n >= 2:
            return []
        return [(TOP, state.set(k, n + 1))]

    def for_exhausted(self, node, itval, state):
        return state if state.get(("visited", getattr(node, "lineno", 0)), 0) >= 2 else None

    def call(self, node, fval, args, kwargs, state):
        name = call_name(node)
        if name == "self._get_client":
            a = args[0] if args else TOP
            return [("ok", TupleV((ClientOf(a), InnerOf(a))), state), ("ok", TupleV((NONE, InnerOf(a))), state)]
        if name == "self._make_client_key":
            return [("ok", ("node-name-of", args[0] if args else TOP), state)]
        if name == "getattr" and len(args) >= 2:
            return [("ok", BoundCall(args[0], args[1]), state)]
        if name == "list" and args and isinstance(args[0], StarArgs):
            return [("ok", ArgList((), args[0]), state)]
        if isinstance(node.func, ast.Attribute) and node.func.attr == "insert" and isinstance(node.func.value, ast.Name) and isinstance(state.get(node.func.value.id, None), ArgList) and len(args) == 2 and args[0] == Const(0):
            cur = state.get(node.func.value.id)
            return [("ok", NONE, state.set(node.func.value.id, ArgList((args[1],) + cur.items, cur.star)))]
        if name in ("self._safely_run_func", "self._safely_run_set_many"):
            flat = []
            for an, av in zip(node.args, args):
                if isinstance(an, ast.Starred):
                    if isinstance(av, ArgList):
                        flat += list(av.items) + ([("STAR", av.star.name)] if av.star is not None else [])
                    elif isinstance(av, StarArgs):
                        flat.append(("STAR", av.name))
                    else:
                        flat.append(("STAR?", av if _h(av) else "?"))
                else:
                    flat.append(av if _h(av) else TOP)
            runs = state.get("#runs", ())
            st = state.set("#runs", runs + ((name, tuple(flat)),))
            return [("ok", ResultOf(len(runs) + 1), st)]
        if isinstance(node.func, ast.Attribute) and node.func.attr == "update" and isinstance(node.func.value, ast.Name) and args:
            return [("ok", NONE, state.set("#merges", state.get("#merges", ()) + ((node.func.value.id, args[0]),)))]
        return [("ok", TOP, state)]


def _h(v):
    try:
        hash(v)
        return True
    except TypeError:
        return False


def run_cmd_problems(prog):
    """Semantic check of HashClient._run_cmd: -> list of problem strings."""
    hc = prog.cls("HashClient")
    rc = prog.method(hc, "_run_cmd")
    pp = rc.pos_params()
    if len(pp) < 3 or not rc.has_varargs():
        return ["_run_cmd no longer has the shape (cmd, key, default_val, *args, **kwargs)"]
    cmd, key, dv = pp[0].name, pp[1].name, pp[2].name
    va = [p.name for p in rc.params if p.kind == "vararg"][0]
    dom = DispatchDomain(prog, rc)
    outs = Interp(dom, rc.node, prog).run(Env({cmd: Sym("cmd"), key: Sym("key"), dv: Sym("default"), va: StarArgs(va)}))
    problems = []
    routed = 0
    for s_, v, t in outs.of("ret"):
        runs = s_.get("#runs", ())
        if not runs:
            if v != Sym("default"):
                problems.append("without a routed client it returns %s instead of default_val" % _d(v))
            continue
        routed += 1
        if len(runs) != 1:
            problems.append("%d calls of the safe runner on one path" % len(runs))
            continue
        nm, flat = runs[0]
        want = (ClientOf(Sym("key")), BoundCall(ClientOf(Sym("key")), Sym("cmd")), Sym("default"), InnerOf(Sym("key")), ("STAR", va))
        if nm != "self._safely_run_func" or flat != want:
            problems.append("the safe runner is called with (%s) instead of (client routed for the key, that client's method looked up by the command name, default_val, the inner key returned by the router, *args)" % ", ".join(_d(x) for x in flat))
        if not isinstance(v, ResultOf):
            problems.append("the runner's result is not returned as is")
    if outs.of("exc"):
        problems.append("raises %s" % [e.cls for s_, e, t in outs.of("exc")])
    if not routed:
        problems.append("no path hands the call to the safe runner")
    return problems


SERVER_SPECS = {"A": TupleV((Const("10.0.0.1"), Const(11211))), "B": Const("/var/run/memcached-b.sock"), "C": TupleV((Const("10.0.0.3"), Const(11211)))}


class HashDomain(ExactCollections, Domain):
    """HashClient's multi-key operations interpreted end to end: symbolic keys K1..Kn, a scripted router
    (key -> server name or None), scripted per-server answers.  Lists / dicts / defaultdicts are heap objects
    (pmcsa/colls.py), private helpers are inlined except the router and the safe runners, which are summarised and
    recorded.  Observed: the runner calls (which client, which bound method, which default, which payload) and the value
    returned to the caller."""

    async_enabled = False
    subscript_may_raise = False
    unpack_may_raise = False
    max_inline_depth = 3
    global_keys = ("#runs", "#routes", "#imprecise")
    SUMMARISED = ("_get_client", "_safely_run_func", "_safely_run_set_many", "_make_client_key", "_retry_dead", "_mark_failed_server")

    def __init__(self, prog, fn, route, fails=(), inner=None):
        super().__init__(prog, fn)
        self.route = route  # key tag -> server name | None
        self.fails = set(fails)  # inner keys the server refuses (set_many)
        self.inner = inner or {}  # key tag -> tag of its inner key (two (server_key, key) pairs may share one)

    def mark_imprecise(self, state, node):
        return state.set("#imprecise", 1)

    def name_load(self, name, state, node=None):
        if not state.has(name) and name in ("list", "dict", "set", "tuple"):
            return Opaque("builtin:" + name)  # a container type passed around as a factory
        if not state.has(name) and self.fn is not None and name in self.fn.module.functions:
            return FuncRef(name)  # a module-level function passed around as a callback
        if not state.has(name) and self.fn is not None and name in self.fn.module.assigns:
            # a module-level constant (e.g. a table of command names)
            from .model import fold, NotConst
            from .colls import lift_value

            try:
                return lift_value(self.fn.module.const(name))
            except NotConst:
                return TOP
        return state.get(name, TOP)

    def attr_load(self, objval, node, state):
        b = self.coll_attr(objval, node)
        if b is not None:
            return b
        if isinstance(objval, Opaque) and objval.tag.startswith("builtin:"):
            return Opaque("%s.%s" % (objval.tag[8:], node.attr))  # e.g. dict.__setitem__ as a callback
        if is_self_attr(node, "clients"):
            return Opaque("clients")
        if is_self_attr(node):
            if not state.has("self." + node.attr) and self.prog is not None:
                # a constant defined in the class body (a batch limit, a flag), unless __init__ rebinds it
                cls = self.prog.cls("HashClient")
                ca = cls.attrs.get(node.attr)
                init = cls.methods.get("__init__")
                rebound = init is not None and any(is_self_attr(t, node.attr) and isinstance(t.ctx, ast.Store) for t in ast.walk(init.node) if isinstance(t, ast.Attribute))
                if ca is not None and not rebound:
                    from .model import fold, NotConst
                    from .colls import lift_value

                    try:
                        return lift_value(fold(ca, cls.module))
                    except NotConst:
                        pass
            return state.get("self." + node.attr, TOP)
        if isinstance(objval, Opaque) and objval.tag.startswith("client:"):
            if node.attr == "server":
                # the servers of the scenario are of both kinds a HashClient can be given - (host, port) pairs and a
                # UNIX socket path - so that code which orders or compares server specs meets the mixed case
                return SERVER_SPECS.get(objval.tag[7:], Opaque("server:" + objval.tag[7:]))
            return BoundCall(objval, Const(node.attr))
        return TOP

    def subscript_load(self, objval, idxval, node, state):
        if objval == Opaque("clients") and isinstance(idxval, Opaque) and idxval.tag.startswith("node:"):
            return Opaque("client:" + idxval.tag[5:]), False
        return TOP, False

    def _flat(self, node, args, state, skip=0):
        out = []
        for an, av in list(zip(node.args, args))[skip:]:
            if isinstance(an, ast.Starred):
                seq = self._seq(av, state)
                if seq is None:
                    out.append(("STAR?", str(av)))
                else:
                    out += [deref(x, state) for x in seq]
            else:
                out.append(deref(av, state))
        return tuple(out)

    def call(self, node, fval, args, kwargs, state):
        # callbacks and factories that travel as values
        if isinstance(fval, Opaque) and fval.tag in ("builtin:list", "builtin:dict") and not args:
            return [("ok",) + self.alloc(state, node, fval.tag[8:], TupleV(()) if fval.tag.endswith("list") else DictV(()))]
        if fval == Opaque("dict.__setitem__") and len(args) == 3:
            return [("ok", NONE, self.subscript_store(args[0], args[1], args[2], node, state))]
        if fval == Opaque("list.append") and len(args) == 2 and isinstance(args[0], Ref):
            c_ = content(args[0], state)
            return [("ok", NONE, self.put(state, args[0], TupleV(c_.items + (args[1],)) if c_ is not None else TOP))]
        if isinstance(fval, FuncRef) and self.fn is not None and fval.name in self.fn.module.functions and not (isinstance(node.func, ast.Name) and node.func.id == fval.name and False):
            res = self.inline(node, self.fn.module.functions[fval.name], args, kwargs, state)
            if res is not None:
                return res
        if call_name(node) in ("collections.defaultdict", "defaultdict") and len(args) == 1 and isinstance(args[0], Opaque) and args[0].tag in ("builtin:list", "builtin:dict"):
            # defaultdict(<factory held in a variable>)
            return [("ok",) + self.alloc(state, node, "ddict:%s" % args[0].tag[8:], DictV(()))]
        r = self.coll_call(node, fval, args, kwargs, state)
        if r is not None:
            return r
        name = call_name(node)
        if name == "self._get_client":
            k = args[0] if args else TOP
            tag = k.tag if isinstance(k, Opaque) else None
            st = state.set("#routes", state.get("#routes", ()) + (deref(k, state),))
            if tag not in self.route:
                return [("ok", TupleV((TOP, TOP)), self.mark_imprecise(st, node))]
            srv = self.route[tag]
            return [("ok", TupleV((Opaque("client:" + srv) if srv is not None else NONE, Opaque("inner:" + self.inner.get(tag, tag)))), st)]
        if name == "self._make_client_key" and args and isinstance(args[0], Opaque) and args[0].tag.startswith("server:"):
            return [("ok", Opaque("node:" + args[0].tag[7:]), state)]
        if name == "self._make_client_key" and args and args[0] in SERVER_SPECS.values():
            return [("ok", Opaque("node:" + [k for k, v in SERVER_SPECS.items() if v == args[0]][0]), state)]
        if name == "getattr" and len(args) == 2 and isinstance(args[0], Opaque) and args[0].tag.startswith("client:"):
            return [("ok", BoundCall(args[0], args[1]), state)]
        if name in ("self._safely_run_func", "self._safely_run_set_many"):
            flat = self._flat(node, args, state)
            kw = tuple(sorted((k, deref(v, state)) for k, v in kwargs.items() if not k.startswith("**")))
            st = state.set("#runs", state.get("#runs", ()) + ((name[5:], flat, kw),))
            client = flat[0] if flat else TOP
            srv = client.tag[7:] if isinstance(client, Opaque) and client.tag.startswith("client:") else "?"
            if name.endswith("set_many"):
                batch = flat[1] if len(flat) > 1 else TOP
                failed = tuple(k for k, v in batch.items if isinstance(k, Opaque) and k.tag in self.fails) if isinstance(batch, DictV) else None
                if failed is None:
                    return [("ok", TOP, self.mark_imprecise(st, node))]
                return [("ok",) + self.alloc(st, node, "list", TupleV(failed))]
            func = flat[1] if len(flat) > 1 else TOP
            if isinstance(func, BoundCall) and func.attr in (Const("get_many"), Const("gets_many")):
                payload = flat[3] if len(flat) > 3 else TOP
                if isinstance(payload, TupleV):
                    ans = DictV(tuple((k, Opaque("value:%s:%s" % (srv, k.tag if isinstance(k, Opaque) else k))) for k in payload.items))
                    return [("ok",) + self.alloc(st, node, "dict", ans)]
                return [("ok", TOP, self.mark_imprecise(st, node))]
            return [("ok", Opaque("answer:%s" % srv), st)]
        if name.startswith("self.") and name.count(".") == 1 and name[5:] not in self.SUMMARISED and self.prog is not None:
            m = self.prog.cls("HashClient").methods.get(name[5:])
            if m is not None:
                res = self.inline(node, m, args, kwargs, state)
                if res is not None:
                    return res
        return [("ok", TOP, state)]


def batching_rows(prog, hc, r3, r4, tier="quick"):
    """C12.R3 (batching and dispatch) and R4 (merge), decided on what get_many / gets_many / set_many / delete_many do
    with three symbolic keys under every routing pattern over two servers (and 'no server left').

    A comparison of a batch size with a constant far above three (a chunk size, a fast-path threshold) is not decided
    from three keys: such a path is imprecise.  The constants met are remembered, and the row is then decided on both
    sides of them - the same scenario with the comparison taken at face value (three is below the threshold) plus a
    scenario with threshold + 1 keys on one server - provided that fits the exact collections (<= 30 keys)."""
    from .colls import GenV, new_object
    from .rules_C05 import Val, has_top

    ALL = [Opaque("K1"), Opaque("K2"), Opaque("K3")]
    routes = [
        {"K1": "A", "K2": "B", "K3": "A"},
        {"K1": "B", "K2": "B", "K3": "A"},
        {"K1": "A", "K2": "A", "K3": "A"},
        {"K1": "A", "K2": None, "K3": "A"},
        {"K1": None, "K2": None, "K3": None},
        {"K1": "A"},  # a single key (a special-cased one-key path must behave like the general one)
        {"K1": None},
    ]
    if tier == "thorough":
        routes += [
            {"K1": "A", "K2": "B", "K3": "C"},
            {"K1": "C", "K2": "A", "K3": "B"},
            {"K1": None, "K2": "B", "K3": "B"},
            {"K1": "A", "K2": "B", "K3": None},
            {"K1": "A", "K2": "B"},
        ]

    def run(mname, K, route, lift, oneshot=False, fails=(), gets=None, extra=()):
        f = prog.method(hc, mname)
        dom = HashDomain(prog, f, route, fails)
        if lift:
            dom.scenario_limit = 10 ** 9
        env = {}
        for p in f.params:
            if p.name == "self":
                continue
            if p.name == "keys":
                env["keys"] = GenV(("caller", "keys"), tuple(K)) if oneshot else TupleV(tuple(K))
            elif p.name == "values":
                new_object(env, "values", "dict", DictV(tuple((k, Opaque("val:" + k.tag)) for k in K)))
            elif p.kind == "vararg":
                env[p.name] = TupleV(tuple(extra))
            elif p.kind == "kwarg":
                new_object(env, p.name, "dict", DictV(()))
            elif p.name == "gets":
                env[p.name] = Const(bool(gets))
            else:
                env[p.name] = Val("arg:" + p.name)
        return f, Interp(dom, f.node, prog).run(Env(env)), dom

    def judge(outs, want_runs, want_value):
        """-> ('ok' | 'fail' | 'vague', problems)"""
        rets, excs = outs.of("ret"), outs.of("exc")
        problems, vague = [], False
        if excs or not rets:
            problems.append("it raises %s" % sorted({str(e.cls) for s, e, t in excs}) if excs else "it does not return")
        for s, v, t in rets:
            if s.get("#imprecise", 0):
                vague = True
            runs = s.get("#runs", ())
            val = deref(v, s)
            if want_runs is not None and not _same_runs(runs, want_runs):
                if any(has_top(x) for n_, a_, k_ in runs for x in a_):
                    vague = True  # a piece of a runner call is unknown to the analysis: no verdict from it
                problems.append("the safe runner is called as %s; expected %s" % (_runs_txt(runs), _runs_txt(want_runs[1]) + " (or the same deletions batched per server)" if isinstance(want_runs, tuple) else _runs_txt(want_runs)))
            if want_value is not None and not _same_value(val, want_value):
                problems.append("it returns %s; expected %s" % (_d(val), _d(want_value)))
        problems = list(dict.fromkeys(problems))
        return ("ok" if not problems else ("vague" if vague else "fail")), problems

    def scenario(K, route, lift, emit):
        """All rows of one scenario (keys K, routing `route`); emit(rule, rowkey, f, outs, dom, what, construct,
        want_runs, want_value, why) for each."""
        I = {k.tag: Opaque("inner:" + k.tag) for k in K}
        rt = ", ".join("%s->%s" % (k, v or "no server") for k, v in sorted(route.items())) if len(K) <= 4 else "%d keys, all on server %s" % (len(K), route[K[0].tag])
        order = []
        for k in K:
            if route[k.tag] is not None and route[k.tag] not in order:
                order.append(route[k.tag])
        for mname, gets in (("get_many", False), ("get_many", True), ("gets_many", None)):
            meth = "gets_many" if (gets or mname == "gets_many") else "get_many"
            for oneshot in (False, True):
                f, outs, dom = run(mname, K, route, lift, oneshot=oneshot, gets=gets)
                want_runs = [("_safely_run_func", (Opaque("client:" + srv), BoundCall(Opaque("client:" + srv), Const(meth)), DictV(()), TupleV(tuple(I[k.tag] for k in K if route[k.tag] == srv))), ()) for srv in order]
                want_value = DictV(tuple((I[k.tag], Opaque("value:%s:%s" % (route[k.tag], I[k.tag].tag))) for k in K if route[k.tag] is not None))
                what = "HashClient.%s(%s%s) with routing %s" % (mname, "gets=%s, " % gets if gets is not None else "", "one-shot keys" if oneshot else "%d key(s)" % len(K), rt)
                # in the large scenario the requests may be split (a chunked multiget is legitimate): what must hold
                # there is the merged answer; who is asked for what is judged on the small scenarios
                emit(r3, (mname, gets, oneshot, "batches"), f, outs, dom, what + ": one %s call per server with exactly its own keys" % meth, "HashClient.%s:batches" % mname, want_runs if len(K) <= 4 else None, None, "each key must be sent once, to the client of the server its own routing call returned, under its inner key; a key without server is skipped")
                emit(r4, (mname, gets, oneshot, "merge"), f, outs, dom, what + ": the answers of all servers are merged", "HashClient.%s:merge" % mname, None, want_value, "the result is the union of the per-server answers")
        for fails in ((), ("inner:K3",), ("inner:K1", "inner:K2")):
            f, outs, dom = run("set_many", K, route, lift, fails=fails)
            want_runs = [("_safely_run_set_many", (Opaque("client:" + srv), DictV(tuple((I[k.tag], Opaque("val:" + k.tag)) for k in K if route[k.tag] == srv))), ()) for srv in order]
            unrouted = [I[k.tag] for k in K if route[k.tag] is None]
            refused = [I[k.tag] for srv in order for k in K if route[k.tag] == srv and I[k.tag].tag in fails]
            what = "HashClient.set_many(%d item(s)) with routing %s, refused by the servers: %s" % (len(K), rt, list(fails) or "none")
            emit(r3, ("set_many", fails, "batches"), f, outs, dom, what + ": one set_many per server with exactly its own items", "HashClient.set_many:batches", want_runs if len(K) <= 4 else None, None, "each item must be sent once, to the client of the server its own routing call returned, under its inner key with its own value")
            emit(r4, ("set_many", fails, "merge"), f, outs, dom, what + ": failed keys = keys without server + keys the servers refused", "HashClient.set_many:merge", None, TupleV(tuple(unrouted + refused)), "set_many returns every key that was not stored")
        for oneshot in (False, True):
            f, outs, dom = run("delete_many", K, route, lift, oneshot=oneshot)
            want_runs = [("_safely_run_func", (Opaque("client:" + route[k.tag]), BoundCall(Opaque("client:" + route[k.tag]), Const("delete")), Const(False), I[k.tag]), ()) for k in K if route[k.tag] is not None]
            what = "HashClient.delete_many(%s) with routing %s" % ("one-shot keys" if oneshot else "%d key(s)" % len(K), rt)
            emit(r4, ("delete_many", oneshot, "visits"), f, outs, dom, what + ": delete runs once per key, on that key's server", "HashClient.delete_many:visits", ("deletes", want_runs), Const(True), "delete_many runs the delete command exactly once for every key")

    lifted_cache = {}

    def lifted(K, route, ident):
        """rowkey -> (status, problems, what) of the scenario with size comparisons taken at face value."""
        if ident not in lifted_cache:
            res = {}

            def collect(rule, rowkey, f, outs, dom, what, construct, want_runs, want_value, why):
                st, problems = judge(outs, want_runs, want_value)
                res[rowkey] = (st, problems, what)

            scenario(K, route, True, collect)
            lifted_cache[ident] = res
        return lifted_cache[ident]

    counter = [0]

    def make_emit(K, route, ri):
        def emit(rule, rowkey, f, outs, dom, what, construct, want_runs, want_value, why):
            if rowkey[-1] in ("batches", "visits"):
                counter[0] += 1
            st, problems = judge(outs, want_runs, want_value)
            if st == "ok" and not dom.thresholds:
                rule.ok(what)
                return
            if st == "fail":
                rule.fail(construct, "%s: %s (%s)" % (what, "; ".join(problems), why), fn=f, node=f.node)
                return
            ths = sorted(t for t in (dom.thresholds or ()) if t + 1 <= 30)
            if ths and len(ths) == len(dom.thresholds):
                # both sides of the size thresholds met on the way: this scenario with three < threshold taken as it
                # is, and threshold + 1 keys on one server
                verdicts = [lifted(K, route, ("small", ri)).get(rowkey)]
                n = ths[-1] + 1
                bigK = [Opaque("K%d" % (i + 1)) for i in range(n)]
                verdicts.append(lifted(bigK, {k.tag: "A" for k in bigK}, ("big", n)).get(rowkey))
                if all(v is not None for v in verdicts):
                    bad = [v for v in verdicts if v[0] == "fail"]
                    if bad:
                        rule.fail(construct, "%s: %s (%s)" % (bad[0][2], "; ".join(bad[0][1][:3]), why), fn=f, node=f.node)
                        return
                    if all(v[0] == "ok" for v in verdicts):
                        rule.ok(what + " [decided on both sides of the size threshold(s) %s]" % ths)
                        return
                    problems = [p for v in verdicts for p in v[1]] or problems
            if st == "ok":
                # right on this side of a size threshold, the other side out of reach of the exact collections
                rule.undecided(construct, "%s -- a batch size is compared with %s: what happens beyond that size is not explored" % (what, sorted(dom.thresholds)))
                return
            rule.undecided(construct, "%s -- %s" % (what, "; ".join(problems[:2])))

        return emit

    for ri, route in enumerate(routes):
        K = [k for k in ALL if k.tag in route]
        scenario(K, route, False, make_emit(K, route, ri))
    n = counter[0]
    # two (server_key, key) pairs with the same inner key on different servers: both servers are asked for it
    for mname in ("get_many", "gets_many"):
        n += 1
        f = prog.method(hc, mname)
        dom = HashDomain(prog, f, {"P1": "A", "P2": "B"}, inner={"P1": "X", "P2": "X"})
        env = {}
        for p in f.params:
            if p.name == "self":
                continue
            if p.name == "keys":
                env["keys"] = TupleV((Opaque("P1"), Opaque("P2")))
            elif p.kind == "vararg":
                env[p.name] = TupleV(())
            elif p.kind == "kwarg":
                new_object(env, p.name, "dict", DictV(()))
            elif p.name == "gets":
                env[p.name] = Const(False)
            else:
                env[p.name] = Val("arg:" + p.name)
        outs = Interp(dom, f.node, prog).run(Env(env))
        meth = "gets_many" if mname == "gets_many" else "get_many"
        want_runs = [("_safely_run_func", (Opaque("client:" + srv), BoundCall(Opaque("client:" + srv), Const(meth)), DictV(()), TupleV((Opaque("inner:X"),))), ()) for srv in ("A", "B")]
        st, problems = judge(outs, want_runs, None)
        what = "HashClient.%s([(s1, k), (s2, k)]) with s1->A, s2->B: each server is asked for k" % mname
        if st == "ok":
            r3.ok(what)
        elif st == "vague":
            r3.undecided("HashClient.%s:batches" % mname, "%s -- %s" % (what, "; ".join(problems[:2])))
        else:
            r3.fail("HashClient.%s:batches" % mname, "%s: %s (two pairs that share the inner key but are routed to different servers are two requests, as two single-key calls would be)" % (what, "; ".join(problems)), fn=f, node=f.node)
    r3.count("batching scenarios", n)
    r3.floor("batching scenarios", n, 40)


def duplicate_key_rows(prog, rule):
    """C16: a key the caller lists twice is asked for twice, as Client does (`get a b a`): the per-server batch of a
    multi-key read holds every occurrence.  (For C12 a de-duplicating HashClient would be fine: each key still goes to
    its own server; it is the equality with Client's commands that needs the occurrences.)"""
    from .colls import new_object
    from .rules_C05 import Val, has_top

    hc = prog.cls("HashClient")
    K = [Opaque("K1"), Opaque("K2"), Opaque("K1")]
    route = {"K1": "A", "K2": "B"}
    for mname in ("get_many", "gets_many"):
        f = prog.method(hc, mname)
        dom = HashDomain(prog, f, route)
        dom.scenario_limit = 10 ** 9  # three keys taken at face value: a chunk size far above them does not matter here
        env = {}
        for p in f.params:
            if p.name == "self":
                continue
            if p.name == "keys":
                env["keys"] = TupleV(tuple(K))
            elif p.kind == "vararg":
                env[p.name] = TupleV(())
            elif p.kind == "kwarg":
                new_object(env, p.name, "dict", DictV(()))
            elif p.name == "gets":
                env[p.name] = Const(False)
            else:
                env[p.name] = Val("arg:" + p.name)
        outs = Interp(dom, f.node, prog).run(Env(env))
        rets = outs.of("ret")
        what = "HashClient.%s([k1, k2, k1]) with k1->A, k2->B: server A is asked for k1 twice, as Client would send `get k1 ... k1`" % mname
        if len(rets) != 1 or outs.of("exc") or rets[0][0].get("#imprecise", 0):
            rule.undecided("HashClient.%s:repeated-key" % mname, what + " -- not one exactly known outcome")
            continue
        runs = rets[0][0].get("#runs", ())
        got = {}
        vague = False
        for n_, a_, k_ in runs:
            if len(a_) >= 4 and isinstance(a_[0], Opaque) and isinstance(a_[3], TupleV):
                got.setdefault(a_[0].tag[7:], []).extend(x.tag if isinstance(x, Opaque) else "?" for x in a_[3].items)
            else:
                vague = vague or any(has_top(x) for x in a_)
        want = {"A": ["inner:K1", "inner:K1"], "B": ["inner:K2"]}
        if got == want:
            rule.ok(what)
        elif vague:
            rule.undecided("HashClient.%s:repeated-key" % mname, what + " -- a piece of a runner call is unknown")
        else:
            rule.fail("HashClient.%s:repeated-key" % mname, "%s: the batches are %s; a plain Client given the same list sends every occurrence, so the commands on the wire differ" % (what, got), fn=f, node=f.node)


def _deletes(runs):
    """The (client, inner key) pairs a list of runner calls deletes - one `delete` per key or one `delete_many` per
    batch alike; None if a call is something else."""
    out = []
    for n, a, k in runs:
        if n != "_safely_run_func" or len(a) != 4 or k or not isinstance(a[1], BoundCall) or a[1].obj != a[0]:
            return None
        if a[1].attr == Const("delete") and a[2] == Const(False):
            out.append((a[0], a[3]))
        elif a[1].attr in (Const("delete_many"), Const("delete_multi")) and isinstance(a[3], TupleV):
            out += [(a[0], x) for x in a[3].items]
        else:
            return None
    return sorted(out, key=str)


def _same_runs(got, want):
    if isinstance(want, tuple) and want and want[0] == "deletes":
        g = _deletes(got)
        return g is not None and g == _deletes(want[1])
    if len(got) != len(want):
        return False
    # (which server is asked first is not part of the property: the calls are compared as a collection)
    got, want = sorted(got, key=str), sorted(want, key=str)
    for (gn, ga, gk), (wn, wa, wk) in zip(got, want):
        if gn != wn or len(ga) != len(wa) or gk != wk:
            return False
        for g, w in zip(ga, wa):
            if not _same_value(g, w):
                return False
    return True


def _same_value(g, w):
    if isinstance(w, DictV) and isinstance(g, DictV):
        return len(g.items) == len(w.items) and all(any(gk == wk and _same_value(gv, wv) for gk, gv in g.items) for wk, wv in w.items)
    return g == w


def _runs_txt(runs):
    return "[%s]" % "; ".join("%s(%s)" % (n, ", ".join(_d(x) for x in a)) for n, a, k in runs)


def run(chk):
    prog = chk.prog
    hc = prog.cls("HashClient")
    gc = prog.method(hc, "_get_client")

    # ------------------------------------------------------------------ R1 one router
    r1 = chk.rule("C12.R1", "one router: hasher.get_node has one call site; every key-addressed operation reaches a client only through _get_client(key)")
    sites = []
    for f in prog.all_functions():
        for c in walk_no_nested(f.node):
            if isinstance(c, ast.Call) and isinstance(c.func, ast.Attribute) and c.func.attr == "get_node":
                sites.append((f, c))
    r1.expect(len(sites) == 1 and sites[0][0] is gc, "hasher.get_node is called only from HashClient._get_client", "HashClient:get_node-call-sites", "hasher.get_node is called from %s: placement can differ between operations" % [f.qualname for f, c in sites], fn=gc, node=gc.node)
    gcalls = []
    for f in hc.methods.values():
        for c in walk_no_nested(f.node):
            if isinstance(c, ast.Call) and call_name(c) == "self._get_client":
                gcalls.append((f, c))
    shapes = {(len(c.args), tuple(sorted(k.arg or "**" for k in c.keywords))) for f, c in gcalls}
    r1.expect(shapes == {(1, ())}, "all %d call sites of _get_client pass exactly the key" % len(gcalls), "HashClient:_get_client-call-shapes", "_get_client is called with differing arguments (%s) at different sites: single-key and multi-key operations are not routed by the same function of the key" % sorted(shapes), fn=gc, node=gcalls[0][1] if gcalls else gc.node)
    r1.floor("call sites of _get_client", len(gcalls), 2)
    rc = prog.method(hc, "_run_cmd")
    rcp = run_cmd_problems(prog)
    r1.expect(not rcp, "_run_cmd routes its key parameter, looks the method up on the routed client and sends the inner key", "HashClient._run_cmd:routing", "_run_cmd: %s" % "; ".join(rcp), fn=rc, node=rc.node)
    n_ops = 0
    from .rules_C16 import key_ops

    for name, cf in sorted(key_ops(prog).items()):
        hf = prog.method(hc, name, required=False)
        if hf is None:
            r1.fail("HashClient.%s:missing" % name, "HashClient lacks the key-addressed operation %s: a key written through one operation cannot be reached through this one" % name, file=hc.module.rel, line=hc.node.lineno)
            continue
        n_ops += 1
        direct = [c for c in walk_no_nested(hf.node) if isinstance(c, ast.Call) and isinstance(c.func, ast.Attribute) and isinstance(c.func.value, ast.Subscript) and is_self_attr(c.func.value.value, "clients")]
        r1.expect(not direct, "HashClient.%s does not pick a client by hand" % name, "HashClient.%s:bypasses-router" % name, "HashClient.%s calls a client chosen without the router: `%s`" % (name, node_src(direct[0]) if direct else ""), fn=hf)
    r1.floor("key-addressed operations on HashClient", n_ops, 18)

    # ------------------------------------------------------------------ R2 routed key raw, sent key inner
    r2 = chk.rule("C12.R2", "_get_client routes the raw server key (first component of a pair) through the hasher on every path and returns the inner key")
    n_paths = 0
    for is_pair in (False, True, "two-chars"):
        for dead in (False, True):
            two = is_pair == "two-chars"  # a plain str / bytes key that happens to have two characters
            is_pair = False if two else is_pair
            dom = RouteDomain(prog, gc, is_pair, dead)
            dom.two_chars = two
            pname = gc.pos_params()[0].name
            outs = Interp(dom, gc.node, prog).run(Env({pname: Sym("key")}))
            want_route = Sym("server_key_of_pair") if is_pair else Sym("key")
            want_inner = Sym("inner_of_pair") if is_pair else Sym("key")
            for node, arg, st in dom.routed:
                r2.expect(arg == want_route, "get_node(%s) for a %s key" % (want_route.name, "pair" if is_pair else "plain"), "HashClient._get_client:routes-wrong-value", "for a %s key the hasher is asked about %s instead of the raw server key: the same key is placed differently from what the published rule (and other operations) give" % ("(server_key, key) pair" if is_pair else ("plain two-character" if two else "plain"), _d(arg)), fn=gc, node=node)
            if not dom.routed:
                r2.fail("HashClient._get_client:no-routing", "no call of hasher.get_node is reached", fn=gc)
            for s, v, t in outs.of("ret"):
                n_paths += 1
                if isinstance(v, TupleV) and len(v.items) == 2:
                    cl, k = v.items
                    if cl == NONE:
                        r2.ok("no-server path returns (None, inner key)", sample=False) if k == want_inner else r2.fail("HashClient._get_client:returns-wrong-key", "the key returned on the no-server path is %s" % _d(k), fn=gc)
                        continue
                    okc = isinstance(cl, tuple) and cl[0] == "client-for" and isinstance(cl[1], NodeOf) and cl[1].arg == want_route
                    r2.expect(okc, "returned client is self.clients[get_node(server key)]", "HashClient._get_client:client-not-from-hasher", "on some path the returned client is %s rather than self.clients[hasher.get_node(server_key)]: placement is not recomputed from the servers currently in rotation (%s)" % (_d(cl), fmt_trace(t)), fn=gc, witness=fmt_trace(t))
                    r2.expect(k == want_inner, "returned key is the inner key", "HashClient._get_client:returns-wrong-key", "the key handed on to the client is %s instead of the %s" % (_d(k), "second component of the pair" if is_pair else "key itself"), fn=gc)
                else:
                    r2.fail("HashClient._get_client:return-shape", "_get_client returns %s" % _d(v), fn=gc)
    r2.floor("return paths of _get_client", n_paths, 4)
    # "recomputed from the rotation" also needs the hasher itself to be a function of (key, rotation) and nothing else
    from . import rules_C11, report

    report.include_rules(chk, r2, rules_C11, ("C11.R1",), "the router's answer depends only on the key and the current rotation (no memo, no process state)")
    # single-key and many-key operations see the same rotation only if each of them brings due servers back first: the
    # revival scan belongs to the router every operation goes through (C13.R4 decides where it runs and what it re-arms)
    from . import rules_C13

    report.include_rules(chk, r2, rules_C13, ("C13.R4",), "servers that are due come back into rotation before any operation is routed, single-key or many-key alike")

    # ------------------------------------------------------------------ R3 / R4 batches
    r3 = chk.rule("C12.R3", "batching: each key is inserted exactly once, under the inner key, into the batch of the server its own routing call returned; skipped only when no server is left; each batch dispatched once to that server's client")
    r4 = chk.rule("C12.R4", "merge: get_many returns the union of the per-server answers, set_many concatenates the failures, delete_many visits each key once")
    batching_rows(prog, hc, r3, r4, tier=chk.tier)
    # add_server keeps clients[<node name of s>].server == s, decided by interpretation (whatever helper does the writing)
    add = prog.method(hc, "add_server")
    from . import failhist

    failhist.registration_rows(prog, r3)
    # the client table belongs to the hash clients: nobody else stores into it
    writers = []
    for f in prog.all_functions():
        for n in walk_no_nested(f.node):
            if isinstance(n, ast.Assign) and any(isinstance(t, ast.Subscript) and isinstance(t.value, ast.Attribute) and t.value.attr == "clients" for t in n.targets):
                writers.append(f)
    foreign = sorted({f.qualname for f in writers if f.cls is None or f.cls.name not in ("HashClient", "AWSElastiCacheHashClient")})
    r3.expect(writers and not foreign, "only the hash clients store into .clients", "HashClient:clients-writers", ".clients entries are written by %s" % (foreign or "nobody"), fn=add)
    chk.assume("memcached answers a multi-key fetch with exactly the items it holds (server model), so per-server answers are disjoint")


def _client_value(state):
    for k, v in state.d.items():
        if isinstance(v, ClientOf):
            return v
    for k, v in state.d.items():
        if isinstance(k, str) and v == NONE and k not in ("ins",):
            return NONE
    return None


def _ancestors(n):
    n = getattr(n, "_parent", None)
    while n is not None:
        yield n
        n = getattr(n, "_parent", None)


def _d(v):
    if isinstance(v, Sym):
        return {"key": "the key argument", "server_key_of_pair": "the server key of the pair", "inner_of_pair": "the inner key of the pair", "k": "the current key", "v": "the current value"}.get(v.name, v.name)
    if isinstance(v, (ClientOf, InnerOf, ServerOf)):
        return "%s(%s)" % ({"ClientOf": "client routed for", "InnerOf": "inner key of", "ServerOf": "server of the client routed for"}[type(v).__name__], _d(v.key))
    if isinstance(v, NodeOf):
        return "get_node(%s)" % _d(v.arg)
    if isinstance(v, tuple) and v and v[0] == "client-for":
        return "self.clients[%s]" % _d(v[1])
    if isinstance(v, tuple) and v and v[0] == "id-of":
        return "id(%s)" % _d(v[1])
    if isinstance(v, Opaque):
        return str(v.tag)
    if isinstance(v, TupleV):
        return "[%s]" % ", ".join(_d(x) for x in v.items)
    if isinstance(v, DictV):
        return "{%s}" % ", ".join("%s: %s" % (_d(k), _d(x)) for k, x in v.items)
    if isinstance(v, BoundCall):
        return "%s.%s" % (_d(v.obj), v.attr.v if isinstance(v.attr, Const) else v.attr)
    if isinstance(v, Const):
        return repr(v.v)
    return str(v)
