"""C09 - a failed pooled connection is discarded and pool capacity is conserved (decided structurally)."""
import ast

from .model import AnalysisError, node_src, is_self_attr, call_name, fold, NotConst
from .paths import Interp, Domain, Env, TOP, NONE, Const, Exc, ORD, ASYNC, fmt_trace
from . import poolpaths
from .report import walk_no_nested

LEVEL = "other"
LEVEL_TEXT = (
    "Path rules on the pool bracket (exactly one release/destroy on every normal/ordinary-exception exit, destroy when "
    "destroy_on_fail), constant-argument rules over all 24 bracket sites and the inner-client constructor, and typestate "
    "rules on ObjectPool.get/release (idle test direction, expired objects closed and never handed out, reuse before "
    "create, idle stamp refreshed on release), plus R8: ObjectPool interpreted with exact collections on a concrete pool "
    "(scripted clock, created objects as distinct symbols) under every sequence of get / release(x) / destroy(x) / clear "
    "/ clock ticks up to depth 6 (8 thorough), x any object created so far: nothing listed twice, at most max_size "
    "listed, every object listed or closed exactly once, only unheld / open / fresh objects handed out, no expired "
    "object left idle after a checkout. Bounded in depth and pool size (max_size 1 and 2)."
)
TRUSTED = ["CPython ast", "pmcsa/paths.py", "release()/destroy() are atomic for slot accounting (their internal ordering is C08.R3)"]


class QuitDomain(Domain):
    async_enabled = False

    def call(self, node, fval, args, kwargs, state):
        name = call_name(node)
        if name == "self.client_pool.destroy":
            return [("ok", NONE, state.set("#destroyed", state.get("#destroyed", 0) + 1))]
        if name in ("self.client_pool.get_and_release", "self.client_pool.get"):
            return [("ok", TOP, state)]  # (a get() that fails has checked nothing out: no connection to discard)
        return [("ok", TOP, state), ("exc", Exc(ORD, None, node.lineno), state)]

    def with_enter(self, item, value, state):
        return [("ok", TOP, state)]


def run(chk):
    prog = chk.prog
    pooled = prog.cls("PooledClient")
    # ---------------- R1
    r1 = chk.rule("C09.R1", "every get_and_release bracket of PooledClient passes the constant destroy_on_fail=True (a method that checks its client out itself gives it back on every exit, destroying it after a failure)")
    from . import pooled as pooled_an

    n = 0
    holds = pooled_an.analyse_holds(prog)
    for name, runs in sorted(pooled_an.analyse(prog).items()):
        m = pooled.methods[name]
        brs = set()
        for r in runs:
            if r.state.get("#calls", ()) or r.state.get("#brackets", ()):
                brs |= set(r.state.get("#brackets", ()))
        if not brs and name in holds:
            # a hand-made bracket: client_pool.get() and release / destroy by the method itself
            probs = pooled_an.hold_problems(holds[name], ("ok", "raise"))
            for key, msg in probs:
                r1.fail("PooledClient.%s:%s" % (name, key), "PooledClient.%s checks its client out with client_pool.get(): %s" % (name, msg), fn=m, node=m.node)
            if not probs:
                n += 1
                r1.ok("PooledClient.%s: checks the client out itself; every normal and ordinary-exception exit gives it back, a failed one with destroy()" % name)
            continue
        if not brs:
            r1.fail("PooledClient.%s:no-bracket" % name, "PooledClient.%s never enters the pool bracket" % name, fn=m)
            continue
        n += 1
        bad = [b for b in brs if b != Const(True)]
        r1.expect(not bad, "PooledClient.%s: destroy_on_fail=True" % name, "PooledClient.%s:destroy_on_fail" % name, "PooledClient.%s enters the pool bracket with destroy_on_fail=%s: a client whose call failed goes back into the pool" % (name, [getattr(b, "v", b) for b in bad]), fn=m, node=m.node)
    r1.floor("PooledClient methods that enter the bracket", n, 24)

    # ---------------- R2
    r2 = chk.rule("C09.R2", "slot conservation: after get() every normal / ordinary-exception exit of get_and_release passes exactly one release/destroy (destroy on failure)")
    fn, recs = poolpaths.bracket_exits(prog)
    n_ex = 0
    for r in recs:
        if r["kind"] == "badarg":
            r2.fail("ObjectPool.get_and_release:release-of-other-object", "release/destroy is not called with the object obtained from get()", fn=fn, node=r["node"])
            continue
        if not r["got"]:
            continue
        if r["colour"] == ASYNC:
            # "once each call has returned or raised": the slot must also come back when the body is aborted by a
            # BaseException (shared with C10.R2)
            n_ex += 1
            if r["rel"] != 1:
                r2.fail("ObjectPool.get_and_release:ASYNC-count-%d" % r["rel"], "an exit of get_and_release by a BaseException thrown into the body passes %d release/destroy calls: the connection stays checked out forever and max_pool_size is eventually exhausted" % r["rel"], fn=fn, witness=fmt_trace(r["trace"]))
            else:
                r2.ok("get_and_release(destroy_on_fail=%s): BaseException exit passes exactly one %s" % (r["dof"], r["how"]), sample=False)
            continue
        n_ex += 1
        what = "normal exit" if r["kind"] == "ret" else "exit by an ordinary exception thrown into the body"
        if r["kind"] == "ret" and r.get("swallowed"):
            r2.fail("ObjectPool.get_and_release:exception-swallowed", "get_and_release swallows an exception thrown by the with-body", fn=fn, witness=fmt_trace(r["trace"]))
        if r["rel"] != 1:
            r2.fail("ObjectPool.get_and_release:%s-count-%d" % ("ret" if r["kind"] == "ret" else "ORD", r["rel"]), "%s of get_and_release (destroy_on_fail=%s) passes %d release/destroy calls instead of exactly one: the slot is %s" % (what, r["dof"], r["rel"], "lost" if r["rel"] == 0 else "returned twice"), fn=fn, witness=fmt_trace(r["trace"]))
        elif r["kind"] == "exc" and r["dof"] and r["how"] != "destroy":
            r2.fail("ObjectPool.get_and_release:failed-client-released", "with destroy_on_fail=True an exception in the body leads to release() instead of destroy(): the failed client returns to the free list", fn=fn, witness=fmt_trace(r["trace"]))
        elif r["kind"] == "exc" and not r["dof"] and r["how"] != "release":
            r2.fail("ObjectPool.get_and_release:branches-swapped", "with destroy_on_fail=False the object is destroyed", fn=fn, witness=fmt_trace(r["trace"]))
        elif r["kind"] == "ret" and r["how"] != "release":
            r2.fail("ObjectPool.get_and_release:healthy-client-destroyed", "a normal exit destroys the client instead of releasing it for reuse", fn=fn, witness=fmt_trace(r["trace"]))
        else:
            r2.ok("get_and_release(destroy_on_fail=%s): %s passes exactly one %s" % (r["dof"], what, r["how"]))
    r2.floor("exits of get_and_release examined", n_ex, 4)

    # ---------------- R3
    r3 = chk.rule("C09.R3", "inner clients always raise: _create_client passes the constant ignore_exc=False")
    from . import pooled as pooled_an

    pinit, cc, created = pooled_an.created_client_options(prog)
    r3.floor("client constructor calls reached through __init__ + _create_client", len(created), 1)
    cdef = prog.method("Client", "__init__").param("ignore_exc")
    for pos, kw in created:
        v = kw.get("ignore_exc", "<not passed>")
        if type(v).__name__ == "MaybeV" and v.v == Const(False) and cdef is not None and isinstance(cdef.default, ast.Constant) and cdef.default.value is False:
            v = v.v  # passed as False or left to Client's default False: the same
        if v == "<not passed>" and "**" in kw:
            r3.undecided("PooledClient._create_client:ignore_exc", "the inner clients are constructed with a `**mapping` whose content the analysis lost")
            continue
        if v == "<not passed>":
            ok = cdef is not None and isinstance(cdef.default, ast.Constant) and cdef.default.value is False and "**" not in kw
            shown = "<Client's default %s>" % (node_src(cdef.default) if cdef is not None and cdef.default is not None else "?")
        else:
            ok = v == Const(False)
            shown = str(v.v) if isinstance(v, Const) else ("the PooledClient's own `%s` option" % v.name if isinstance(v, pooled_an.P) else str(v))
        r3.expect(ok, "_create_client: inner clients get ignore_exc=False", "PooledClient._create_client:ignore_exc", "inner clients are created with ignore_exc=%s: a failure inside the bracket would be invisible to the pool and the broken connection released for reuse" % shown, fn=cc, node=cc.node)

    # what the pool does to an object it drops (idle eviction inside get(), destroy(), clear()) is the after_remove
    # callback: it must close the connection and do nothing that can fail - it runs outside any caller's error handling
    cbs = pooled_an.after_remove_calls(prog)
    if cbs is None:
        r3.undecided("PooledClient.__init__:after_remove", "the after_remove callback of the pool is not a lambda this analysis can follow")
    else:
        r3.floor("ObjectPool constructions in PooledClient.__init__", len(cbs), 1)
        for calls in cbs:
            r3.expect(calls == ("close",), "the pool's after_remove callback closes the removed client and does nothing else", "PooledClient.__init__:after_remove", "the pool's after_remove callback does %s with a client it drops instead of just close(): Client.close() cannot fail (C06.R6), anything else (a command such as quit) talks to a possibly dead connection from inside ObjectPool.get/destroy/clear, where the failure escapes calls that should have seen a healthy connection or a swallowed error" % (list(calls) or "nothing"), fn=pinit, node=pinit.node)

    from . import rules_C01, report

    report.include_rules(chk, r3, rules_C01, ("C01.R1",), "a connection on which a call failed is closed by the inner client itself, whatever the pool then does with the client object")
    # "discarded" means closed: destroy() -> after_remove -> Client.close, which must close the socket on every path
    from . import rules_C06

    report.include_rules(chk, r3, rules_C06, ("C06.R1",), "a connection attempt that fails leaves no open socket behind (every socket created in _connect is closed or kept in self.sock)")
    report.include_rules(chk, r3, rules_C06, ("C06.R6",), "discarding a failed connection closes its socket: Client.close closes the socket and resets self.sock on every path, whatever the socket's state")

    # ---------------- R4/R5 on ObjectPool.get and release
    fields, locks = poolpaths.guarded_fields(prog)
    lock = locks[0]
    r4 = chk.rule("C09.R4", "idle expiry: get() hands out a free object only if it passed the idle test; expired ones are closed and never appended; release() stamps the idle clock")
    r5 = chk.rule("C09.R5", "healthy reuse: get() creates a new object only when the free list is exhausted; release() puts the object on the free list")
    fn, dom, outs, interp = poolpaths.run_pool_method(prog, "get", fields, lock)
    for construct, msg, node in dom.problems:
        if construct.startswith("create-before-reuse"):
            r5.fail("ObjectPool.get:" + construct, msg, fn=fn, node=node)
        elif construct.startswith(("idle-comparison", "fresh-object")):
            r4.fail("ObjectPool.get:" + construct, msg, fn=fn, node=node)
    n_app = 0
    for (field, kind, node, st) in dom.accesses:
        if kind == "write" and isinstance(node, ast.Call) and node.func.attr in ("append", "appendleft", "add") and node.args and isinstance(node.args[0], ast.Name):
            v = st.get(node.args[0].id)
            n_app += 1
            if isinstance(v, poolpaths.Obj) and v.origin.startswith("popped"):
                fresh = v.fresh
                r4.expect(fresh is True, "get(): a popped object reaches the used deque only after passing the idle test", "ObjectPool.get:expired-object-handed-out", "an object popped from the free list reaches `%s` on a path where the idle test %s: an expired connection is handed out" % (node_src(node), "failed" if fresh is False else "was not evaluated"), fn=fn, node=node)
            elif isinstance(v, poolpaths.Obj) and v.origin == "created":
                r4.ok("get(): a freshly created object reaches the used deque", sample=False)
            else:
                r4.fail("ObjectPool.get:unknown-object-handed-out", "`%s` appends an object of unknown origin (%s)" % (node_src(node), v), fn=fn, node=node)
    closes = [p for p in dom.accesses if False]
    after = [p_ for p_ in dom.accesses if False] or [n for m_ in prog.cls("ObjectPool").methods.values() if m_.name == "get" or m_.name.startswith("_") for n in walk_no_nested(m_.node) if isinstance(n, ast.Call) and call_name(n) == "self._after_remove"]
    r4.expect(len(after) >= 1, "get() closes expired objects through _after_remove", "ObjectPool.get:expired-object-not-closed", "get() no longer passes expired objects to _after_remove: their sockets leak", fn=fn)
    r4.floor("hand-over sites in get()", n_app, 1)
    crea = [n for m_ in prog.cls("ObjectPool").methods.values() for n in walk_no_nested(m_.node) if isinstance(n, ast.Call) and call_name(n) == "self._obj_creator"]
    r5.floor("creation sites in ObjectPool", len(crea), 1)
    if not [p for p in dom.problems if p[0].startswith("create-before-reuse")]:
        r5.ok("get(): _obj_creator() is reachable only after the free deque was found empty")
    # stamp at hand-over
    for s, v, t in outs.of("ret"):
        stamps = [k for k in s.d if isinstance(k, tuple) and k[0] == "stamp"]
        r4.expect(bool(stamps), "get(): the handed-out object is stamped", "ObjectPool.get:no-stamp", "get() can hand out an object without setting _last_used", fn=fn, witness=fmt_trace(t))
    for silent in (True, False):
        fn2, dom2, outs2, _ = poolpaths.run_pool_method(prog, "release", fields, lock, silent=silent)
        n_ok = 0
        for s, v, t in outs2.of("ret"):
            removed = [k for k in s.d if isinstance(k, tuple) and k[0] == "removed"]
            if not removed:
                continue  # object was not in the used deque: silent no-op
            n_ok += 1
            infree = [k for k in s.d if isinstance(k, tuple) and k[0] == "in" and "free" in k[1]]
            r5.expect(bool(infree), "release(silent=%s): a removed object is appended to the free deque" % silent, "ObjectPool.release:not-returned-to-free-list", "release() can remove the object from the used deque without putting it on the free list: healthy connections are never reused", fn=fn2, witness=fmt_trace(t))
            st = [s.get(k) for k in s.d if isinstance(k, tuple) and k[0] == "stamp"]
            r4.expect(st == ["idle_clock"], "release(silent=%s): _last_used refreshed from the idle clock" % silent, "ObjectPool.release:idle-stamp-not-refreshed", "release() returns an object to the free list without setting _last_used from the idle clock (%s): idle time is measured from checkout, so a healthy connection that was busy for long is closed instead of reused" % (st or "never assigned"), fn=fn2, witness=fmt_trace(t))
        r5.floor("release() success paths (silent=%s)" % silent, n_ok, 1)

    # ---------------- R7 capacity accounting
    r7 = chk.rule("C09.R7", "capacity: the value compared with max_size is the length of the guarded deque(s), or a counter that is updated on every path where an object enters or leaves the pool; get() cannot fail after it registered the object")
    pool = prog.cls("ObjectPool")
    getf = prog.method(pool, "get")
    # get() and the private helpers it calls
    scope_fns, todo_f = [], [getf]
    while todo_f:
        g_ = todo_f.pop()
        if g_ in scope_fns:
            continue
        scope_fns.append(g_)
        for n in walk_no_nested(g_.node):
            if isinstance(n, ast.Call) and isinstance(n.func, ast.Attribute) and is_self_attr(n.func) and n.func.attr in pool.methods and n.func.attr.startswith("_") and n.func.attr not in ("_obj_creator", "_after_remove", "_idle_clock"):
                todo_f.append(pool.methods[n.func.attr])
    cmpn = [(g_, n) for g_ in scope_fns for n in walk_no_nested(g_.node) if isinstance(n, ast.Compare) and any(is_self_attr(x, "max_size") for x in ast.walk(n))]
    r7.floor("capacity comparisons in get()", len(cmpn), 1)
    for getf_c, c in cmpn:
        other = [x for x in [c.left] + list(c.comparators) if not any(is_self_attr(y, "max_size") for y in ast.walk(x))]
        src = other[0] if other else None
        if isinstance(src, ast.Name):
            defs = [n for n in walk_no_nested(getf_c.node) if isinstance(n, ast.Assign) and any(isinstance(t, ast.Name) and t.id == src.id for t in n.targets)]
            src = defs[0].value if len(defs) == 1 else src

        def is_len_of_guarded(e):
            if isinstance(e, ast.Call) and call_name(e) == "len" and e.args and is_self_attr(e.args[0]) and e.args[0].attr in fields:
                return True
            if isinstance(e, ast.BinOp) and isinstance(e.op, ast.Add):
                return is_len_of_guarded(e.left) and is_len_of_guarded(e.right)
            return False

        if is_len_of_guarded(src):
            r7.ok("capacity test uses %s" % node_src(src))
            continue
        counter = src.attr if is_self_attr(src) else None
        if counter is None:
            r7.fail("ObjectPool.get:capacity-source", "the pool size compared with max_size is `%s`, neither the length of a guarded deque nor a counter attribute" % (node_src(src) if src is not None else None), fn=getf, node=c)
            continue
        # a derived counter: that it always agrees with what the pool lists - on every order of calls, also when closing
        # a connection fails or is interrupted half way - is decided on the sequential histories (R8): a counter that
        # drifts shows as get() refusing with room left, or creating beyond max_size
        r7.ok("capacity test uses the counter self.%s (its agreement with the books is R8's: histories with failing close callbacks)" % counter)
    # get(): once the object is registered as used, get() must not fail (the caller never learns about the object)
    fng, domg, outsg, _ = poolpaths.run_pool_method(prog, "get", fields, lock)
    leaks = []
    for s_, e_, t_ in outsg.of("exc"):
        reg = [k for k in s_.d if isinstance(k, tuple) and k[0] == "in" and "used" in k[1]]
        if reg:
            leaks.append((e_, t_))
    if leaks:
        e_, t_ = leaks[0]
        r7.fail("ObjectPool.get:fails-after-registration", "get() can raise (at line %s) after it appended the object to the used deque: the caller never receives the object, so nothing will ever release it and the slot is lost" % e_.origin, fn=fng, line=e_.origin, witness=fmt_trace(t_))
    else:
        r7.ok("get(): no exceptional exit after the object was appended to the used deque")

    # ---------------- R6 quit destroys on all exits
    r6 = chk.rule("C09.R6", "PooledClient.quit destroys its client explicitly on every exit of the bracket body")
    q = prog.method(pooled, "quit")
    dq = QuitDomain(prog, q)
    outs = Interp(dq, q.node, prog).run(Env({"#destroyed": 0}))
    n_q = 0
    for kind in ("ret", "exc"):
        for s, v, t in outs.of(kind):
            n_q += 1
            r6.expect(s.get("#destroyed") == 1, "quit(): %s exit passes client_pool.destroy once" % kind, "PooledClient.quit:%s-exit-without-destroy" % kind, "PooledClient.quit can exit (%s) having called client_pool.destroy %d times: a connection the server is closing stays in the pool" % (kind, s.get("#destroyed")), fn=q, witness=fmt_trace(t))
    r6.floor("exits of PooledClient.quit", n_q, 1)
    # ---------------- R8 the books under every order of calls
    r8 = chk.rule("C09.R8", "sequential histories: under every order of get / release / destroy / clear / clock ticks (objects released twice, after destroy, after clear) nothing is listed twice, at most max_size objects are listed, every object is listed or closed exactly once, get() hands out only unheld, open, fresh objects and creates only when it must")
    from . import poolhist

    poolhist.pool_histories(prog, r8, chk.tier)
    chk.assume("a connection on which a call failed is closed by the inner client itself (C01.R1); the pool then discards the client object")
