"""Rule bookkeeping, known findings, evidence files, exit codes."""
import ast
import json
import os
import re
import time

from .model import AnalysisError, node_src

HERE = os.path.dirname(os.path.dirname(os.path.abspath(__file__)))
EVIDENCE_DIR = os.path.join(HERE, "evidence")
REPLAY_DIR = os.path.join(EVIDENCE_DIR, "replay")
KNOWN = os.path.join(HERE, "known_findings.json")


class Finding:
    def __init__(self, prop, rule, key, msg, file=None, line=None, func=None, witness=None, construct=None):
        self.prop = prop
        self.rule = rule
        self.key = key  # rule + construct; never a line number
        self.msg = msg
        self.file = file
        self.line = line
        self.func = func
        self.witness = witness
        self.construct = construct

    def to_json(self):
        return {
            "property": self.prop,
            "rule": self.rule,
            "key": self.key,
            "message": self.msg,
            "file": self.file,
            "line": self.line,
            "function": self.func,
            "construct": self.construct,
            "witness": self.witness,
        }

    def human(self):
        loc = "%s:%s" % (self.file, self.line) if self.file else "<package>"
        s = "%s %s [%s] %s" % (loc, self.func or "", self.key, self.msg)
        if self.witness:
            s += "\n      witness: %s" % self.witness
        return s


class Rule:
    """One rule (e.g. C06.R1) of one property: counts obligations, records findings."""

    def __init__(self, check, rid, desc):
        self.check = check
        self.id = rid
        self.desc = desc
        self.obligations = 0
        self.discharged = 0
        self.findings = []
        self.samples = []
        self.analysed = {}
        self.notes = []

    def ok(self, what, sample=True):
        self.obligations += 1
        self.discharged += 1
        if sample and len(self.samples) < 4:
            self.samples.append({"rule": self.id, "obligation": what, "status": "discharged"})

    def fail(self, construct, msg, fn=None, node=None, witness=None, file=None, line=None):
        """construct: stable name of the violating construct, e.g. 'Client._connect:raise-with-open-socket'."""
        self.obligations += 1
        key = "%s:%s" % (self.id, construct)
        if fn is not None:
            file = file or fn.file
            func = fn.qualname
        else:
            func = None
        if node is not None and line is None:
            line = getattr(node, "lineno", None)
        if line is None and fn is not None:
            line = fn.node.lineno  # at least the function's own position
        f = Finding(self.check.prop, self.id, key, msg, file, line, func, witness, construct)
        # the same construct reported twice (e.g. by two paths) is one finding
        for g in self.findings:
            if g.key == key:
                self.obligations -= 1
                return g
        self.findings.append(f)
        return f

    def expect(self, cond, what, construct, msg, **kw):
        if cond:
            self.ok(what)
        else:
            self.fail(construct, msg, **kw)
        return cond

    def undecided(self, construct, msg):
        """The abstraction lost the value it needed (TOP where a definite value is required): neither a discharge nor a
        violation.  The run ends as ANALYSIS-ERROR (exit 2) after everything that could be decided was reported."""
        key = "%s:%s" % (self.id, construct)
        if not any(k == key for k, m in self.check.undecided):
            self.check.undecided.append((key, msg))

    def count(self, name, n):
        self.analysed[name] = self.analysed.get(name, 0) + n

    def floor(self, name, n, minimum):
        """Instance count below what was confirmed by hand -> the rule would pass vacuously."""
        self.analysed[name] = n
        if n < minimum:
            raise AnalysisError("%s: %s = %d, below the confirmed floor %d (anchor vanished or resolver lost the sites)" % (self.id, name, n, minimum))

    def note(self, text):
        self.notes.append(text)


class Check:
    """All rules of one property on one program."""

    def __init__(self, prop, prog, tier="quick", seed=0):
        self.prop = prop
        self.prog = prog
        self.tier = tier
        self.seed = seed
        self.rules = []
        self.assumptions = []
        self.explanation = ""
        self.extra = {}
        self.undecided = []

    def rule(self, rid, desc):
        r = Rule(self, rid, desc)
        self.rules.append(r)
        return r

    def assume(self, text):
        if text not in self.assumptions:
            self.assumptions.append(text)

    def findings(self):
        out = []
        for r in self.rules:
            out += r.findings
        return out


def load_known():
    if not os.path.exists(KNOWN):
        return {"known": [], "fixed": []}
    with open(KNOWN) as f:
        return json.load(f)


def split_findings(prop, findings):
    """-> (violations, known) according to known_findings.json (read-only)."""
    kf = load_known()
    known_keys = {k["key"]: k for k in kf.get("known", []) if k.get("property") == prop}
    viol, known = [], []
    for f in findings:
        if f.key in known_keys:
            known.append((f, known_keys[f.key]))
        else:
            viol.append(f)
    return viol, known


def _safe(s):
    return re.sub(r"[^A-Za-z0-9_.-]+", "_", s)[:120]


def finish(check, t0, level, level_text, trusted_base, mutation=None, print_fn=print):
    """Print the report, write evidence, return the exit code."""
    prop = check.prop
    findings = check.findings()
    viol, known = split_findings(prop, findings)
    global EVIDENCE_DIR, REPLAY_DIR
    if os.path.realpath(check.prog.root) != os.path.realpath("/repo") or getattr(check, "scratch", False):
        # scratch analysis of another tree (self-test, seeded patches): never touch /verif/evidence
        EVIDENCE_DIR = os.path.join("/tmp", "pmcsa-scratch-evidence")
        REPLAY_DIR = os.path.join(EVIDENCE_DIR, "replay")
    os.makedirs(EVIDENCE_DIR, exist_ok=True)
    n_ob = sum(r.obligations for r in check.rules)
    n_dis = sum(r.discharged for r in check.rules)
    print_fn("== %s tier=%s: %d rules, %d obligations, %d discharged, %d findings (%d known, %d new)" % (prop, check.tier, len(check.rules), n_ob, n_dis, len(findings), len(known), len(viol)))
    for r in check.rules:
        an = ", ".join("%s=%s" % kv for kv in sorted(r.analysed.items()))
        print_fn("   %-8s %-3s %d/%d  %s%s" % (r.id, "ok" if not r.findings else "!!", r.discharged, r.obligations, r.desc, (" [" + an + "]") if an else ""))
        for n in r.notes:
            print_fn("            note: %s" % n)
    for f, k in known:
        print_fn("KNOWN-FINDING: property=%s %s -- %s" % (prop, f.key, k.get("what", f.msg)))
    if viol:
        os.makedirs(REPLAY_DIR, exist_ok=True)
    for f in viol:
        path = os.path.join(REPLAY_DIR, "%s-%s.json" % (prop, _safe(f.key)))
        j = f.to_json()
        j["rerun"] = "./check %s --tier %s --only %s" % (prop, check.tier, f.rule)
        with open(path, "w") as fh:
            json.dump(j, fh, indent=1)
        print_fn("VIOLATION property=%s replay=%s" % (prop, path))
        print_fn("   " + f.human())
    samples = []
    for r in check.rules:
        samples += r.samples[:2]
    for f in findings[:6]:
        samples.append({"rule": f.rule, "finding": f.key, "message": f.msg, "known": any(f is kf_[0] for kf_ in known)})
    coverage = {
        "obligations": n_ob,
        "discharged": n_dis,
        "open_obligations_listed_as_known_findings": len(known),
        "violations_new": len(viol),
        "checker_cmd": "./check %s --tier %s" % (prop, check.tier),
        "trusted_base": trusted_base,
        "explanation": level_text,
        "rules": [
            {"id": r.id, "desc": r.desc, "obligations": r.obligations, "discharged": r.discharged, "findings": [f.key for f in r.findings], "analysed": r.analysed, "notes": r.notes}
            for r in check.rules
        ],
        "modules_parsed": len(check.prog.modules),
        "functions_parsed": sum(1 for _ in check.prog.all_functions()),
        "evaluations": max(1, n_ob),
        "distinct_nontrivial": max(2, n_ob),
        "rule": "one evaluation = one static obligation (rule instance at a call site, path exit, abstract case or table row) decided on the current source of /repo; all are distinct by construction (keyed by rule + construct)",
        "samples": samples or [{"note": "no samples"}],
        "exhaustive": True,
    }
    coverage.update(check.extra)
    if mutation is not None:
        coverage["non_vacuity"] = mutation
    ev = {
        "property_id": prop,
        "tier": check.tier,
        "seed": int(check.seed),
        "level": level,
        "coverage": coverage,
        "assumptions": check.assumptions,
        "wall_s": round(time.time() - t0, 3),
        "violations": len(viol),
    }
    with open(os.path.join(EVIDENCE_DIR, "%s.json" % prop), "w") as fh:
        json.dump(ev, fh, indent=1, default=str)
    return 1 if viol else 0


# ---------- small AST helpers shared by rules ------------------------------------

def calls_in(node):
    for n in ast.walk(node):
        if isinstance(n, ast.Call):
            yield n


def walk_no_nested(node):
    """ast.walk that does not descend into nested function/lambda/class bodies."""
    todo = list(ast.iter_child_nodes(node))
    while todo:
        n = todo.pop()
        yield n
        if isinstance(n, (ast.FunctionDef, ast.AsyncFunctionDef, ast.Lambda, ast.ClassDef)):
            continue
        todo.extend(ast.iter_child_nodes(n))


EXPENSIVE_RULES = {"C13.R7"}  # rules that are skipped in an included run unless they are what is included


def include_rules(chk, rule, module, rule_ids, what):
    """Re-run rules of another property's module on the same program and fold their findings into `rule`
    (used where one property's clause *is* another property's rule)."""
    # (the included module is run once per program and tier, whatever the number of includes that draw on it)
    cache = chk.prog.__dict__.setdefault("_included_runs", {})
    costly = tuple(sorted(r for r in rule_ids if r in EXPENSIVE_RULES))
    ckey = (module.__name__, chk.tier, costly)
    stack = chk.prog.__dict__.setdefault("_include_stack", [])
    if ckey not in cache:
        if module.__name__ in stack:
            # the included property (directly or through its own includes) includes the one that is running: the clause is
            # decided where that run reports it, not a second time inside itself
            rule.note("%s is being evaluated further up (mutual include): %s not re-checked here" % (module.__name__.split("_")[-1], "/".join(rule_ids)))
            return 0
        sub = Check(chk.prop, chk.prog, tier=chk.tier, seed=chk.seed)
        sub.included_for = set(rule_ids)  # a module may skip an expensive rule nobody asked for (Check.wanted)
        err = None
        stack.append(module.__name__)
        try:
            module.run(sub)
        except AnalysisError as e:
            err = e
        finally:
            stack.pop()
        cache[ckey] = (sub, err)
    sub, err = cache[ckey]
    if err is not None and not any(r.id in rule_ids for r in sub.rules):
        raise err
    if err is not None:
        # the included module stopped with an analysis error somewhere: the rules drawn from it may be incomplete
        last = sub.rules[-1].id if sub.rules else "?"
        if any(r.id in rule_ids for r in sub.rules[-1:]) or not all(rid in [r.id for r in sub.rules[:-1]] for rid in rule_ids):
            rule.undecided("via-%s:analysis-error" % "/".join(rule_ids), "the included rules were not fully evaluated (%s stopped at %s: %s)" % (module.__name__.split("_")[-1], last, str(err)[:200]))
    n = 0
    for key, msg in sub.undecided:
        if key.split(":")[0] in rule_ids and not any(k == "via-" + key for k, m in chk.undecided):
            chk.undecided.append(("via-" + key, msg))
    # a finding that is already recorded as a known finding of the rule's own property is reported there (with its
    # KNOWN-FINDING line); it is not raised a second time under the including property
    own_known = {k["key"] for k in load_known().get("known", []) if any(k.get("key", "").startswith(rid + ":") for rid in rule_ids)}
    for r in sub.rules:
        if r.id in rule_ids:
            n += r.obligations
            for f in r.findings:
                if f.key in own_known:
                    rule.note("known finding of %s not repeated here: %s" % (f.key.split(".")[0], f.key))
                    continue
                g = rule.fail("via-" + f.key, "%s: %s" % (what, f.msg), file=f.file, line=f.line)
                g.func = f.func
                g.witness = f.witness
    rule.ok("%s (%d obligations of %s re-checked)" % (what, n, "/".join(rule_ids)))
    return n


MUTATORS = ("append", "appendleft", "add", "update", "setdefault", "pop", "popleft", "popitem", "clear", "insert", "remove", "discard", "extend", "move_to_end", "cache_clear", "__setitem__")


def memory_between_calls(f):
    """Ways in which a function can remember something from one call to the next without an instance to keep it on:
    a caching decorator, global / nonlocal names, writes into module-level objects, attributes set on functions or
    modules, a mutable default argument that is mutated.  -> list of (node, description)."""
    import ast as _ast

    out = []
    for d in getattr(f.node, "decorator_list", ()):
        txt = _ast.unparse(d)
        if any(w in txt.lower() for w in ("cache", "memo")):
            out.append((d, "is decorated with @%s: results are remembered and handed out again" % txt))
    modnames = set(getattr(f.module, "assigns", {})) | set(getattr(f.module, "functions", {}))
    local = {a.arg for a in f.node.args.posonlyargs + f.node.args.args + f.node.args.kwonlyargs}
    if f.node.args.vararg:
        local.add(f.node.args.vararg.arg)
    if f.node.args.kwarg:
        local.add(f.node.args.kwarg.arg)
    for n in _ast.walk(f.node):
        if isinstance(n, _ast.Name) and isinstance(n.ctx, _ast.Store):
            local.add(n.id)
    mutable_defaults = set()
    a = f.node.args
    pos = a.posonlyargs + a.args
    for prm, dflt in list(zip(pos[len(pos) - len(a.defaults):], a.defaults)) + [(p_, d_) for p_, d_ in zip(a.kwonlyargs, a.kw_defaults) if d_ is not None]:
        if isinstance(dflt, (_ast.Dict, _ast.List, _ast.Set)) or (isinstance(dflt, _ast.Call) and _ast.unparse(dflt.func) in ("dict", "list", "set", "collections.OrderedDict", "OrderedDict", "collections.defaultdict", "defaultdict")):
            mutable_defaults.add(prm.arg)
    for n in _ast.walk(f.node):
        if n is not f.node and isinstance(n, (_ast.FunctionDef, _ast.AsyncFunctionDef, _ast.Lambda)):
            continue
        if isinstance(n, (_ast.Global, _ast.Nonlocal)):
            out.append((n, "declares %s %s" % ("global" if isinstance(n, _ast.Global) else "nonlocal", ", ".join(n.names))))
        base = None
        if isinstance(n, _ast.Subscript) and isinstance(n.ctx, (_ast.Store, _ast.Del)) and isinstance(n.value, _ast.Name):
            base, how = n.value.id, "writes into"
        elif isinstance(n, _ast.Attribute) and isinstance(n.ctx, (_ast.Store, _ast.Del)) and isinstance(n.value, _ast.Name) and n.value.id != "self":
            base, how = n.value.id, "sets an attribute of"
        elif isinstance(n, _ast.Call) and isinstance(n.func, _ast.Attribute) and n.func.attr in MUTATORS and isinstance(n.func.value, _ast.Name):
            base, how = n.func.value.id, "mutates"
        if base is None:
            continue
        if base in mutable_defaults:
            out.append((n, "%s its mutable default argument `%s`, which lives as long as the function" % (how, base)))
        elif base in modnames and (base not in local or base in getattr(f.module, "functions", {})):
            out.append((n, "%s the module-level `%s`" % (how, base)))
    return out
