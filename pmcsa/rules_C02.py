"""C02 - requests are well-formed memcached commands; arguments cannot inject (partial: grammar of fragments)."""
import ast

from .model import AnalysisError, node_src, is_self_attr, call_name
from .paths import Interp, Domain, Env, TOP, NONE, Const, Exc, ORD, fmt_trace, Opaque
from .report import walk_no_nested
from . import wire, spec
from .keyeval import KeyEval, AStr

LEVEL = "other"
LEVEL_TEXT = (
    "Every public Client method that reaches an exchange function is interpreted over the wire-fragment domain with "
    "the exchange function inlined; each wire variant (forked on noreply, cas, flags, expire, graceful ...) must match "
    "the protocol grammar of its verb with only literals, sanitised keys, sanitised integers and a length-coupled data "
    "block (no tainted fragment); every sanitizer call precedes connecting/sending; the integer sanitizers are decided "
    "over type classes. Numeric ranges, exotic codecs and a server-grade parser are not decided; key sanitizer strength "
    "is C20 (plus the empty key here)."
)
TRUSTED = ["CPython ast", "pmcsa/paths.py", "pmcsa/wire.py fragment transformers", "grammar tables in pmcsa/spec.py (memcached protocol.txt)", "serde.serialize returns integer flags (documented serde contract); ints are exact ints (bool renders as a word the server rejects, without separators)"]


def run(chk):
    prog = chk.prog
    methods = wire.wire_methods(prog)
    r1 = chk.rule("C02.R1", "every wire variant of every public method matches the grammar of its verb: literals, sanitised keys/integers and a length-coupled data block only")
    r1.floor("public wire-producing methods of Client", len(methods), 24)
    r2 = chk.rule("C02.R2", "validate-before-send: no sanitizer / serializer / encode call is reachable after connecting or sending; one sendall per exchange")
    n_variants = 0
    san_sites = set()
    for m in methods:
        dom = wire.evaluate(prog, m)
        san_sites |= dom.sanitizer_sites
        if m.name in spec.EXEMPT_FROM_GRAMMAR:
            r1.note("%s exempt: %s" % (m.name, spec.EXEMPT_FROM_GRAMMAR[m.name]))
        else:
            verb = spec.METHOD_VERB.get(m.name, m.name)
            g = spec.GRAMMAR.get(verb)
            if g is None:
                r1.fail("Client.%s:no-grammar" % m.name, "public method %s sends a command for which the checker has no grammar" % m.name, fn=m, node=m.node)
                continue
            seen_bad = set()
            n_here = 0
            for ev in dom.events:
                for cmd in wire.commands_of(ev["wire"]):
                    if not cmd:
                        continue
                    n_here += 1
                    n_variants += 1
                    text = wire.render(cmd)
                    taints = [f for f in _flat(cmd) if f[0] == "taint"]
                    if wire.lost(_flat(cmd)):
                        r1.undecided("Client.%s:wire" % m.name, "Client.%s builds its command in a way the wire domain cannot follow (a piece of it is unknown, or the byte string was widened in a loop): what is sent is not known" % m.name)
                        continue
                    if taints:
                        what = wire.describe(taints[0][1])
                        key = "Client.%s:unsanitised:%s" % (m.name, _short(what))
                        if key not in seen_bad:
                            seen_bad.add(key)
                            r1.fail(key, "Client.%s puts `%s` on the command line without a sanitizer: a value containing a space or CR LF changes the command(s) the server parses (wire: %r)" % (m.name, what, text), fn=m, node=ev["site"])
                        continue
                    if not g.match(text):
                        # (one key or several: the same malformed shape, one construct)
                        key = "Client.%s:malformed:%s" % (m.name, _short(text.replace("‹K›", "‹K+›")))
                        if key not in seen_bad:
                            seen_bad.add(key)
                            r1.fail(key, "Client.%s can send %r, which is not a well-formed `%s` command (%s)" % (m.name, text, verb, g.pattern), fn=m, node=ev["site"])
            if not n_here:
                r1.fail("Client.%s:no-wire" % m.name, "no wire variant could be derived for %s" % m.name, fn=m, node=m.node)
            elif not seen_bad:
                r1.ok("Client.%s: %d wire variant(s) match `%s`" % (m.name, n_here, verb))
        for what, node in dom.order_violations:
            r2.fail("Client.%s:%s-after-send" % (m.name, what), "in Client.%s `%s` is reachable after the connection was opened or data was sent: an illegal argument is detected only when part of the request is already on the wire" % (m.name, node_src(node)), fn=m, node=node)
        if not dom.order_violations:
            r2.ok("Client.%s: all validation precedes _connect/sendall" % m.name, sample=False)
    r1.count("wire variants checked", n_variants)
    r2.floor("sanitizer call sites evaluated", len(san_sites), 12)
    for f in prog.cls("Client").methods.values():
        for c in walk_no_nested(f.node):
            if isinstance(c, ast.Call) and isinstance(c.func, ast.Attribute) and c.func.attr == "sendall":
                inloop = any(isinstance(a, (ast.For, ast.While)) for a in _ancestors(c))
                r2.expect(not inloop, "%s: sendall outside loops" % f.qualname, "%s:sendall-in-loop" % f.qualname, "%s sends inside a loop: with one illegal key in a multi-key call the earlier commands are already on the wire" % f.qualname, fn=f, node=c)

    # ------------------------------------------------------------------ R3 empty key
    r3 = chk.rule("C02.R3", "key sanitizer strength: see C20; additionally the empty (prefixed) key must be rejected")
    fn = prog.function("pymemcache/client/base.py", "check_key_helper")
    pp = [p.name for p in fn.pos_params()]
    for kind in ("bytes", "str"):
        ke = KeyEval(prog, fn)
        scen = {"C": 0, "E": 0, "P": 0, "T": 0}
        res = ke.run({pp[0]: AStr(kind, (), "C" if kind == "str" else "E", scen), pp[1]: False, pp[2]: AStr("bytes", (), "P", scen)})
        r3.expect(res[0] == "raise", "empty %s key rejected" % kind, "check_key_helper:empty-key-accepted", "the empty key (with an empty prefix) is accepted: e.g. set('', v) sends `set  0 0 1`, which the server parses as a different (malformed) command", fn=fn, node=fn.node)

    from .rules_C20 import wrapper_returns

    wrapper_returns(prog, r3)
    # the configured key_prefix goes in front of keys and of nothing else (an argument of stats / cache_memlimit is not a key)
    from . import rules_C04, report

    report.include_rules(chk, r3, rules_C04, ("C04.R4",), "key_prefix is applied to every key and to nothing that is not a key")
    report.include_rules(chk, r3, rules_C04, ("C04.R1",), "the command line carries what the caller gave: the length of the block that is sent, the flags that were passed (0 included)")
    # an illegal key is refused before any part of the request is on the wire, for an illegal key anywhere in a batch
    # and whatever ignore_exc (decided end to end, C20.R6)
    from . import rules_C20

    report.include_rules(chk, r2, rules_C20, ("C20.R6",), "an argument that cannot be sent as given is rejected before anything is sent")
    report.include_rules(chk, r3, rules_C20, ("C20.R5",), "every key that reaches the wire was validated by the one rule, with nothing switched off for some callers")

    # ------------------------------------------------------------------ R4 integer sanitizers
    r4 = chk.rule("C02.R4", "integer sanitizers: _check_integer returns only for int and renders with str(); _check_cas returns only digit strings; everything else raises MemcacheIllegalInputError")
    ci = prog.method("Client", "_check_integer")
    for tag in ("int", "bool", "str", "bytes", "float", "NoneType", "list"):
        d = _TypeDomain(prog, ci, tag)
        outs = Interp(d, ci.node, prog).run(Env({ci.pos_params()[0].name: Opaque("value")}))
        rets, excs = outs.of("ret"), outs.of("exc")
        if tag in ("int", "bool"):
            ok = rets and not excs and all(v == Opaque("str(value).encode") for s, v, t in rets)
            r4.expect(ok, "_check_integer(%s) -> str(value).encode(...)" % tag, "Client._check_integer:int-row", "_check_integer does not return str(value).encode(...) for an int (%s)" % [v for s, v, t in rets], fn=ci, node=ci.node)
        else:
            ok = not rets and excs and all(e.cls == "MemcacheIllegalInputError" for s, e, t in excs)
            r4.expect(ok, "_check_integer(%s) raises MemcacheIllegalInputError" % tag, "Client._check_integer:accepts-%s" % tag, "_check_integer lets a %s through (%s): non-integers must be rejected before anything is sent" % (tag, ("returns" if rets else "raises %s" % [e.cls for s, e, t in excs])), fn=ci, node=ci.node)
    cc = prog.method("Client", "_check_cas")
    for tag in ("int", "str", "bytes", "float", "NoneType"):
        for digits in (True, False):
            d = _TypeDomain(prog, cc, tag, digits=digits)
            outs = Interp(d, cc.node, prog).run(Env({cc.pos_params()[0].name: Opaque("value")}))
            rets, excs = outs.of("ret"), outs.of("exc")
            excs = [x for x in excs if x[1].cls != "UnicodeEncodeError" or True]
            should_accept = tag in ("int", "str", "bytes") and digits
            if should_accept:
                ok = rets and not [e for s, e, t in excs if e.cls != "MemcacheIllegalInputError"]
                r4.expect(bool(ok), "_check_cas(%s of digits) accepted" % tag, "Client._check_cas:rejects-%s-digits" % tag, "_check_cas rejects a %s consisting of digits" % tag, fn=cc, node=cc.node)
            else:
                ok = not rets and all(e.cls == "MemcacheIllegalInputError" for s, e, t in excs)
                r4.expect(ok, "_check_cas(%s, digits=%s) raises MemcacheIllegalInputError" % (tag, digits), "Client._check_cas:accepts-%s-%s" % (tag, "digits" if digits else "nondigits"), "_check_cas lets through a %s %s (returns %s / raises %s): anything but ASCII digits on the cas position can change the command" % (tag, "of digits" if digits else "that is not all digits", [v for s, v, t in rets], [e.cls for s, e, t in excs]), fn=cc, node=cc.node)
    chk.assume("the flags returned by a user-supplied serde are integers (documented serde contract); since the fix they are validated by _check_integer anyway")
    chk.assume("bool arguments are rendered as 'True'/'False' (a word without separators that the server rejects): not an injection")


class _TypeDomain(Domain):
    """value has one exact type; isinstance is decided from it; str/encode/isdigit are summarised."""

    async_enabled = False
    SUB = {"bool": ("bool", "int"), "int": ("int",), "str": ("str",), "bytes": ("bytes",), "float": ("float",), "NoneType": ("NoneType",), "list": ("list",)}

    def __init__(self, prog, fn, tag, digits=True):
        super().__init__(prog, fn)
        self.tag = tag
        self.digits = digits

    def attr_load(self, objval, node, state):
        if objval is TOP or isinstance(objval, Const):
            return TOP
        return ("meth", objval, node.attr)

    def call(self, node, fval, args, kwargs, state):
        name = call_name(node)
        if name == "isinstance" and len(args) == 2 and args[0] in (Opaque("value"),):
            t = node.args[1]
            names = [e.id for e in t.elts] if isinstance(t, ast.Tuple) else ([t.id] if isinstance(t, ast.Name) else [])
            return [("ok", Const(any(n in self.SUB[self.tag] for n in names)), state)]
        if name == "isinstance" and len(args) == 2:
            t = node.args[1]
            names = [e.id for e in t.elts] if isinstance(t, ast.Tuple) else ([t.id] if isinstance(t, ast.Name) else [])
            if args[0] == Opaque("str(value).encode"):
                return [("ok", Const("bytes" in names), state)]
            return [("ok", TOP, state)]
        if name == "str" and args and args[0] == Opaque("value"):
            return [("ok", Opaque("str(value)"), state)]
        if isinstance(fval, tuple) and fval and fval[0] == "meth":
            _, obj, attr = fval
            if attr == "encode" and obj == Opaque("str(value)"):
                # str() of an int / digit string encodes without error under any ASCII-compatible codec
                return [("ok", Opaque("str(value).encode"), state)]
            if attr == "isdigit":
                if obj == Opaque("str(value).encode") or (obj == Opaque("value") and self.tag == "bytes"):
                    d = self.digits if self.tag != "float" else False
                    if self.tag == "int" and obj == Opaque("str(value).encode"):
                        d = self.digits  # negative ints render with '-'
                    return [("ok", Const(d), state)]
                return [("exc", Exc(ORD, "AttributeError", node.lineno), state)]
        # an extracted conversion / validation step: interpreted in line
        target = None
        if name.startswith("self._") and name.count(".") == 1:
            target = self.prog.cls("Client").methods.get(name[5:])
        elif isinstance(node.func, ast.Name) and self.fn is not None:
            target = self.fn.module.functions.get(node.func.id)
        if target is not None:
            res = self.inline(node, target, args, kwargs, state)
            if res is not None:
                return res
        return [("ok", TOP, state)]

    def ret_value(self, st, v, s):
        if v == Opaque("value") and self.tag == "bytes":
            return Opaque("value")
        return v if isinstance(v, (Opaque, Const)) else TOP


def _flat(frags):
    for f in frags:
        if f[0] == "rep":
            for p in f[1]:
                yield from _flat(wire.to_frags(p))
        else:
            yield f


def _short(s):
    import re

    return re.sub(r"[^A-Za-z0-9_<>‹›+ -]+", "_", s)[:50]


def _ancestors(n):
    n = getattr(n, "_parent", None)
    while n is not None:
        yield n
        n = getattr(n, "_parent", None)
