#!/venv/bin/python
"""Copy verified seeded changes from /tmp/wt-out/<prop>/<x>/ to /verif/seeded/<prop><x>/ with meta.json."""
import json, os, shutil, sys, re
src = "/tmp/wt-out"
for prop in sorted(os.listdir(src)):
    if not re.fullmatch(r"C\d\d", prop): continue
    for x in sorted(os.listdir(os.path.join(src, prop))):
        d = os.path.join(src, prop, x)
        if not os.path.isdir(d) or not os.path.exists(os.path.join(d, "verify.txt")): continue
        v = open(os.path.join(d, "verify.txt")).read().strip()
        ok = "488 passed" in v and "demo_with_change=0" not in v and "demo_without_change=0" in v
        dst = os.path.join("/verif/seeded", prop + x)
        if not ok:
            print("NOT CONFIRMED", d, v); continue
        os.makedirs(dst, exist_ok=True)
        shutil.copy(os.path.join(d, "patch.diff"), dst)
        shutil.copy(os.path.join(d, "demo.py"), dst)
        note = open(os.path.join(d, "note.md")).read() if os.path.exists(os.path.join(d, "note.md")) else ""
        meta_p = os.path.join(dst, "meta.json")
        meta = json.load(open(meta_p)) if os.path.exists(meta_p) else {}
        meta.update({
            "id": prop + x,
            "property": prop,
            "origin": "independent sub-agent given only the property text and a scratch worktree of /repo HEAD",
            "repo_head_when_seeded": os.popen("git -C /repo rev-parse --short HEAD").read().strip(),
            "note": note,
            "confirmed_by": "tools/verify_seed.sh on a scratch copy of /repo HEAD: " + v,
        })
        json.dump(meta, open(meta_p, "w"), indent=1)
        print("kept", dst)
