#!/venv/bin/python
"""Behaviour-preserving refactorings (written by independent sub-agents that saw only the code region): every check
must keep its verdict on them.  Applies each patch to a scratch copy of /repo HEAD under /tmp, runs the pinned suite
and all claimed checks with --root.  Kept under /verif/refactorings/<id>/ ; writes /verif/refactorings/RESULTS.md."""
import json, os, re, shutil, subprocess, sys
from concurrent.futures import ThreadPoolExecutor
SRC = "/tmp/wt-out/refac"
DST = "/verif/refactorings"
PROPS = subprocess.run(["/venv/bin/python", "-c", "import sys; sys.path.insert(0,'/verif'); from pmcsa import registry; print(' '.join(sorted(registry.CLAIMED)))"], capture_output=True, text=True).stdout.split()
def harvest():
    # round 1: /tmp/wt-out/refac/R0x/rN -> R0xrN ; round 2: /tmp/wt-out/refac2/R0x/rN -> S0xrN
    for src, pre in ((SRC, "R"), (SRC + "2", "S"), (SRC + "3", "T"), (SRC + "4", "U"), (SRC + "5", "W"), (SRC + "6", "X"), (SRC + "7", "Y")):
        if not os.path.isdir(src): continue
        for w in sorted(os.listdir(src)):
          for r in sorted(os.listdir(os.path.join(src, w))):
            d = os.path.join(src, w, r)
            if os.path.exists(os.path.join(d, "patch.diff")):
                dst = os.path.join(DST, pre + w[1:] + r)
                os.makedirs(dst, exist_ok=True)
                shutil.copy(os.path.join(d, "patch.diff"), dst)
                if os.path.exists(os.path.join(d, "note.md")): shutil.copy(os.path.join(d, "note.md"), dst)
BASE_DEFAULT = "d534e3c"  # (later rounds record their base in base.txt)  # the /repo commit rounds R, S, T, U were written against
_base_cache = {}
def base_findings(commit):
    """Finding keys every check reports on the unrefactored tree of `commit` (the refactoring must add none)."""
    if commit in _base_cache: return _base_cache[commit]
    wt = "/tmp/wt/refbase_" + commit
    shutil.rmtree(wt, ignore_errors=True); os.makedirs(wt)
    subprocess.run("git -C /repo archive %s | tar -x -C %s" % (commit, wt), shell=True, check=True)
    out = {}
    for p in PROPS:
        r = subprocess.run(["./check", p, "--root", wt], cwd="/verif", capture_output=True, text=True)
        out[p] = (r.returncode, set(re.findall(r"\[(C\d\d\.R[\w.]+:[^\]]*)\]", r.stdout)))
    shutil.rmtree(wt, ignore_errors=True)
    _base_cache[commit] = out
    return out
def one(rid):
    d = os.path.join(DST, rid)
    wt = "/tmp/wt/refrun_" + rid
    shutil.rmtree(wt, ignore_errors=True); os.makedirs(wt)
    base = "HEAD"
    subprocess.run("git -C /repo archive HEAD | tar -x -C %s" % wt, shell=True, check=True)
    r = subprocess.run("patch -p1 -s --dry-run < %s/patch.diff" % d, shell=True, cwd=wt, capture_output=True, text=True)
    if r.returncode != 0:
        # written against an older commit and touching code a later `fix:` changed: judged relative to that commit
        base = open(os.path.join(d, "base.txt")).read().strip() if os.path.exists(os.path.join(d, "base.txt")) else BASE_DEFAULT
        shutil.rmtree(wt, ignore_errors=True); os.makedirs(wt)
        subprocess.run("git -C /repo archive %s | tar -x -C %s" % (base, wt), shell=True, check=True)
    r = subprocess.run("patch -p1 -s < %s/patch.diff" % d, shell=True, cwd=wt, capture_output=True, text=True)
    if r.returncode != 0:
        shutil.rmtree(wt, ignore_errors=True); return rid, "patch does not apply", {"-": (3, ["patch does not apply to HEAD or %s" % base], [])}
    t = subprocess.run("PYTHONPATH=%s /venv/bin/python -m pytest -q -p no:cacheprovider --timeout=900 -x 2>&1 | tail -1" % wt, shell=True, cwd=wt, capture_output=True, text=True).stdout.strip()
    res = {}
    for p in PROPS:
        r = subprocess.run(["./check", p, "--root", wt], cwd="/verif", capture_output=True, text=True)
        if r.returncode != 0:
            keys = set(re.findall(r"\[(C\d\d\.R[\w.]+:[^\]]*)\]", r.stdout))
            errs = [l[:200] for l in r.stdout.splitlines() if l.startswith("ANALYSIS-ERROR")]
            if base != "HEAD":
                brc, bkeys = base_findings(base)[p]
                keys -= bkeys  # findings the unrefactored tree of that commit has as well are not the refactoring's
                if not keys and not errs and brc == r.returncode:
                    continue
            res[p] = (r.returncode, sorted(keys)[:4], errs[:1])
    shutil.rmtree(wt, ignore_errors=True)
    return rid, t, res
if __name__ == "__main__":
    harvest()
    only = sys.argv[1:]
    rids = sorted(x for x in os.listdir(DST) if os.path.isdir(os.path.join(DST, x)) and (not only or x in only or x[:3] in only))
    with ThreadPoolExecutor(16) as ex:
        results = list(ex.map(one, rids))
    lines = ["# Behaviour-preserving refactorings vs checks", "", "Each patch applied to a scratch copy of /repo HEAD; the pinned suite and every claimed check (--root) run on it.", "A check that does not exit 0 here is a false alarm (or an honest ANALYSIS-ERROR) to be triaged; see DESIGN.md 8.6.", "", "| refactoring | suite | checks not exiting 0 |", "|---|---|---|"]
    noisy = 0
    for rid, t, res in results:
        bad = "; ".join("%s(exit %d: %s)" % (p, rc, (k or e)) for p, (rc, k, e) in sorted(res.items()))
        if res: noisy += 1
        lines.append("| %s | %s | %s |" % (rid, "488 passed" if "488 passed" in t else t[:60], bad[:400] or "all 20 silent"))
        print(rid, "488" if "488 passed" in t else t[:60], {p: (rc, k, e) for p, (rc, k, e) in res.items()})
    lines.append(""); lines.append("%d of %d refactorings leave every check silent." % (len(results) - noisy, len(results)))
    if not only:  # a partial run does not replace the table of the full one
        open(os.path.join(DST, "RESULTS.md"), "w").write("\n".join(lines) + "\n")
    print("%d/%d silent" % (len(results) - noisy, len(results)))
