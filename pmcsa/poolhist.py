"""ObjectPool on sequential histories (C08.R6 / C09.R8).

The lock rules of C08 (every access in a hold, check-then-act in one hold) say that what a method does to the pool's
books happens atomically; what is left to show is that the books stay right under every *order* of calls.  Here the
methods of ObjectPool are interpreted on a concrete pool: the guarded collections are heap objects with exact content
(pmcsa/colls.py), created objects are pairwise distinct symbols, the clock is scripted.  From a freshly constructed
pool every sequence of get / release(x) / destroy(x) / clear / clock tick - x ranging over every object created so far,
so double release, release after destroy and release after clear are in - is followed to a depth bound, and after every
call the books are compared with what the calls so far entitle to:

  I1  no object is listed twice (in the checked-out and idle collections together)
  I2  at most max_size objects are listed
  I3  every object ever created is listed, or was closed exactly once; a closed object is not listed
  G1  get() hands out an object that is listed as checked out, is not closed and is not held by anyone
  G3  after get() no object that had been idle for longer than idle_timeout is still listed as idle (checkout is where
      expired connections are closed: the scan must reach all of them)
  G2  an idle object handed out passed the idle test against the scripted clock; a new object is created only when no
      idle object passed it and fewer than max_size are checked out; get() raises (RuntimeError) only when the pool is
      full, and nothing is lost when it does
  R1  release(x) / destroy(x) of an object that is not checked out changes nothing (silent) or raises ValueError
  R2  release(x) of a checked-out object lists it as idle, stamped with the current clock; destroy(x) closes it

Nothing of /repo is executed: the interpretation is over abstract values that happen to be exact."""
import ast

from .model import is_self_attr, call_name
from .spec import CLOCKS
from .paths import Interp, Domain, Env, TOP, NONE, Const, TupleV, Exc, ORD, Opaque
from .colls import ExactCollections, carry_over, content, Ref

POOL = "pymemcache/pool.py"


class PoolDomain(ExactCollections, Domain):
    async_enabled = False
    subscript_may_raise = False
    unpack_may_raise = False
    max_inline_depth = 3

    def mark_imprecise(self, state, node):
        return state.set("#imprecise", 1)

    def is_global_key(self, k):
        # the pool's own state, the objects' attributes and the scenario's counters outlive a helper frame
        return isinstance(k, tuple) or (isinstance(k, str) and (k.startswith("self.") or k.startswith("#") or k.startswith("attr:")))

    def name_load(self, name, state, node=None):
        if state.has(name):
            return state.get(name)
        if name in ("float", "int", "len", "isinstance", "tuple", "list", "bool"):
            return Opaque("builtin:" + name)
        if name in ("time", "collections", "threading"):
            return Opaque("module:" + name)
        mod = self.prog.module(POOL) if self.prog is not None else None
        if mod is not None and name in mod.assigns:
            v = mod.assigns[name]
            if isinstance(v, ast.Call) and call_name(v) == "object" and not v.args:
                return Opaque("sentinel:" + name)
            if isinstance(v, ast.Constant):
                return Const(v.value)
        return TOP

    def attr_load(self, objval, node, state):
        b = self.coll_attr(objval, node)
        if b is not None:
            return b
        if is_self_attr(node):
            return state.get("self." + node.attr, TOP)
        if isinstance(objval, Opaque) and objval.tag.startswith("module:"):
            return Opaque("%s.%s" % (objval.tag[7:], node.attr))
        if isinstance(objval, Opaque) and objval.tag.startswith("obj:"):
            return state.get("attr:%s:%s" % (objval.tag, node.attr), TOP)
        return TOP

    def attr_store(self, objval, node, value, state):
        if isinstance(objval, Opaque) and objval.tag.startswith("obj:"):
            return state.set("attr:%s:%s" % (objval.tag, node.attr), value)
        return super().attr_store(objval, node, value, state)

    def truth(self, v, state=None):
        if isinstance(v, Opaque):
            return True
        return super().truth(v, state)

    def compare(self, node, op, l, r, state):
        if isinstance(op, (ast.Is, ast.IsNot)) and isinstance(l, (Opaque, Const)) and isinstance(r, (Opaque, Const)):
            same = l == r
            return Const(same if isinstance(op, ast.Is) else not same)
        return super().compare(node, op, l, r, state)

    def with_enter(self, item, value, state):
        if value == Opaque("lock"):
            if state.get("#locked", 0):
                return [("exc", Exc(ORD, "Deadlock", item.context_expr.lineno), state)]
            return [("ok", NONE, state.set("#locked", 1))]
        return [("ok", TOP, self.mark_imprecise(state, item.context_expr))]

    def with_exit(self, item, value, kind, state):
        if value == Opaque("lock"):
            return [("ok", state.set("#locked", 0), False)]
        return [("ok", state, False)]

    def call(self, node, fval, args, kwargs, state):
        name = call_name(node)
        if isinstance(fval, Opaque):
            t = fval.tag
            if t in ("collections.deque", "builtin:list") and not args:
                return [("ok",) + self.alloc(state, node, "list", TupleV(()))]
            if t in ("threading.Lock", "threading.RLock", "lockgen"):
                return [("ok", Opaque("lock"), state)]
            if t == "builtin:float" and not args:
                return [("ok", Const(0.0), state)]
            if t in CLOCKS:
                return [("ok", Const(state.get("#clock", 100)), state)]
            if t == "creator":
                n = state.get("#ncreated", 0) + 1
                obj = Opaque("obj:%d" % n)
                return [("ok", obj, state.set("#ncreated", n).set("#created", state.get("#created", ()) + (obj,)))]
            if t == "after_remove":
                st = state.set("#closed", state.get("#closed", ()) + (args[0] if args else TOP,))
                if state.get("#close_raises", 0):
                    # the scenario's "closing the connection is interrupted / fails": the callback raises (after the
                    # attempt: the object counts as closed), the pool method does not catch it
                    return [("exc", Exc(ORD, "CloseInterrupted", node.lineno), st.set("#abandoned", 1))]
                return [("ok", NONE, st)]
            if t == "builtin:isinstance" and len(args) == 2 and isinstance(args[0], Const) and args[1] == Opaque("builtin:int"):
                return [("ok", Const(isinstance(args[0].v, int)), state)]
        r = self.coll_call(node, fval, args, kwargs, state)
        if r is not None:
            return r
        if name.startswith("self.") and name.count(".") == 1 and self.prog is not None:
            m = self.prog.cls("ObjectPool").methods.get(name[5:])
            if m is not None and "property" not in m.decorators and "contextmanager" not in " ".join(m.decorators):
                res = self.inline(node, m, args, kwargs, state)
                if res is not None:
                    return res
        return [("ok", TOP, self.mark_imprecise(state, node) if isinstance(fval, Opaque) and fval.tag.startswith("obj:") else state)]


def _keep(k):
    return k.startswith("self.") or k.startswith("attr:") or k in ("#ncreated", "#created", "#closed", "#clock")


class Books:
    """What a carried-over pool state lists: the checked-out and the idle objects."""

    def __init__(self, carried, used_f, free_f):
        self.ok = True
        self.used = self._seq(carried, used_f)
        self.free = self._seq(carried, free_f)
        self.closed = tuple(carried.get("#closed", ()))
        self.created = tuple(carried.get("#created", ()))

    def _seq(self, carried, field):
        v = carried.get("self." + field)
        if isinstance(v, Ref):
            c = carried.get(("heap", v))
            if isinstance(c, TupleV):
                return tuple(c.items)
        self.ok = False
        return ()


def pool_histories(prog, rule, tier, prefix="ObjectPool"):
    """Decide I1-I3, G1-G2, R1-R2 on every history up to the depth bound.  -> number of calls interpreted, or None if
    the pool's state is not exactly known (reported as undecided)."""
    from . import poolpaths

    pool = prog.cls("ObjectPool")
    kinds = poolpaths.field_kinds(prog)
    used_f = [f for f in kinds if "used" in f]
    free_f = [f for f in kinds if "free" in f]
    if len(used_f) != 1 or len(free_f) != 1:
        rule.undecided("%s:histories" % prefix, "the checked-out and idle collections of the pool are not identified (%s)" % sorted(kinds))
        return None
    used_f, free_f = used_f[0], free_f[0]
    meth = {n: prog.method(pool, n) for n in ("__init__", "get", "release", "destroy", "clear")}
    reported = set()
    n_calls = [0]

    def fail(construct, msg, f):
        if construct not in reported:
            reported.add(construct)
            rule.fail("%s.%s" % (prefix, construct), msg, fn=f, node=f.node)

    def call(f, carried, **argv):
        dom = PoolDomain(prog, f)
        env = dict(carried)
        for p in f.params:
            if p.name == "self":
                continue
            if p.name in argv:
                env[p.name] = argv[p.name]
            elif p.has_default:
                env[p.name] = Const(p.default.value) if isinstance(p.default, ast.Constant) else NONE
            else:
                env[p.name] = TOP
        n_calls[0] += 1
        return Interp(dom, f.node, prog).run(Env(env))

    depth = 8 if tier == "thorough" else 6
    max_created = 5 if tier == "thorough" else 4
    total_states = 0
    for max_size, idle_timeout in ((2, 0), (2, 10), (1, 10)):
        outs = call(meth["__init__"], {}, obj_creator=Opaque("creator"), after_remove=Opaque("after_remove"), max_size=Const(max_size), idle_timeout=Const(idle_timeout), lock_generator=NONE)
        rets = outs.of("ret")
        if len(rets) != 1 or outs.of("exc") or rets[0][0].get("#imprecise", 0):
            rule.undecided("%s.__init__:histories" % prefix, "the constructor does not leave one exactly known pool (max_size=%d, idle_timeout=%d: %d normal exits, %d raising)" % (max_size, idle_timeout, len(rets), len(outs.of("exc"))))
            return None
        start = carry_over(rets[0][0].set("#clock", 100), _keep)
        b0 = Books(start, used_f, free_f)
        if not b0.ok:
            rule.undecided("%s.__init__:histories" % prefix, "self.%s / self.%s are not exactly known collections after construction" % (used_f, free_f))
            return None
        cfg = "max_size=%d, idle_timeout=%d" % (max_size, idle_timeout)
        seen = set()
        frontier = [(tuple(sorted(start.items(), key=str)), frozenset(), ())]  # (state, held objects, history)
        for d in range(depth):
            nxt = []
            for frozen, held, hist in frontier:
                carried = dict(frozen)
                before = Books(carried, used_f, free_f)
                clock = carried.get("#clock", 100)
                ops = [("get", None)]
                for x in before.created:
                    ops += [("release", x), ("destroy", x)]
                ops += [("clear", None)]
                if idle_timeout:
                    ops += [("tick", None)]
                # the same calls with the close callback raising (a failing or interrupted socket close): the books must
                # come out of it with the capacity intact, whatever happens to the connection itself
                ops += [("destroy!", x) for x in before.used] + ([("clear!", None)] if before.used or before.free else []) + ([("get!", None)] if idle_timeout and before.free else [])
                for opname, x in ops:
                    interrupted = opname.endswith("!")
                    opname = opname.rstrip("!")
                    h2 = hist + ("%s(%s)%s" % (opname, x.tag[4:] if x is not None else "", " with the close callback raising" if interrupted else ""),)
                    where = "%s; after %s" % (cfg, ", ".join(hist) or "construction")
                    if opname == "tick":
                        c2 = dict(carried)
                        c2["#clock"] = clock + 2 * idle_timeout + 1
                        key = (tuple(sorted(c2.items(), key=str)), held)
                        if key not in seen:
                            seen.add(key)
                            nxt.append((key[0], held, h2))
                        continue
                    if opname == "get" and len(before.created) >= max_created:
                        continue
                    f = meth[opname]
                    outs = call(f, dict(carried, **{"#close_raises": 1}) if interrupted else carried, **({"obj": x} if x is not None else {}))
                    rets, excs = outs.of("ret"), outs.of("exc")
                    if len(rets) + len(excs) != 1 or any(s.get("#imprecise", 0) for s, v, t in rets + excs):
                        rule.undecided("%s.%s:histories" % (prefix, opname), "%s: %s does not have one exactly known outcome (%d normal, %d raising)" % (where, h2[-1], len(rets), len(excs)))
                        return None
                    s2, v2, _ = (rets or excs)[0]
                    raised = excs[0][1].cls if excs else None
                    if interrupted:
                        # only the books are judged: what is listed, and (in the steps that follow) that capacity is
                        # what the listing says.  The objects this call was closing are written off.
                        c2 = carry_over(s2.drop("#close_raises") if s2.has("#close_raises") else s2, _keep)
                        after = Books(c2, used_f, free_f)
                        if not after.ok:
                            rule.undecided("%s.%s:histories" % (prefix, opname), "%s: after %s the pool's collections are not exactly known" % (where, h2[-1]))
                            return None
                        if s2.get("#locked", 0):
                            fail("%s:lock-left-held" % opname, "%s: %s ends with the pool lock held" % (where, h2[-1]), f)
                            continue
                        listed = after.used + after.free
                        if len(set(listed)) != len(listed) or len(listed) > max_size:
                            fail("%s:books-after-failed-close" % opname, "%s: after %s the pool lists %s (checked out) and %s (idle)" % (where, h2[-1], [o.tag[4:] for o in after.used], [o.tag[4:] for o in after.free]), f)
                            continue
                        if raised not in (None, "CloseInterrupted") and not (opname == "get" and raised == "RuntimeError"):
                            fail("%s:raises" % opname, "%s: %s raises %s" % (where, h2[-1], raised), f)
                            continue
                        # write the abandoned objects off: closed as far as the books are concerned
                        gone = [o for o in after.created if o not in listed and o not in after.closed]
                        if gone:
                            c2["#closed"] = tuple(c2.get("#closed", ())) + tuple(gone)
                        held2 = held - set(o for o in held if o not in after.used)
                        if opname == "get" and raised is None and isinstance(v2, Opaque):
                            held2 = held2 | {v2}
                        key = (tuple(sorted(c2.items(), key=str)), frozenset(held2))
                        if key not in seen:
                            seen.add(key)
                            nxt.append((key[0], frozenset(held2), h2))
                        continue
                    if s2.get("#locked", 0):
                        fail("%s:lock-left-held" % opname, "%s: %s ends with the pool lock held" % (where, h2[-1]), f)
                        continue
                    c2 = carry_over(s2, _keep)
                    after = Books(c2, used_f, free_f)
                    if not after.ok:
                        rule.undecided("%s.%s:histories" % (prefix, opname), "%s: after %s the pool's collections are not exactly known" % (where, h2[-1]))
                        return None
                    listed = after.used + after.free
                    names = lambda xs: [o.tag[4:] if isinstance(o, Opaque) else str(o) for o in xs]
                    # ---- invariants
                    bad = False
                    if len(set(listed)) != len(listed):
                        fail("%s:listed-twice" % opname, "%s: after %s an object is listed twice (checked out %s, idle %s): it can be handed to two callers" % (where, h2[-1], names(after.used), names(after.free)), f)
                        bad = True
                    if len(listed) > max_size:
                        fail("%s:over-capacity" % opname, "%s: after %s the pool lists %d objects (checked out %s, idle %s), more than max_size" % (where, h2[-1], len(listed), names(after.used), names(after.free)), f)
                        bad = True
                    for o in after.created:
                        nclosed = after.closed.count(o)
                        if nclosed > 1:
                            fail("%s:closed-twice" % opname, "%s: after %s object %s was closed %d times" % (where, h2[-1], names([o])[0], nclosed), f)
                            bad = True
                        elif nclosed == 1 and o in listed:
                            fail("%s:closed-object-listed" % opname, "%s: after %s object %s is closed and still listed (checked out %s, idle %s): the next caller gets a dead connection" % (where, h2[-1], names([o])[0], names(after.used), names(after.free)), f)
                            bad = True
                        elif nclosed == 0 and o not in listed:
                            fail("%s:lost-object" % opname, "%s: after %s object %s is neither listed nor closed: the connection leaks" % (where, h2[-1], names([o])[0]), f)
                            bad = True
                    # ---- per-operation expectations
                    held2 = held
                    if opname == "get":
                        fresh = [o for o in before.free if (clock if idle_timeout else 0.0) - _stamp(carried, o) <= idle_timeout] if all(_stamp(carried, o) is not None for o in before.free) else None
                        if raised is not None:
                            full = len(before.used) >= max_size
                            if raised != "RuntimeError" or not full or (fresh is None or fresh):
                                fail("get:raises", "%s: get() raises %s with %d of %d checked out and idle objects %s" % (where, raised, len(before.used), max_size, names(before.free)), f)
                                bad = True
                        else:
                            o = v2
                            if not isinstance(o, Opaque) or not o.tag.startswith("obj:"):
                                fail("get:returns-no-object", "%s: get() returns %s" % (where, o), f)
                                bad = True
                            else:
                                if o not in after.used:
                                    fail("get:returns-unlisted", "%s: get() returns object %s which is not listed as checked out afterwards (%s): release() will not find it" % (where, names([o])[0], names(after.used)), f)
                                    bad = True
                                if o in held:
                                    fail("get:hands-out-held-object", "%s: get() hands out object %s which another caller still holds" % (where, names([o])[0]), f)
                                    bad = True
                                if o in after.closed:
                                    fail("get:hands-out-closed-object", "%s: get() hands out object %s which was closed" % (where, names([o])[0]), f)
                                    bad = True
                                if fresh is not None:
                                    if o in before.free and o not in fresh:
                                        fail("get:hands-out-expired", "%s: get() hands out idle object %s although it idled longer than idle_timeout" % (where, names([o])[0]), f)
                                        bad = True
                                    if o not in before.created and fresh:
                                        fail("get:creates-despite-idle", "%s: get() creates a new object although idle object(s) %s passed the idle test" % (where, names(fresh)), f)
                                        bad = True
                                    if o not in before.created and len(before.used) >= max_size:
                                        fail("get:creates-over-capacity", "%s: get() creates a new object with %d of %d checked out" % (where, len(before.used), max_size), f)
                                        bad = True
                                held2 = held | {o}
                        if idle_timeout and all(_stamp(c2, o_) is not None for o_ in after.free):
                            stale = [o_ for o_ in after.free if clock - _stamp(c2, o_) > idle_timeout]
                            if stale:
                                fail("get:leaves-expired-idle", "%s: after get() the idle object(s) %s, idle for longer than idle_timeout at the time of the call, are still listed and open: the scan for a reusable object stopped before reaching them, and with steady traffic it always will (they are never closed)" % (where, names(stale)), f)
                                bad = True
                    elif opname in ("release", "destroy"):
                        if x not in before.used:
                            if raised is not None or (after.used, after.free, after.closed) != (before.used, before.free, before.closed):
                                fail("%s:untracked-object" % opname, "%s: %s of an object that is not checked out %s (checked out %s -> %s, idle %s -> %s, closed %s -> %s)" % (where, h2[-1], "raises %s" % raised if raised else "changes the books", names(before.used), names(after.used), names(before.free), names(after.free), names(before.closed), names(after.closed)), f)
                                bad = True
                        else:
                            if raised is not None:
                                fail("%s:raises" % opname, "%s: %s of a checked-out object raises %s" % (where, h2[-1], raised), f)
                                bad = True
                            elif opname == "release" and (x not in after.free or x in after.used or _stamp(c2, x) != (clock if idle_timeout else 0.0)):
                                fail("release:not-idle", "%s: after %s the object is not listed as idle with the current clock (checked out %s, idle %s)" % (where, h2[-1], names(after.used), names(after.free)), f)
                                bad = True
                            elif opname == "destroy" and (x in listed or after.closed.count(x) != 1):
                                fail("destroy:not-closed", "%s: after %s the object is still listed or not closed exactly once" % (where, h2[-1]), f)
                                bad = True
                        held2 = held - {x}
                    elif opname == "clear":
                        if raised is not None or listed:
                            fail("clear:not-empty", "%s: clear() %s" % (where, "raises %s" % raised if raised else "leaves %s listed" % names(listed)), f)
                            bad = True
                        held2 = frozenset()
                    if bad or raised is not None and opname != "get":
                        continue
                    key = (tuple(sorted(c2.items(), key=str)), held2)
                    if key not in seen:
                        seen.add(key)
                        nxt.append((key[0], held2, h2))
            frontier = nxt
            if not frontier:
                break
        total_states += len(seen)
    rule.count("pool states reached by sequential histories", total_states)
    rule.count("pool calls interpreted", n_calls[0])
    rule.floor("pool states reached by sequential histories", total_states, 50)
    if not reported:
        rule.ok("every sequence of get / release / destroy / clear / clock tick up to depth %d (3 configurations, %d pool states) keeps the books: nothing listed twice, at most max_size listed, every object listed or closed once, get() hands out only unheld, open, fresh objects" % (depth, total_states))
    return n_calls[0]


def _stamp(carried, o):
    v = carried.get("attr:%s:_last_used" % o.tag)
    return v.v if isinstance(v, Const) else None
